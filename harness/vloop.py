"""Virtual-time asyncio loop for driving the real SerialEvaluator (and queued(Serial...)) deterministically.

No repo hooks: the evaluator calls `asyncio.new_event_loop()` itself, so we install an event-loop
*policy* whose loops run on a virtual clock; `deephyper.evaluator._evaluator.time` (the module-global
`time` the evaluator reads deadlines from) is replaced by a shim reading the same clock; `asyncio.wait`
is wrapped to record which tasks each call reported done (the model's environment input `waits`).

The clock jumps to the next timer when nothing is ready and otherwise advances by a small quantum on
every loop iteration -- without the quantum the real code's busy-spinning `gather("BATCH", k>=2)`
(it re-waits FIRST_COMPLETED on a set that already contains a done task) live-locks virtual time.

Usage:
    vt = vloop.install()            # once per process, before creating evaluators
    vt.reset()                      # new scenario: clock back to 0, wait log cleared
    ... create Evaluator(method="serial"), run-functions use `await asyncio.sleep(d)` ...
    vt.now(), vt.waits              # virtual time, list of sorted task-name lists per asyncio.wait call
    vloop.uninstall()
"""
import asyncio
import heapq
import os
import sys
import time as _time

QUANTUM = 1e-3
_state = None


class VClock:
    def __init__(self):
        self.t = 0.0
        self.waits = []  # one entry per asyncio.wait call: {"done":[names], "pending":[names], "rw": return_when}
        self.iterations = 0
        self.max_iterations = 1_000_000  # guard against live-lock: raises instead of hanging
        self.max_seen = 0  # largest number of loop iterations any scenario needed so far (statistics)
        if os.environ.get("VERIF_VLOOP_STATS"):
            import atexit

            atexit.register(lambda: print("vloop max iterations in one scenario:", max(self.max_seen, self.iterations), file=sys.stderr))

    def now(self):
        return self.t

    def reset(self):
        self.max_seen = max(getattr(self, "max_seen", 0), self.iterations)
        self.t = 0.0
        self.waits.clear()
        self.iterations = 0


class VLoop(asyncio.SelectorEventLoop):
    def __init__(self, clock):
        super().__init__()
        self._vclock = clock

    def time(self):
        return self._vclock.t

    def _run_once(self):
        c = self._vclock
        c.iterations += 1
        if c.iterations > c.max_iterations:
            raise RuntimeError("vloop: too many loop iterations (live-lock?)")
        while self._scheduled and self._scheduled[0]._cancelled:
            h = heapq.heappop(self._scheduled)
            h._scheduled = False
            self._timer_cancelled_count -= 1
        if not self._ready and self._scheduled:
            c.t = max(c.t, self._scheduled[0]._when)
        else:
            c.t += QUANTUM
        super()._run_once()


class VPolicy(asyncio.DefaultEventLoopPolicy):
    def __init__(self, clock):
        super().__init__()
        self._vclock = clock

    def new_event_loop(self):
        return VLoop(self._vclock)


class _TimeShim:
    """replaces the module-global `time` of selected deephyper modules"""

    def __init__(self, clock):
        self._c = clock

    def time(self):
        return self._c.t

    def monotonic(self):
        return self._c.t

    def perf_counter(self):
        return self._c.t

    def sleep(self, d):  # a blocking sleep inside a sync run-function under the serial backend
        self._c.t += max(0.0, d)

    def __getattr__(self, k):
        return getattr(_time, k)


def install(patch_modules=("deephyper.evaluator._evaluator",)):
    """Installs the policy, the time shim in `patch_modules`, and the asyncio.wait spy."""
    global _state
    if _state is not None:
        return _state["clock"]
    import importlib

    clock = VClock()
    old_policy = asyncio.get_event_loop_policy()
    asyncio.set_event_loop_policy(VPolicy(clock))
    shim = _TimeShim(clock)
    saved = []
    for name in patch_modules:
        m = importlib.import_module(name)
        if hasattr(m, "time"):
            saved.append((m, m.time))
            m.time = shim
    orig_wait = asyncio.wait

    async def spy_wait(fs, **kw):
        done, pending = await orig_wait(fs, **kw)
        clock.waits.append({
            "done": sorted(t.get_name() for t in done),
            "pending": sorted(t.get_name() for t in pending),
            "rw": str(kw.get("return_when", "ALL_COMPLETED")),
        })
        return done, pending

    asyncio.wait = spy_wait
    _state = {"clock": clock, "old_policy": old_policy, "saved": saved, "orig_wait": orig_wait, "shim": shim}
    return clock


def shim():
    return _state["shim"] if _state else None


def uninstall():
    global _state
    if _state is None:
        return
    asyncio.set_event_loop_policy(_state["old_policy"])
    for m, t in _state["saved"]:
        m.time = t
    asyncio.wait = _state["orig_wait"]
    _state = None
