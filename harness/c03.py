"""C03 -- search(max_evals) budget is honoured and accumulates over repeated calls.

L2: real `Search.search` (RandomSearch, CBO/ET, RegularizedEvolution; serial backend under the
    virtual-time loop, thread backend in real time) vs. `Model/Search.lean`: the harness observes the
    environment of every loop iteration (size of the gathered batch through the public `tell`, whether
    `time_left <= 0` was read, from the same clock and the same float expression) and the Lean driver
    replays the whole sequence of calls; compared per call: number of run-function invocations, rows of
    the returned table, the `n` of every `ask(n)`, `search.stopped`.
L3: the property's inequality itself on the real counts: for every call with max_evals=n>=0 whose own
    timeout did not expire  n <= e < n + W  (e == n when strict), and len(df) == sum of all e so far.
"""
import asyncio
import json
import os
import shutil
import tempfile
import threading
import time as _time

from . import common
from .common import HarnessError

TICK = 1.0  # one virtual second per tick (serial backend); `timeout` must be an int of seconds

_state = {"count": 0, "durs": [0], "mode": "instant", "lock": threading.Lock()}


def _job_status_cancelling(job):
    from deephyper.evaluator import JobStatus

    return job.status is JobStatus.CANCELLING


async def _run_async(job):
    """serial backend: `d` virtual ticks, polls the status every tick (cooperative cancel)"""
    _state["count"] += 1
    jid = job["job_id"]
    d = _state["durs"][jid % len(_state["durs"])]
    k = 0
    while k < d:
        if _job_status_cancelling(job):
            break
        await asyncio.sleep(TICK)
        k += 1
    return float(jid)


def _run_thread(job):
    """thread backend (real time): instant, or runs until it observes CANCELLING (+0.25 s margin)"""
    with _state["lock"]:
        _state["count"] += 1
    if _state["mode"] == "until_cancel":
        t0 = _time.time()
        while not _job_status_cancelling(job) and _time.time() - t0 < 30:
            _time.sleep(0.02)
        _time.sleep(0.25)
    return float(job["job_id"])


# --------------------------------------------------------------------------- scenarios

KINDS = "PSTBQX"  # plain n | strict n | timeout only | timeout + n | timeout + strict n | invalid timeout


def call_kwargs(c):
    k = c["kind"]
    if k == "P":
        return dict(max_evals=c["n"])
    if k == "S":
        return dict(max_evals=c["n"], max_evals_strict=True)
    if k == "T":
        return dict(timeout=c["t"])
    if k == "B":
        return dict(max_evals=c["n"], timeout=c["t"])
    if k == "Q":
        return dict(max_evals=c["n"], timeout=c["t"], max_evals_strict=True)
    if k == "X":
        return dict(max_evals=c["n"], timeout=c["t"])  # t <= 0 -> ValueError
    raise HarnessError(f"bad call kind {k}")


def lean_call(c, env):
    k = c["kind"]
    return {
        "n": c["n"] if k in "PSBQX" else -1,
        "strict": k in "SQ",
        # the model's Call carries an integer: a timeout of the wrong type is the model's "rejected" class (<= 0)
        "timeout": (c["t"] if type(c["t"]) is int else -1) if k in "TBQX" else None,
        "env": env,
    }


def _make_search(cls, evaluator, log_dir, trace, clock):
    from deephyper.hpo import CBO, HpProblem, RandomSearch, RegularizedEvolution

    problem = HpProblem()
    problem.add_hyperparameter((0.0, 10.0), "x")
    problem.add_hyperparameter((0, 5), "k")
    base = {"RandomSearch": RandomSearch, "CBO": CBO, "RegularizedEvolution": RegularizedEvolution}[cls]

    class Spy(base):  # observes only the public ask/tell API
        def ask(self, n=1):
            trace.append(("ask", int(n)))
            return super().ask(n)

        def tell(self, results):
            trace.append(("tell", len(results), clock()))
            return super().tell(results)

    kw = {}
    if cls == "CBO":
        kw = dict(surrogate_model="ET", surrogate_model_kwargs={"n_estimators": 5}, n_initial_points=3)
    if cls == "RegularizedEvolution":
        kw = dict(population_size=4, sample_size=2)
    return Spy(problem, evaluator, random_state=7, log_dir=log_dir, **kw)


def run_scenario(scn):
    """Runs one sequence of search() calls on the real code; returns the observations (pure data)."""
    from deephyper.evaluator import Evaluator
    from . import vloop

    W, backend = scn["W"], scn["backend"]
    serial = backend == "serial"
    log_dir = tempfile.mkdtemp(prefix="c03_")
    trace = []
    obs = {"calls": [], "error": None}
    vt = None
    try:
        if serial:
            vt = vloop.install()
            vt.reset()
            vt.max_iterations = 150_000  # scenarios need ~1e3 loop iterations; a live-locking tree must not cost 1e6 each
            clock = vt.now
            _state["durs"] = scn.get("durs") or [0]
            ev = Evaluator.create(_run_async, method="serial", method_kwargs={"num_workers": W})
        else:
            vloop.uninstall()
            clock = _time.time
            ev = Evaluator.create(_run_thread, method="thread", method_kwargs={"num_workers": W})
        search = _make_search(scn["cls"], ev, log_dir, trace, clock)
        rows_before = 0
        for c in scn["calls"]:
            kw = call_kwargs(c)
            del trace[:]
            c0 = _state["count"]
            _state["mode"] = "until_cancel" if (not serial and c.get("expire")) else "instant"
            T0 = clock()
            rec = {"raised": None}
            try:
                df = search.search(**kw)
                rows = 0 if df is None else int(len(df))
            except ValueError as e:
                rec["raised"] = "ValueError"
                rows = rows_before
                if c["kind"] != "X":
                    rec["raised"] = f"ValueError: {e}"[:200]
            rec["evals"] = _state["count"] - c0
            rec["rows"] = rows
            rec["rows_added"] = rows - rows_before
            rows_before = rows
            rec["asks"] = [x[1] for x in trace if x[0] == "ask"]
            rec["stopped"] = bool(search.stopped)
            env = []
            for x in trace:
                if x[0] != "tell":
                    continue
                if "t" in c and c["kind"] in "TBQ":
                    if serial:
                        expired = (c["t"] - (x[2] - T0)) <= 0  # the code's own expression, same clock
                    else:
                        expired = bool(c.get("expire"))  # by construction of the thread scenario
                else:
                    expired = False
                env.append([x[1], bool(expired)])
            rec["env"] = env
            rec["own_timeout_expired"] = any(e[1] for e in env)
            obs["calls"].append(rec)
        try:
            ev.close()
        except Exception:
            pass
    except Exception as e:  # anything else the real code raises is reported by the oracle
        obs["error"] = f"{type(e).__name__}: {e}"[:300]
    finally:
        shutil.rmtree(log_dir, ignore_errors=True)
    return obs


def kinds_of(scn, obs=None, upto=None):
    out = []
    calls = scn["calls"] if upto is None else scn["calls"][:upto]
    for i, c in enumerate(calls):
        k = c["kind"]
        if obs is not None and i < len(obs["calls"]) and obs["calls"][i].get("own_timeout_expired"):
            k += "!"
        out.append(k)
    return out


# --------------------------------------------------------------------------- oracle (L3)


def oracle(scn, obs):
    """-> list of (clause, call index, detail) for the property's own statement."""
    bad = []
    if obs["error"]:
        return [("raises", len(obs["calls"]), obs["error"])]
    W = scn["W"]
    total = 0
    for i, (c, r) in enumerate(zip(scn["calls"], obs["calls"])):
        if r["raised"]:
            if c["kind"] != "X":
                bad.append(("raises", i, r["raised"]))
            elif r["evals"] != 0:
                bad.append(("invalid-timeout-evaluates", i, r))
            continue
        if c["kind"] == "X":
            bad.append(("invalid-timeout-accepted", i, r))
            continue
        e = r["evals"]
        total += e
        if r["rows"] != total:
            bad.append(("table-rows", i, {"rows": r["rows"], "sum_of_evals": total}))
        if r["rows_added"] != e:
            bad.append(("table-rows", i, {"rows_added": r["rows_added"], "evals": e}))
        k = c["kind"]
        if k in "PSBQ" and c["n"] >= 0:
            n = c["n"]
            if e >= n + W:
                bad.append(("n+W-or-more", i, {"n": n, "W": W, "evals": e}))
            if k in "SQ" and e > n:
                bad.append(("strict-more-than-n", i, {"n": n, "evals": e}))
            if not r["own_timeout_expired"]:
                if e < n:
                    bad.append(("fewer-than-n", i, {"n": n, "W": W, "evals": e}))
    return bad


def fingerprint(clause, scn, obs, i):
    return f"C03|{clause}|Search.search|history={','.join(kinds_of(scn, obs, i)) or '-'};call={scn['calls'][i]['kind']}"


def shrink(scn, clause, i, budget=80):
    """greedy: truncate after the failing call, serial/RandomSearch, drop history calls, simplify kinds,
    small n / W; keeps a candidate iff the same clause still fails at the (new) last call."""
    best = dict(scn, calls=[dict(c) for c in scn["calls"][: i + 1]])
    best_obs = None

    def fails(cand):
        nonlocal budget
        if budget <= 0:
            return None
        budget -= 1
        o = run_scenario(cand)
        last = len(cand["calls"]) - 1
        return o if any(cl == clause and j == last for cl, j, _ in oracle(cand, o)) else None

    o = fails(best)
    if o is None:
        return scn, None, i
    best_obs = o
    changed = True
    while changed and budget > 0:
        changed = False
        cands = []
        if best["backend"] != "serial" and not any(c.get("expire") for c in best["calls"]):
            cands.append(dict(best, backend="serial", durs=[0]))
        if best["cls"] != "RandomSearch":
            cands.append(dict(best, cls="RandomSearch"))
        for j in range(len(best["calls"]) - 1):
            cands.append(dict(best, calls=best["calls"][:j] + best["calls"][j + 1:]))
        # history calls: towards a plain call (drop the timeout, drop strictness) when the failure persists;
        # failing call: only drop its timeout (its strictness is part of what fails)
        simpler = {"Q": ["P", "S", "T"], "B": ["P", "T"], "S": ["P"], "T": ["P"], "X": ["P"]}
        last = len(best["calls"]) - 1
        for j, c in enumerate(best["calls"]):
            opts = simpler.get(c["kind"], []) if j < last else {"Q": ["S"], "B": ["P"]}.get(c["kind"], [])
            for k2 in opts:
                c2 = {"kind": k2}
                if k2 in "PS":
                    c2["n"] = c.get("n", 1)
                if k2 == "T":
                    c2["t"] = c["t"]
                    if "expire" in c:
                        c2["expire"] = c["expire"]
                cands.append(dict(best, calls=best["calls"][:j] + [c2] + best["calls"][j + 1:]))
        if best["W"] > 1:
            cands.append(dict(best, W=1))
        for j, c in enumerate(best["calls"]):
            if c.get("n", 0) > 3:
                cands.append(dict(best, calls=best["calls"][:j] + [dict(c, n=3)] + best["calls"][j + 1:]))
        for cand in cands:
            o = fails(cand)
            if o is not None:
                best, best_obs, changed = cand, o, True
                break
    return best, best_obs, len(best["calls"]) - 1


# --------------------------------------------------------------------------- generator


def _rand_call(rng, kinds, serial, durs_min):
    k = rng.choice(kinds)
    c = {"kind": k}
    if k in "PSBQ":
        c["n"] = rng.choice([0, 1, 1, 2, 2, 3, 5, 5])
    if k in "TBQ":
        if serial:
            c["t"] = rng.choice([1, 2, 3, 4, 6, 50])
        else:
            # real time: either certainly not expiring (instant jobs, 60 s) or certainly expiring (jobs run
            # until they observe CANCELLING, 1 s)
            c["expire"] = k == "T" or rng.random() < 0.5
            c["t"] = 1 if c["expire"] else 60
    if k == "X":
        c["n"] = 1
        c["t"] = rng.choice([0, -1, 1.5, True])  # both branches of _check_timeout: not an int / not positive
    return c


def gen_scenarios(ck):
    rng = ck.rng
    out = []
    # (a) systematic short histories for every W (serial, RandomSearch): all ordered pairs / triples of kinds
    Ws = [1, 3, 4]
    ns = [1, 2, 5]
    base = "PSTB"
    for W in Ws:
        for a in base:
            for b in base:
                seqs = [[a, b]]
                if ck.thorough or (a in "ST" and b in "PS"):
                    seqs += [[a, b, x] for x in base]
                for seq in seqs:
                    calls = []
                    for k in seq:
                        c = {"kind": k}
                        if k in "PSB":
                            c["n"] = rng.choice(ns)
                        if k in "TB":
                            c["t"] = rng.choice([1, 2, 3])
                        calls.append(c)
                    out.append({"cls": "RandomSearch", "backend": "serial", "W": W, "calls": calls,
                                "durs": [rng.randint(1, 3) for _ in range(7)], "src": "systematic"})
    # (b) the repeated-strict family
    for W in Ws:
        for n in ns:
            out.append({"cls": "RandomSearch", "backend": "serial", "W": W, "durs": [0],
                        "calls": [{"kind": "S", "n": n}] * 4, "src": "strict4"})
    # (c) random sequences of length <= 4 over the whole alphabet
    for _ in range(ck.pick(140, 2500)):
        W = rng.choice([1, 2, 3, 4])
        L = rng.choice([1, 2, 3, 3, 4, 4])
        kinds = rng.choice(["PSTBQX", "PSTB", "PS", "STP", "TBP", "SQ"])
        calls = [_rand_call(rng, kinds, True, 1) for _ in range(L)]
        has_T = any(c["kind"] == "T" for c in calls)
        if has_T or rng.random() < 0.6:
            durs = [rng.choice([1, 1, 2, 3]) for _ in range(rng.randint(1, 9))]
        else:
            durs = [rng.choice([0, 0, 1, 2]) for _ in range(rng.randint(1, 9))]
            if has_T and not all(durs):
                durs = [max(1, d) for d in durs]
        out.append({"cls": "RandomSearch", "backend": "serial", "W": W, "calls": calls, "durs": durs, "src": "random"})
    # (d) other search classes (serial)
    for _ in range(ck.pick(8, 80)):
        W = rng.choice([1, 3, 4])
        calls = [_rand_call(rng, "PSTB", True, 1) for _ in range(rng.choice([2, 3, 4]))]
        for c in calls:
            if "n" in c:
                c["n"] = min(c["n"], 3)
            if "t" in c:
                c["t"] = min(c["t"], 3)
        out.append({"cls": rng.choice(["CBO", "RegularizedEvolution"]), "backend": "serial", "W": W, "calls": calls,
                    "durs": [rng.choice([1, 2]) for _ in range(5)], "src": "classes"})
    # (e) thread backend, real time
    fam = [["S", "S", "S"], ["S", "P"], ["T", "P"], ["T", "S"], ["P", "B", "P"], ["T", "T"], ["B", "S", "P"]]
    nthread = ck.pick(7, 60)
    for t in range(nthread):
        W = rng.choice([1, 3, 4])
        seq = fam[t] if t < len(fam) else [rng.choice("PSTB") for _ in range(rng.choice([2, 3, 4]))]
        calls = []
        nexp = 0
        for k in seq:
            c = _rand_call(rng, k, False, 0)
            if c.get("expire"):
                nexp += 1
                if nexp > 2:  # keep the real-time cost bounded
                    c["expire"], c["t"] = False, 60
                    if k == "T":
                        c = {"kind": "P", "n": 1}
            calls.append(c)
        out.append({"cls": "RandomSearch" if t % 5 else "CBO", "backend": "thread", "W": W, "calls": calls, "src": "thread"})
    return out


# --------------------------------------------------------------------------- driving


def _run_chunk(scns):
    common.use_repo_sources()
    return [run_scenario(s) for s in scns]


def _observe_all(ck, scns):
    serial = [s for s in scns if s["backend"] == "serial"]
    thread = [s for s in scns if s["backend"] != "serial"]
    res = {}
    if ck.thorough and len(scns) > 200:
        import concurrent.futures as cf

        chunks = [serial[i::16] for i in range(16)] + [thread[i::8] for i in range(8)]
        chunks = [c for c in chunks if c]
        with cf.ProcessPoolExecutor(max_workers=16) as ex:
            for ch, obs in zip(chunks, ex.map(_run_chunk, chunks)):
                for s, o in zip(ch, obs):
                    res[id(s)] = o
    else:
        for s in serial + thread:  # serial first (virtual loop installed), then real time
            res[id(s)] = run_scenario(s)
    from . import vloop

    vloop.uninstall()
    return [res[id(s)] for s in scns]


def _check(ck, scns, obss, drv, do_shrink=True):
    reqs = []
    for scn, obs in zip(scns, obss):
        calls = []
        for c, r in zip(scn["calls"], obs["calls"]):
            calls.append(lean_call(c, r["env"]))
        reqs.append({"op": "calls", "W": scn["W"], "calls": calls})
    reps = drv.ask_all(reqs)
    for scn, obs, rep in zip(scns, obss, reps):
        case = {k: scn[k] for k in ("cls", "backend", "W", "calls") if k in scn}
        if scn.get("durs") is not None:
            case["durs"] = scn["durs"]
        ks = kinds_of(scn, obs)
        ck.case(case, nontrivial=len(scn["calls"]) >= 2)
        ck.count("src:" + scn.get("src", "?"))
        ck.count("backend:" + scn["backend"])
        ck.count("cls:" + scn["cls"])
        ck.count(f"W={scn['W']}")
        ck.count(f"len={len(scn['calls'])}")
        for k in ks:
            ck.count("call:" + k)
        for a, b in zip(ks, ks[1:]):
            ck.count(f"pair:{a}>{b}")
        # ---- L3
        fails = oracle(scn, obs)
        for clause, i, detail in fails[:1]:
            s2, o2, i2 = (scn, obs, i)
            if do_shrink and clause != "raises":
                s2, o2, i2 = shrink(scn, clause, i)
                if o2 is None:
                    s2, o2, i2 = scn, obs, i
            i2 = min(i2, len(s2["calls"]) - 1)
            c2 = {k: s2[k] for k in ("cls", "backend", "W", "calls", "durs") if k in s2}
            ck.fail(fingerprint(clause, s2, o2, i2),
                    f"search() call #{i2} ({call_kwargs(s2['calls'][i2])}) after history {kinds_of(s2, o2, i2)}: {clause}",
                    c2, {"observed": o2, "first_detail": detail, "unshrunk": case})
        # ---- L2
        if obs["error"]:
            continue
        for i, (c, r, m) in enumerate(zip(scn["calls"], obs["calls"], rep["outs"])):
            ck.count("model_stop:" + m["stop"])
            ck.count(f"iters={min(len(r['env']), 6)}")
            if any(g > 1 for g, _ in r["env"]):
                ck.count("gather>1")
            want_rows = r["rows"] if r["rows"] else None
            diff = {}
            if r["raised"]:
                if m["stop"] != "badTimeout":
                    diff["raised"] = (r["raised"], m["stop"])
            else:
                if m["stop"] not in ("budget", "cap", "timeout"):
                    diff["stop"] = m["stop"]
                if m["evals"] != r["evals"]:
                    diff["evals"] = (r["evals"], m["evals"])
                if m["table"] != want_rows:
                    diff["table"] = (want_rows, m["table"])
                if m["asks"] != r["asks"]:
                    diff["asks"] = (r["asks"], m["asks"])
                if (m["stop"] in ("cap", "timeout")) != r["stopped"]:
                    diff["stopped"] = (r["stopped"], m["stop"])
            if diff:
                ck.mismatch(case, {"call": i, "kinds": ks, "impl_vs_model": diff, "observed": r, "model": m})
                break


def _corpus():
    d = common.VERIF / "corpus" / "C03"
    out = []
    if d.is_dir():
        for f in sorted(d.glob("*.json")):
            data = json.loads(f.read_text())
            scn = dict(data["case"])
            scn["src"] = "corpus"
            out.append(scn)
    return out


def run(ck):
    ck.rule = ("sequences of <= 4 search() calls over {plain n, strict n, timeout t, timeout+n, timeout+strict n, invalid "
               "timeout} x n in {0,1,2,3,5} x W in {1,2,3,4} x {serial (virtual clock, job durations 0-3 ticks), thread "
               "(real time)} x {RandomSearch, CBO/ET, RegularizedEvolution}: all ordered pairs (+triples) of kinds "
               "systematically, repeated-strict family, random sequences; distinct by canonical scenario; non-trivial = "
               "at least 2 calls")
    ck.assumptions = [
        "asyncio.wait(FIRST_COMPLETED) reports between 1 and W finished tasks (observed per iteration through the public tell(); a value outside the contract makes the model answer badEnv)",
        "the clock reading of time_left after each gather is an input of the model (observed with the code's own float expression on the virtual clock; thread backend: by construction of the scenario -- timeouts that certainly expire (jobs wait for CANCELLING + 0.25 s) or certainly do not (60 s, instant jobs))",
        "dump_jobs_done_to_csv writes every gathered job (its internals are C04's model); the table is compared by its number of rows",
    ]
    ck.trusted_extra = ["harness/vloop.py (virtual-time event loop, patched time of deephyper.evaluator._evaluator)"]
    scns = _corpus() + gen_scenarios(ck)
    obss = _observe_all(ck, scns)
    with ck.driver() as drv:
        _check(ck, scns, obss, drv)


def replay(ck, case):
    scn = dict(case)
    scn.setdefault("src", "replay")
    obs = run_scenario(scn)
    from . import vloop

    vloop.uninstall()
    print("replay:", json.dumps({"kinds": kinds_of(scn, obs), "observed": obs["calls"], "error": obs["error"]}))
    with ck.driver() as drv:
        _check(ck, [scn], [obs], drv, do_shrink=False)


def search(ck):
    """deeper failing-input search (L3 only) when L1/L2 broke and run() found nothing"""
    rng = ck.rng
    scns = []
    for _ in range(ck.pick(400, 3000)):
        W = rng.choice([1, 2, 3, 4, 5])
        calls = [_rand_call(rng, "PSTBQ", True, 1) for _ in range(rng.choice([2, 3, 4, 5]))]
        scns.append({"cls": "RandomSearch", "backend": "serial", "W": W, "calls": calls,
                     "durs": [rng.choice([1, 2, 3]) for _ in range(rng.randint(1, 9))], "src": "search"})
    obss = _observe_all(ck, scns)
    for scn, obs in zip(scns, obss):
        for clause, i, detail in oracle(scn, obs)[:1]:
            s2, o2, i2 = shrink(scn, clause, i)
            if o2 is None:
                s2, o2, i2 = scn, obs, i
            c2 = {k: s2[k] for k in ("cls", "backend", "W", "calls", "durs") if k in s2}
            ck.fail(fingerprint(clause, s2, o2, i2), f"search() call #{i2}: {clause}", c2, {"observed": o2, "detail": detail})
