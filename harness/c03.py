"""C03 -- search(max_evals) budget is honoured and accumulates over repeated calls.

L2: real `Search.search` (RandomSearch, CBO/ET, RegularizedEvolution; serial backend under the
    virtual-time loop, thread backend in real time) vs. `Model/Search.lean`: the harness observes the
    environment of every loop iteration (size of the gathered batch through the public `tell`, whether
    `time_left <= 0` was read, from the same clock and the same float expression) and the Lean driver
    replays the whole sequence of calls; compared per call: number of run-function invocations, rows of
    the returned table, the `n` of every `ask(n)`, `search.stopped`.
L3: the property's inequality itself on the real counts: for every call with max_evals=n>=0 whose own
    timeout did not expire  n <= e < n + W  (e == n when strict), and len(df) == sum of all e so far.

A scenario is a history of search() calls on ONE OR SEVERAL search objects and a process environment:
    {"W", "backend", "durs", "cls",                  # cls: class of the (single) search object of a legacy scenario
     "objs": [{"cls", "ev", "log_dir"}, ...],        # optional: search objects; "ev" = index of the evaluator object
                                                     #   they are constructed on (shared when equal); "log_dir" =
                                                     #   "abs:<dir>" | "rel:<path>" ("rel:." = ".") | "default" (not passed)
     "calls": [{"kind", "n", "t", "o", "cd_after", "cd_in"}, ...]}
"o" = index of the search object the call is made on; an object is constructed right before its first
call, or - with "at": i in its entry - right before the i-th call of the history (0 = up-front; an object
may also be constructed and never called), in the working directory of that moment; "cd_after": the process changes its working directory to
that directory after the call returned; "cd_in": [k, dir] = the k-th run-function invocation of this call
changes the working directory.  All directories live under one temporary root, the process starts every
scenario in <root>/w0 and the working directory is restored afterwards.  A search object is judged on the
table of ITS calls (the property speaks of "earlier calls on the same search object").  Discipline: a log
directory holds the results of one search at a time (the constructor renames the results file it finds
there) -- a search object is over as soon as another one is constructed or called in its directory; calls
on an object that is over are neither generated nor judged.  Search objects with different directories
use an evaluator object in any order: one after the other, all constructed up-front, or in turns.
"""
import asyncio
import json
import os
import shutil
import tempfile
import threading
import time as _time

from . import common
from .common import HarnessError

TICK = 1.0  # one virtual second per tick (serial backend); `timeout` must be an int of seconds

_state = {"count": 0, "durs": [0], "mode": "instant", "lock": threading.Lock(), "ids": [], "in_call": 0, "cd_in": None}


def _job_status_cancelling(job):
    from deephyper.evaluator import JobStatus

    return job.status is JobStatus.CANCELLING


def _invoked(jid):
    """bookkeeping of one run-function invocation (caller holds the lock on the thread backend); the
    process environment of the scenario: the k-th invocation of the current call may change the cwd"""
    _state["count"] += 1
    _state["ids"].append(int(jid))
    _state["in_call"] += 1
    cd = _state["cd_in"]
    if cd is not None and _state["in_call"] == cd[0]:
        os.chdir(cd[1])


async def _run_async(job):
    """serial backend: `d` virtual ticks, polls the status every tick (cooperative cancel)"""
    jid = job["job_id"]
    _invoked(jid)
    d = _state["durs"][jid % len(_state["durs"])]
    k = 0
    while k < d:
        if _job_status_cancelling(job):
            break
        await asyncio.sleep(TICK)
        k += 1
    return float(jid)


def _run_thread(job):
    """thread backend (real time): instant, or runs until it observes CANCELLING (+0.25 s margin)"""
    with _state["lock"]:
        _invoked(job["job_id"])
    if _state["mode"] == "until_cancel":
        t0 = _time.time()
        while not _job_status_cancelling(job) and _time.time() - t0 < 30:
            _time.sleep(0.02)
        _time.sleep(0.25)
    return float(job["job_id"])


# --------------------------------------------------------------------------- scenarios

KINDS = "PSTBQX"  # plain n | strict n | timeout only | timeout + n | timeout + strict n | invalid timeout


def call_kwargs(c):
    k = c["kind"]
    if k == "P":
        return dict(max_evals=c["n"])
    if k == "S":
        return dict(max_evals=c["n"], max_evals_strict=True)
    if k == "T":
        return dict(timeout=c["t"])
    if k == "B":
        return dict(max_evals=c["n"], timeout=c["t"])
    if k == "Q":
        return dict(max_evals=c["n"], timeout=c["t"], max_evals_strict=True)
    if k == "X":
        return dict(max_evals=c["n"], timeout=c["t"])  # t <= 0 -> ValueError
    raise HarnessError(f"bad call kind {k}")


def lean_call(c, env):
    k = c["kind"]
    return {
        "n": c["n"] if k in "PSBQX" else -1,
        "strict": k in "SQ",
        # the model's Call carries an integer: a timeout of the wrong type is the model's "rejected" class (<= 0)
        "timeout": (c["t"] if type(c["t"]) is int else -1) if k in "TBQX" else None,
        "env": env,
    }


HPS = ("x", "k")  # names of the hyperparameters of the problem


def _make_search(cls, evaluator, log_dir, trace, clock):
    """`log_dir` None = the argument is not passed (the default ".")"""
    from deephyper.hpo import CBO, HpProblem, RandomSearch, RegularizedEvolution

    problem = HpProblem()
    problem.add_hyperparameter((0.0, 10.0), "x")
    problem.add_hyperparameter((0, 5), "k")
    base = {"RandomSearch": RandomSearch, "CBO": CBO, "RegularizedEvolution": RegularizedEvolution}[cls]

    class Spy(base):  # observes only the public ask/tell API
        def ask(self, n=1):
            trace.append(("ask", int(n)))
            return super().ask(n)

        def tell(self, results):
            trace.append(("tell", len(results), clock()))
            return super().tell(results)

    kw = {}
    if cls == "CBO":
        kw = dict(surrogate_model="ET", surrogate_model_kwargs={"n_estimators": 5}, n_initial_points=3)
    if cls == "RegularizedEvolution":
        kw = dict(population_size=4, sample_size=2)
    if log_dir is not None:
        kw["log_dir"] = log_dir
    return Spy(problem, evaluator, random_state=7, **kw)


def objs_of(scn):
    """the search objects of a scenario (a legacy scenario has one, in an absolute log directory)"""
    return scn.get("objs") or [{"cls": scn["cls"], "ev": 0, "log_dir": "abs:L0"}]


WORK_DIRS = ("w0", "w1", "w2", "w3")  # directories the process may be in (all under the scenario's root)


def _parts(path):
    return [x for x in path.replace("\\", "/").split("/") if x not in ("", ".")]


def _cwd_parts(root):
    """the working directory as components under the scenario's root"""
    here = os.path.realpath(os.getcwd())
    if here == root:
        return []
    if here.startswith(root + os.sep):
        return _parts(here[len(root) + 1:])
    return ["<outside>"] + _parts(here)


def _table_facts(df):
    """(column problem or None, sorted job ids of the table or None) of a returned DataFrame"""
    cols = [str(c) for c in df.columns]
    need = [f"p:{h}" for h in HPS] + ["objective", "job_id", "job_status"]
    bad = None
    if any(c not in cols for c in need) or any(not c.startswith("m:") for c in cols if c not in need) \
            or len(set(cols)) != len(cols):
        bad = cols[:12]
    ids = None
    if "job_id" in cols:
        try:
            ids = sorted(int(v) for v in df["job_id"].tolist())
        except Exception:
            ids = [str(v) for v in df["job_id"].tolist()][:20]
            bad = bad or cols[:12]
    return bad, ids


def run_scenario(scn):
    """Runs one history of search() calls on the real code; returns the observations (pure data)."""
    from deephyper.evaluator import Evaluator
    from . import vloop

    W, backend = scn["W"], scn["backend"]
    serial = backend == "serial"
    specs = objs_of(scn)
    origin = os.getcwd()
    root = os.path.realpath(tempfile.mkdtemp(prefix="c03_"))
    for d in WORK_DIRS:
        os.makedirs(os.path.join(root, d))
    trace = []
    obs = {"calls": [], "error": None, "objs": {}}
    vt = None
    evs, searches, rows_before = {}, {}, {}
    try:
        os.chdir(os.path.join(root, scn.get("cwd0", "w0")))
        if serial:
            vt = vloop.install()
            vt.reset()
            vt.max_iterations = 150_000  # scenarios need ~1e3 loop iterations; a live-locking tree must not cost 1e6 each
            clock = vt.now
            _state["durs"] = scn.get("durs") or [0]
        else:
            vloop.uninstall()
            clock = _time.time
        def construct(o, i):
            # the object is constructed now, in the working directory of now
            spec = specs[o]
            here = _cwd_parts(root)
            ld = spec.get("log_dir", "abs:L0")
            if ld == "default":
                arg, where = None, here
            elif ld.startswith("rel:"):
                arg, where = ld[4:], here + _parts(ld[4:])
            else:
                arg, where = os.path.join(root, ld[4:]), _parts(ld[4:])
            obs["objs"][str(o)] = {"cwd": here, "dir": where, "before_call": i}
            if spec["ev"] not in evs:
                if serial:
                    evs[spec["ev"]] = Evaluator.create(_run_async, method="serial", method_kwargs={"num_workers": W})
                else:
                    evs[spec["ev"]] = Evaluator.create(_run_thread, method="thread", method_kwargs={"num_workers": W})
            searches[o] = _make_search(spec["cls"], evs[spec["ev"]], arg, trace, clock)
            rows_before[o] = 0

        for i, c in enumerate(scn["calls"]):
            for j, sp in enumerate(specs):
                if sp.get("at") == i and j not in searches:
                    construct(j, i)
            o = c.get("o", 0)
            cwd_before = _cwd_parts(root)
            if o not in searches:
                construct(o, i)
            search = searches[o]
            kw = call_kwargs(c)
            del trace[:]
            c0, i0 = _state["count"], len(_state["ids"])
            _state["mode"] = "until_cancel" if (not serial and c.get("expire")) else "instant"
            _state["in_call"] = 0
            cd = c.get("cd_in")
            _state["cd_in"] = (int(cd[0]), os.path.join(root, cd[1])) if cd else None
            T0 = clock()
            rec = {"raised": None, "obj": o, "cwd_before": cwd_before}
            try:
                df = search.search(**kw)
                rows = 0 if df is None else int(len(df))
                if df is not None:
                    rec["cols_bad"], rec["table_ids"] = _table_facts(df)
            except ValueError as e:
                rec["raised"] = "ValueError"
                rows = rows_before[o]
                if c["kind"] != "X":
                    rec["raised"] = f"ValueError: {e}"[:200]
            finally:
                _state["cd_in"] = None
            rec["cwd_after"] = _cwd_parts(root)
            rec["evals"] = _state["count"] - c0
            rec["eval_ids"] = sorted(_state["ids"][i0:])
            rec["rows"] = rows
            rec["rows_added"] = rows - rows_before[o]
            rows_before[o] = rows
            rec["asks"] = [x[1] for x in trace if x[0] == "ask"]
            rec["stopped"] = bool(search.stopped)
            env = []
            for x in trace:
                if x[0] != "tell":
                    continue
                if "t" in c and c["kind"] in "TBQ":
                    if serial:
                        expired = (c["t"] - (x[2] - T0)) <= 0  # the code's own expression, same clock
                    else:
                        expired = bool(c.get("expire"))  # by construction of the thread scenario
                else:
                    expired = False
                env.append([x[1], bool(expired)])
            rec["env"] = env
            rec["own_timeout_expired"] = any(e[1] for e in env)
            obs["calls"].append(rec)
            if c.get("cd_after"):
                os.chdir(os.path.join(root, c["cd_after"]))
    except Exception as e:  # anything else the real code raises is reported by the oracle
        obs["error"] = f"{type(e).__name__}: {e}"[:300].replace(root, "<root>")
    finally:
        _state["cd_in"] = None
        try:
            os.chdir(origin)
        except Exception:
            pass
        for ev in evs.values():
            try:
                ev.close()
            except Exception:
                pass
        del _state["ids"][:]
        shutil.rmtree(root, ignore_errors=True)
    return obs


def kinds_of(scn, obs=None, upto=None):
    out = []
    calls = scn["calls"] if upto is None else scn["calls"][:upto]
    for i, c in enumerate(calls):
        k = c["kind"]
        if obs is not None and i < len(obs["calls"]) and obs["calls"][i].get("own_timeout_expired"):
            k += "!"
        out.append(k)
    return out


# --------------------------------------------------------------------------- oracle (L3)


def oracle(scn, obs):
    """-> list of (clause, call index, detail) for the property's own statement; every search object is
    judged on its own calls ("on top of whatever earlier calls on the same search object performed")"""
    bad = []
    if obs["error"]:
        return [("raises", len(obs["calls"]), obs["error"])]
    W = scn["W"]
    total, own_ids = {}, {}
    for i, (c, r) in enumerate(zip(scn["calls"], obs["calls"])):
        o = c.get("o", 0)
        if r["raised"]:
            if c["kind"] != "X":
                bad.append(("raises", i, r["raised"]))
            elif r["evals"] != 0:
                bad.append(("invalid-timeout-evaluates", i, r))
            continue
        if c["kind"] == "X":
            bad.append(("invalid-timeout-accepted", i, r))
            continue
        e = r["evals"]
        total[o] = total.get(o, 0) + e
        own_ids[o] = sorted(own_ids.get(o, []) + list(r.get("eval_ids") or []))
        if r["rows"] != total[o]:
            bad.append(("table-rows", i, {"rows": r["rows"], "sum_of_evals": total[o]}))
        if r["rows_added"] != e:
            bad.append(("table-rows", i, {"rows_added": r["rows_added"], "evals": e}))
        if r.get("cols_bad"):
            # "a table holding the evaluations": its columns are the declared ones (p:<hyperparameter>, objective,
            # job_id, job_status, m:<metadata>), not data values of a row read as header
            bad.append(("table-columns", i, {"columns": r["cols_bad"]}))
        elif r.get("table_ids") is not None and "eval_ids" in r and r["table_ids"] != own_ids[o]:
            bad.append(("table-evaluations", i, {"job_ids_in_table": r["table_ids"][:40], "job_ids_evaluated": own_ids[o][:40]}))
        k = c["kind"]
        if k in "PSBQ" and c["n"] >= 0:
            n = c["n"]
            if e >= n + W:
                bad.append(("n+W-or-more", i, {"n": n, "W": W, "evals": e}))
            if k in "SQ" and e > n:
                bad.append(("strict-more-than-n", i, {"n": n, "evals": e}))
            if not r["own_timeout_expired"]:
                if e < n:
                    bad.append(("fewer-than-n", i, {"n": n, "W": W, "evals": e}))
    return bad


def _obj_dir(scn, obs, o):
    """resolved log directory of object `o` (observed when it was constructed; None if it never was)"""
    rec = (obs or {}).get("objs", {}).get(str(o))
    return None if rec is None else tuple(rec["dir"])


def _constructed_before(scn, obs, i):
    """objects constructed before or for call `i`, in the order of construction (observed; the objects
    called, if the run stopped before)"""
    recs = (obs or {}).get("objs") or {}
    got = sorted((r["before_call"], int(o)) for o, r in recs.items() if r["before_call"] <= i)
    out = [o for _, o in got]
    for c in scn["calls"][: i + 1]:
        if c.get("o", 0) not in out:
            out.append(c.get("o", 0))
    return out


def options_of(scn, obs, i):
    """the non-default dimensions the (shrunk) failing history uses, for the fingerprint: other search objects
    and what they share with the object of the failing call, objects constructed before they are needed, how
    the log directory was given, changes of the working directory"""
    calls = scn["calls"][: i + 1]
    specs = objs_of(scn)
    out = []
    f = calls[-1].get("o", 0)
    others = [o for o in _constructed_before(scn, obs, i) if o != f]
    if others:
        rel = set()
        for o in others:
            same_ev = specs[o]["ev"] == specs[f]["ev"]
            da, db = _obj_dir(scn, obs, o), _obj_dir(scn, obs, f)
            same_dir = da is not None and da == db
            rel.add("+".join(x for x, y in (("evaluator", same_ev), ("log_dir", same_dir)) if y) or "nothing")
        out.append("other-search-shares=" + "/".join(sorted(rel)))
        first_call = {}
        for j, c in enumerate(calls):
            first_call.setdefault(c.get("o", 0), j)
        recs = (obs or {}).get("objs") or {}
        if any(recs.get(str(o), {}).get("before_call", first_call.get(o, 0)) < first_call.get(o, len(calls)) for o in others + [f]):
            out.append("constructed=before-use")
    ld = specs[f].get("log_dir", "abs:L0")
    if not ld.startswith("abs:"):
        out.append("log_dir=" + ("default" if ld == "default" else "relative"))
    cds = set()
    if any(c.get("cd_after") for c in calls[:-1]):  # (after the failing call: no effect on it)
        cds.add("between-calls")
    if any(c.get("cd_in") for c in calls):
        cds.add("in-run-function")
    if cds:
        out.append("chdir=" + "+".join(sorted(cds)))
    return out


def fingerprint(clause, scn, obs, i):
    ks = kinds_of(scn, obs)
    objs = []
    for c in scn["calls"][: i + 1]:
        if c.get("o", 0) not in objs:
            objs.append(c.get("o", 0))
    several = len(_constructed_before(scn, obs, i)) > 1
    lab = {o: "abcdefgh"[k % 8] + ":" for k, o in enumerate(objs)} if several else {}
    tok = [lab.get(c.get("o", 0), "") + k for c, k in zip(scn["calls"], ks)]
    opts = options_of(scn, obs, i)
    if several and clause.startswith("table-"):
        # what the table of a search object holds when other search objects exist: one class per way of sharing /
        # construction order (which object the failing call is on and the kinds of the calls are in `what`)
        return f"C03|{clause}|Search.search|several-search-objects" + "".join(";" + x for x in opts)
    fp = f"C03|{clause}|Search.search|history={','.join(tok[:i]) or '-'};call={lab.get(scn['calls'][i].get('o', 0), '')}{scn['calls'][i]['kind']}"
    return fp + "".join(";" + x for x in opts)


def history_text(scn, obs, i):
    """the calls of the (shrunk) history with their search objects, for the `what` of a report"""
    ks = kinds_of(scn, obs)
    return ",".join(f"{'abcdefgh'[c.get('o', 0) % 8]}:{k}" for c, k in zip(scn["calls"][: i + 1], ks))


def _case_of(scn):
    return {k: scn[k] for k in ("cls", "backend", "W", "calls", "durs", "objs", "cwd0") if scn.get(k) is not None}


def shrink(scn, clause, i, budget=80):
    """greedy: truncate after the failing call, no environment (absolute log directories, no chdir), one search
    object / nothing shared, serial/RandomSearch, drop history calls, simplify kinds, small n / W; keeps a
    candidate iff the same clause still fails at the (new) last call."""
    best = dict(scn, calls=[dict(c) for c in scn["calls"][: i + 1]])
    best_obs = None

    def fails(cand):
        nonlocal budget
        if budget <= 0:
            return None
        budget -= 1
        o = run_scenario(cand)
        last = len(cand["calls"]) - 1
        return o if any(cl == clause and j == last for cl, j, _ in oracle(cand, o)) else None

    def strip(c, *keys):
        return {k: v for k, v in c.items() if k not in keys}

    o = fails(best)
    if o is None:
        return scn, None, i
    best_obs = o
    changed = True
    while changed and budget > 0:
        changed = False
        cands = []
        calls = best["calls"]
        last = len(calls) - 1
        # ---- an earlier call of the current candidate fails the same way: cut there
        first = min([j for cl, j, _ in oracle(best, best_obs) if cl == clause] or [last])
        if first < last:
            cands.append(dict(best, calls=calls[: first + 1]))
        # ---- the process environment
        if any(c.get("cd_after") or c.get("cd_in") for c in calls):
            cands.append(dict(best, calls=[strip(c, "cd_after", "cd_in") for c in calls]))
            if any(c.get("cd_in") for c in calls):
                cands.append(dict(best, calls=[strip(c, "cd_in") for c in calls]))
            if any(c.get("cd_after") for c in calls):
                cands.append(dict(best, calls=[strip(c, "cd_after") for c in calls]))
            for j, c in enumerate(calls):  # one change of directory at a time
                for key in ("cd_after", "cd_in"):
                    if c.get(key) and sum(1 for x in calls for k2 in ("cd_after", "cd_in") if x.get(k2)) > 1:
                        cands.append(dict(best, calls=calls[:j] + [strip(c, key)] + calls[j + 1:]))
        if best.get("objs") and any(not ob.get("log_dir", "abs:L0").startswith("abs:") for ob in best["objs"]):
            # same directories, given as absolute paths (objects never constructed keep their spec)
            objs2 = []
            for j, ob in enumerate(best["objs"]):
                d = _obj_dir(best, best_obs, j)
                objs2.append(dict(ob, log_dir="abs:" + "/".join(d)) if d is not None and "<outside>" not in d else dict(ob))
            cands.append(dict(best, objs=objs2))
        # ---- several search objects
        if best.get("objs"):
            f = calls[last].get("o", 0)
            used = sorted({c.get("o", 0) for c in calls})
            for j, ob in enumerate(best["objs"]):  # constructed when needed (or not at all) instead of earlier
                if ob.get("at") is not None and ob["at"] <= last:
                    cands.append(dict(best, objs=[{k: v for k, v in x.items() if k != "at"} if j2 == j else x
                                                  for j2, x in enumerate(best["objs"])]))
            for o2 in range(len(best["objs"])):  # an object that is only constructed: nothing shared
                ob = best["objs"][o2]
                if o2 in used or ob.get("at") is None or ob["at"] > last:
                    continue
                if ob["ev"] == best["objs"][f]["ev"]:
                    ev2 = 1 + max(x["ev"] for x in best["objs"])
                    cands.append(dict(best, objs=[dict(x, ev=ev2) if j == o2 else x for j, x in enumerate(best["objs"])]))
            if len(used) > 1:
                cands.append(dict(best, calls=[dict(c, o=f) for c in calls]))  # all the calls on one object
                for o2 in used:
                    if o2 == f:
                        continue
                    ob = best["objs"][o2]
                    if ob["ev"] == best["objs"][f]["ev"]:
                        ev2 = 1 + max(x["ev"] for x in best["objs"])
                        cands.append(dict(best, objs=[dict(x, ev=ev2) if j == o2 else x for j, x in enumerate(best["objs"])]))
                    if _obj_dir(best, best_obs, o2) == _obj_dir(best, best_obs, f):
                        cands.append(dict(best, objs=[dict(x, log_dir=f"abs:U{o2}") if j == o2 else x for j, x in enumerate(best["objs"])]))
            if any(ob["cls"] != "RandomSearch" for ob in best["objs"]):
                cands.append(dict(best, objs=[dict(ob, cls="RandomSearch") for ob in best["objs"]]))
            if len(used) == 1 and not any(c.get("cd_after") or c.get("cd_in") for c in calls) \
                    and not any(x.get("at") is not None and x["at"] <= last for x in best["objs"]) \
                    and best["objs"][f].get("log_dir", "abs:L0").startswith("abs:"):
                # nothing of the new dimensions is left: back to the plain form
                cands.append(dict({k: v for k, v in best.items() if k != "objs"}, cls=best["objs"][f]["cls"],
                                  calls=[strip(c, "o") for c in calls]))
        if best["backend"] != "serial" and not any(c.get("expire") for c in best["calls"]):
            cands.append(dict(best, backend="serial", durs=[0]))
        if not best.get("objs") and best["cls"] != "RandomSearch":
            cands.append(dict(best, cls="RandomSearch"))
        for j in range(len(best["calls"]) - 1):
            cand = dict(best, calls=best["calls"][:j] + best["calls"][j + 1:])
            if best.get("objs"):  # "constructed before call number at": the calls after j move up
                cand["objs"] = [dict(x, at=x["at"] - 1) if x.get("at") is not None and x["at"] > j else x for x in best["objs"]]
            cands.append(cand)
            oj = best["calls"][j].get("o", 0)
            if best.get("objs") and best["objs"][oj].get("at") is None and not any(c.get("o", 0) == oj for c in best["calls"][:j]):
                # the call constructed its object: drop the call, keep the construction at this point
                cands.append(dict(cand, objs=[dict(x, at=j) if k == oj else x for k, x in enumerate(cand["objs"])]))
        # history calls: towards a plain call (drop the timeout, drop strictness) when the failure persists;
        # failing call: only drop its timeout (its strictness is part of what fails)
        simpler = {"Q": ["P", "S", "T"], "B": ["P", "T"], "S": ["P"], "T": ["P"], "X": ["P"]}
        table_clause = clause.startswith("table-")  # what the table holds: the kind of the failing call is not part of it
        for j, c in enumerate(best["calls"]):
            opts = simpler.get(c["kind"], []) if j < last or table_clause else {"Q": ["S"], "B": ["P"]}.get(c["kind"], [])
            for k2 in opts:
                c2 = {"kind": k2}
                for extra in ("o", "cd_after", "cd_in"):
                    if extra in c:
                        c2[extra] = c[extra]
                if k2 in "PS":
                    c2["n"] = c.get("n", 1)
                if k2 == "T":
                    c2["t"] = c["t"]
                    if "expire" in c:
                        c2["expire"] = c["expire"]
                cands.append(dict(best, calls=best["calls"][:j] + [c2] + best["calls"][j + 1:]))
        if best["W"] > 1:
            cands.append(dict(best, W=1))
        for j, c in enumerate(best["calls"]):
            if c.get("n", 0) > 3:
                cands.append(dict(best, calls=best["calls"][:j] + [dict(c, n=3)] + best["calls"][j + 1:]))
        for cand in cands:
            if cand == best:  # (a transformation that changes nothing must not be "accepted" again and again)
                continue
            o = fails(cand)
            if o is not None:
                best, best_obs, changed = cand, o, True
                break
    t = _tidy(best)
    if t != best:
        o = run_scenario(t)
        if any(cl == clause and j == len(t["calls"]) - 1 for cl, j, _ in oracle(t, o)):
            best, best_obs = t, o
    return best, best_obs, len(best["calls"]) - 1


def _tidy(scn):
    """drops what has no effect on the judged calls: a change of directory after the last call, search objects
    no call is made on (they are never constructed); object indices are renumbered -- `obs["objs"]` of the run
    before keeps the old numbers, so the caller re-observes when it needs them"""
    calls = [dict(c) for c in scn["calls"]]
    if calls and "cd_after" in calls[-1]:
        del calls[-1]["cd_after"]
    out = dict(scn, calls=calls)
    if scn.get("objs"):
        used = []
        for i, c in enumerate(calls):
            for j, ob in enumerate(scn["objs"]):  # in the order of construction
                if ob.get("at") == i and j not in used:
                    used.append(j)
            if c.get("o", 0) not in used:
                used.append(c.get("o", 0))
        evs = []
        for o in used:
            if scn["objs"][o]["ev"] not in evs:
                evs.append(scn["objs"][o]["ev"])
        out["objs"] = [dict(scn["objs"][o], ev=evs.index(scn["objs"][o]["ev"])) for o in used]
        out["calls"] = [dict(c, o=used.index(c.get("o", 0))) for c in calls]
    return out


# --------------------------------------------------------------------------- generator


def _rand_call(rng, kinds, serial, durs_min):
    k = rng.choice(kinds)
    c = {"kind": k}
    if k in "PSBQ":
        c["n"] = rng.choice([0, 1, 1, 2, 2, 3, 5, 5])
    if k in "TBQ":
        if serial:
            c["t"] = rng.choice([1, 2, 3, 4, 6, 50])
        else:
            # real time: either certainly not expiring (instant jobs, 60 s) or certainly expiring (jobs run
            # until they observe CANCELLING, 1 s)
            c["expire"] = k == "T" or rng.random() < 0.5
            c["t"] = 1 if c["expire"] else 60
    if k == "X":
        c["n"] = 1
        c["t"] = rng.choice([0, -1, 1.5, True])  # both branches of _check_timeout: not an int / not positive
    return c


def gen_scenarios(ck):
    rng = ck.rng
    out = []
    # (a) systematic short histories for every W (serial, RandomSearch): all ordered pairs / triples of kinds
    Ws = [1, 3, 4]
    ns = [1, 2, 5]
    base = "PSTB"
    for W in Ws:
        for a in base:
            for b in base:
                seqs = [[a, b]]
                if ck.thorough or (a in "ST" and b in "PS"):
                    seqs += [[a, b, x] for x in base]
                for seq in seqs:
                    calls = []
                    for k in seq:
                        c = {"kind": k}
                        if k in "PSB":
                            c["n"] = rng.choice(ns)
                        if k in "TB":
                            c["t"] = rng.choice([1, 2, 3])
                        calls.append(c)
                    out.append({"cls": "RandomSearch", "backend": "serial", "W": W, "calls": calls,
                                "durs": [rng.randint(1, 3) for _ in range(7)], "src": "systematic"})
    # (b) the repeated-strict family
    for W in Ws:
        for n in ns:
            out.append({"cls": "RandomSearch", "backend": "serial", "W": W, "durs": [0],
                        "calls": [{"kind": "S", "n": n}] * 4, "src": "strict4"})
    # (c) random sequences of length <= 4 over the whole alphabet
    for _ in range(ck.pick(140, 2500)):
        W = rng.choice([1, 2, 3, 4])
        L = rng.choice([1, 2, 3, 3, 4, 4])
        kinds = rng.choice(["PSTBQX", "PSTB", "PS", "STP", "TBP", "SQ"])
        calls = [_rand_call(rng, kinds, True, 1) for _ in range(L)]
        has_T = any(c["kind"] == "T" for c in calls)
        if has_T or rng.random() < 0.6:
            durs = [rng.choice([1, 1, 2, 3]) for _ in range(rng.randint(1, 9))]
        else:
            durs = [rng.choice([0, 0, 1, 2]) for _ in range(rng.randint(1, 9))]
            if has_T and not all(durs):
                durs = [max(1, d) for d in durs]
        out.append({"cls": "RandomSearch", "backend": "serial", "W": W, "calls": calls, "durs": durs, "src": "random"})
    # (d) other search classes (serial)
    for _ in range(ck.pick(8, 80)):
        W = rng.choice([1, 3, 4])
        calls = [_rand_call(rng, "PSTB", True, 1) for _ in range(rng.choice([2, 3, 4]))]
        for c in calls:
            if "n" in c:
                c["n"] = min(c["n"], 3)
            if "t" in c:
                c["t"] = min(c["t"], 3)
        out.append({"cls": rng.choice(["CBO", "RegularizedEvolution"]), "backend": "serial", "W": W, "calls": calls,
                    "durs": [rng.choice([1, 2]) for _ in range(5)], "src": "classes"})
    # (e) thread backend, real time
    fam = [["S", "S", "S"], ["S", "P"], ["T", "P"], ["T", "S"], ["P", "B", "P"], ["T", "T"], ["B", "S", "P"]]
    nthread = ck.pick(7, 60)
    for t in range(nthread):
        W = rng.choice([1, 3, 4])
        seq = fam[t] if t < len(fam) else [rng.choice("PSTB") for _ in range(rng.choice([2, 3, 4]))]
        calls = []
        nexp = 0
        for k in seq:
            c = _rand_call(rng, k, False, 0)
            if c.get("expire"):
                nexp += 1
                if nexp > 2:  # keep the real-time cost bounded
                    c["expire"], c["t"] = False, 60
                    if k == "T":
                        c = {"kind": "P", "n": 1}
            calls.append(c)
        out.append({"cls": "RandomSearch" if t % 5 else "CBO", "backend": "thread", "W": W, "calls": calls, "src": "thread"})
    out += gen_objects_env(ck)
    return out


CLASSES = ("RandomSearch", "CBO", "RegularizedEvolution")
LOG_DIRS = ("default", "rel:.", "rel:logs", "rel:out/run1", "abs:L0")


def _block(rng, o, kinds, serial, nmax=2, expiring=True):
    """1..nmax calls on search object `o`"""
    calls = []
    for _ in range(rng.randint(1, nmax)):
        c = _rand_call(rng, kinds, serial, 1)
        if "n" in c:
            c["n"] = min(c["n"], 3)
        if serial and "t" in c and c["kind"] != "X":
            c["t"] = min(c["t"], 3)
        if not serial and c.get("expire") and not expiring:
            c["expire"], c["t"] = False, 60
            if c["kind"] == "T":
                c = {"kind": "P", "n": 1}
        c["o"] = o
        calls.append(c)
    return calls


def _add_chdirs(rng, calls, mode):
    """mode: 'between' (os.chdir after a call), 'in-run' (a run-function invocation changes it), 'both'"""
    for j, c in enumerate(calls):
        if mode in ("between", "both") and j < len(calls) - 1 and rng.random() < 0.8:
            c["cd_after"] = rng.choice(WORK_DIRS[1:])
        if mode in ("in-run", "both") and c["kind"] != "X" and rng.random() < 0.7:
            c["cd_in"] = [rng.randint(1, max(1, c.get("n", 1))), rng.choice(WORK_DIRS[1:])]
    return calls


def gen_objects_env(ck):
    """histories with several search objects (sharing an evaluator object and / or a log directory; constructed
    when needed or up-front; used one after the other or in turns) and with a process environment (relative / default log directories, working directory
    changed between the calls or by the run-function)"""
    rng = ck.rng
    out = []

    def durs():
        return [rng.choice([1, 1, 2, 3]) for _ in range(rng.randint(1, 7))]

    # (f) two search objects, every way of sharing x class of the second x W
    shares = [("ev+dir", 0, "abs:L0"), ("ev", 0, "abs:L1"), ("dir", 1, "abs:L0"), ("none", 1, "abs:L1")]
    k = 0
    for W in ([1, 3] if not ck.thorough else [1, 2, 3, 4]):
        for name, ev2, dir2 in shares:
            for rep in range(ck.pick(2, 6)):
                cls2 = CLASSES[k % 3]
                k += 1
                objs = [{"cls": CLASSES[(k // 3) % 3] if rep else "RandomSearch", "ev": 0, "log_dir": "abs:L0"},
                        {"cls": cls2, "ev": ev2, "log_dir": dir2}]
                calls = _block(rng, 0, "PSTB", True) + _block(rng, 1, "PPSSTB", True)
                out.append({"cls": "RandomSearch", "backend": "serial", "W": W, "objs": objs, "calls": calls,
                            "durs": durs(), "src": "objects:" + name})
    # chains of three / four objects on one evaluator, directories drawn from two
    for _ in range(ck.pick(10, 150)):
        nobj = rng.choice([3, 3, 4])
        objs = [{"cls": rng.choice(CLASSES), "ev": rng.choice([0, 0, 0, 1]), "log_dir": rng.choice(["abs:L0", "abs:L0", "abs:L1"])}
                for _ in range(nobj)]
        calls = []
        for o in range(nobj):
            calls += _block(rng, o, "PPSSTBQ", True, nmax=2 if nobj == 3 else 1)
        out.append({"cls": "RandomSearch", "backend": "serial", "W": rng.choice([1, 2, 3, 4]), "objs": objs,
                    "calls": calls[:6], "durs": durs(), "src": "objects:chain"})
    # objects with different directories may be used in turns (on one evaluator object or on two)
    for t in range(ck.pick(8, 80)):
        objs = [{"cls": rng.choice(CLASSES), "ev": j if t % 2 else 0, "log_dir": f"abs:L{j}"} for j in range(2)]
        calls = []
        for _ in range(rng.choice([3, 4])):
            calls += _block(rng, rng.choice([0, 1]), "PSTB", True, nmax=1)
        out.append({"cls": "RandomSearch", "backend": "serial", "W": rng.choice([1, 3]), "objs": objs, "calls": calls,
                    "durs": durs(), "src": "objects:in-turns"})
    # construction order: all the objects are constructed up-front (different directories) and then run one
    # after the other or in turns; or an object is constructed (and not used yet) in the middle of another one's calls
    for t in range(ck.pick(8, 120)):
        nobj = rng.choice([2, 2, 3])
        objs = [{"cls": rng.choice(CLASSES), "ev": rng.choice([0, 0, 0, 1]), "log_dir": f"abs:L{j}", "at": 0} for j in range(nobj)]
        calls = []
        if t % 3 == 2:
            for _ in range(rng.choice([3, 4, 5])):
                calls += _block(rng, rng.randrange(nobj), "PPSSTB", True, nmax=1)
        else:
            for o in range(nobj):
                calls += _block(rng, o, "PPSSTB", True, nmax=2)
        out.append({"cls": "RandomSearch", "backend": "serial", "W": rng.choice([1, 2, 3, 4]), "objs": objs, "calls": calls[:6],
                    "durs": durs(), "src": "objects:up-front"})
    for t in range(ck.pick(5, 80)):
        calls = _block(rng, 0, "PPSSTB", True, nmax=2) + _block(rng, 0, "PPSSTB", True, nmax=2)
        at = rng.randint(1, len(calls) - 1)
        objs = [{"cls": rng.choice(CLASSES), "ev": 0, "log_dir": "abs:L0"},
                {"cls": rng.choice(CLASSES), "ev": 0, "log_dir": rng.choice(["abs:L1", "rel:logs", "default"]), "at": at}]
        if t % 2:
            calls += _block(rng, 1, "PS", True, nmax=1)
        out.append({"cls": "RandomSearch", "backend": "serial", "W": rng.choice([1, 3]), "objs": objs, "calls": calls,
                    "durs": durs(), "src": "objects:constructed-in-between"})
    # (g) one search object, the process environment: how the log directory is given x who changes the cwd
    for ld in LOG_DIRS:
        for mode in ("between", "in-run", "both"):
            for _ in range(ck.pick(1, 12)):
                calls = _add_chdirs(rng, _block(rng, 0, "PPSSTBQX", True, nmax=3) + _block(rng, 0, "PS", True, nmax=1), mode)
                out.append({"cls": "RandomSearch", "backend": "serial", "W": rng.choice([1, 1, 3, 4]),
                            "objs": [{"cls": rng.choice(CLASSES), "ev": 0, "log_dir": ld}], "calls": calls,
                            "cwd0": rng.choice(WORK_DIRS[:2]), "durs": durs(), "src": "env:" + mode})
    # (h) both: several objects, log directories given in any way (two relative ones are the same directory or not
    # depending on where the process is when they are constructed), cwd changes anywhere
    for _ in range(ck.pick(14, 200)):
        nobj = rng.choice([2, 2, 3])
        objs = [{"cls": rng.choice(CLASSES), "ev": rng.choice([0, 0, 1]), "log_dir": rng.choice(LOG_DIRS)} for _ in range(nobj)]
        calls = []
        for o in range(nobj):
            calls += _block(rng, o, "PPSSTB", True, nmax=2)
        _add_chdirs(rng, calls, rng.choice(["between", "in-run", "both"]))
        out.append({"cls": "RandomSearch", "backend": "serial", "W": rng.choice([1, 2, 3, 4]), "objs": objs, "calls": calls[:6],
                    "durs": durs(), "src": "objects+env"})
    # (i) thread backend (real time; at most one expiring timeout each)
    for t in range(ck.pick(6, 48)):
        nobj = 1 if t % 3 == 1 else 2
        objs = [{"cls": "RandomSearch" if t % 4 else "CBO", "ev": 0 if t % 2 == 0 else j,
                 "log_dir": rng.choice(LOG_DIRS) if t % 3 else ("abs:L0" if t % 2 == 0 else f"abs:L{j % 2}")} for j in range(nobj)]
        calls = []
        for o in range(nobj):
            calls += _block(rng, o, "PPSSB" if o else "PSTB", False, nmax=2, expiring=(o == 0 and t % 2 == 0))
        nexp = 0
        for c in calls:
            if c.get("expire"):
                nexp += 1
                if nexp > 1:
                    c["expire"], c["t"] = False, 60
                    if c["kind"] == "T":
                        c.update(kind="P", n=1)
                        c.pop("t"), c.pop("expire")
        if t % 3:
            _add_chdirs(rng, calls, rng.choice(["between", "in-run", "both"]))
        if t % 6 == 3 and nobj == 2:  # constructed up-front, in different directories
            objs = [dict(ob, log_dir=f"abs:L{j}", at=0) for j, ob in enumerate(objs)]
        out.append({"cls": "RandomSearch", "backend": "thread", "W": rng.choice([1, 3, 4]), "objs": objs, "calls": calls,
                    "src": "thread:objects+env"})
    return out


def over_call(scn, obs):
    """index of the first call made on a search object that is over (another object was constructed or called
    in its -- observed -- log directory since it was constructed); such a call is outside what is judged.
    None if there is none (always the case for generated scenarios)."""
    recs = (obs or {}).get("objs") or {}
    valid = {}

    def event(o):
        d = _obj_dir(scn, obs, o)
        for x in valid:
            if x != o and d is not None and _obj_dir(scn, obs, x) == d:
                valid[x] = False

    for i, c in enumerate(scn["calls"]):
        for bc, o in sorted((r["before_call"], int(o)) for o, r in recs.items()):
            if bc == i and o not in valid:
                valid[o] = True
                event(o)
        o = c.get("o", 0)
        if o not in valid:
            break  # the run stopped before
        if not valid[o]:
            return i
        event(o)
    return None


def _run_chunk(scns):
    common.use_repo_sources()
    return [run_scenario(s) for s in scns]


def _observe_all(ck, scns):
    serial = [s for s in scns if s["backend"] == "serial"]
    thread = [s for s in scns if s["backend"] != "serial"]
    res = {}
    if ck.thorough and len(scns) > 200:
        import concurrent.futures as cf

        chunks = [serial[i::16] for i in range(16)] + [thread[i::8] for i in range(8)]
        chunks = [c for c in chunks if c]
        with cf.ProcessPoolExecutor(max_workers=16) as ex:
            for ch, obs in zip(chunks, ex.map(_run_chunk, chunks)):
                for s, o in zip(ch, obs):
                    res[id(s)] = o
    else:
        for s in serial + thread:  # serial first (virtual loop installed), then real time
            res[id(s)] = run_scenario(s)
    from . import vloop

    vloop.uninstall()
    return [res[id(s)] for s in scns]


def world_request(scn, obs):
    """the history as events of Model/SearchObjects.lean: constructions (with the log directory as given and
    the observed working directory), working-directory changes, calls with their observed schedules"""
    ids = {}

    def path(parts):
        return [ids.setdefault(x, len(ids)) for x in parts]

    specs = objs_of(scn)
    evmap, local, nlocal = {}, {}, {}
    ops = []
    cwd0 = _parts(scn.get("cwd0", "w0"))
    mc = [list(cwd0)]  # the model's working directory

    def chdir_to(parts):
        if parts != mc[0]:
            mc[0] = list(parts)
            ops.append({"t": "chdir", "p": path(mc[0])})

    recs = obs.get("objs") or {}
    for i, (c, r) in enumerate(zip(scn["calls"], obs["calls"])):
        for bc, o in sorted((rr["before_call"], int(o)) for o, rr in recs.items()):
            if bc != i or o in local:
                continue
            e = evmap.setdefault(specs[o]["ev"], len(evmap))
            chdir_to(recs[str(o)]["cwd"])
            local[o] = nlocal.get(e, 0)
            nlocal[e] = local[o] + 1
            ld = specs[o].get("log_dir", "abs:L0")
            if ld == "default":
                ops.append({"t": "new", "ev": e, "rel": []})
            elif ld.startswith("rel:"):
                ops.append({"t": "new", "ev": e, "rel": path(_parts(ld[4:]))})
            else:
                ops.append({"t": "new", "ev": e, "abs": path(_parts(ld[4:]))})
        o = c.get("o", 0)
        chdir_to(r["cwd_before"])
        op = dict(lean_call(c, r["env"]), t="call", ev=evmap[specs[o]["ev"]], o=local[o])
        if r["cwd_after"] != mc[0]:
            mc[0] = list(r["cwd_after"])
            op["cwd_after"] = path(mc[0])
        ops.append(op)
    return {"op": "world", "W": scn["W"], "nev": max(1, len(evmap)), "cwd": path(cwd0), "ops": ops}


def _check(ck, scns, obss, drv, do_shrink=True):
    reqs = []
    for k, (scn, obs) in enumerate(zip(scns, obss)):
        cut = over_call(scn, obs)
        if cut is not None:  # not generated; a replayed / hand-written case: judged up to there
            ck.count("outside-discipline(call on a search object that is over)")
            scns[k] = scn = dict(scn, calls=scn["calls"][:cut])
            obss[k] = obs = dict(obs, calls=obs["calls"][:cut], error=None if len(obs["calls"]) >= cut else obs["error"])
        reqs.append(world_request(scn, obs))
    reps = drv.ask_all(reqs)
    open_fps = {e["fingerprint"] for e in (getattr(ck, "known", None) or {}).get("open", []) if e.get("property") == "C03"}
    for scn, obs, rep in zip(scns, obss, reps):
        case = _case_of(scn)
        ks = kinds_of(scn, obs)
        ck.case(case, nontrivial=len(scn["calls"]) >= 2)
        ck.count("src:" + scn.get("src", "?"))
        ck.count("backend:" + scn["backend"])
        specs = objs_of(scn)
        for o in sorted({c.get("o", 0) for c in scn["calls"]}):
            ck.count("cls:" + specs[o]["cls"])
            ld = specs[o].get("log_dir", "abs:L0")
            ck.count("log_dir:" + ("default" if ld == "default" else ld[:3]))
        ck.count(f"W={scn['W']}")
        ck.count(f"len={len(scn['calls'])}")
        ck.count(f"objects={len({c.get('o', 0) for c in scn['calls']})}")
        for x in options_of(scn, obs, len(scn["calls"]) - 1) if scn["calls"] else []:
            ck.count("dim:" + x)
        if any(r["cwd_after"] != r["cwd_before"] for r in obs["calls"]):
            ck.count("cwd-changed-during-a-call")
        for k in ks:
            ck.count("call:" + k)
        for a, b in zip(ks, ks[1:]):
            ck.count(f"pair:{a}>{b}")
        # ---- L3
        explained = False
        fails = oracle(scn, obs)
        for clause, i, detail in fails[:1]:
            s2, o2, i2 = (scn, obs, i)
            if do_shrink and (clause != "raises" or "vloop" not in str(detail)):
                # (an exception is shrunk too, with a smaller budget, unless it is the virtual loop's live-lock guard)
                s2, o2, i2 = shrink(scn, clause, i, budget=80 if clause != "raises" else 30)
                if o2 is None:
                    s2, o2, i2 = scn, obs, i
            i2 = min(i2, len(s2["calls"]) - 1)
            c2 = _case_of(s2)
            explained = fingerprint(clause, s2, o2, i2) in open_fps
            ck.fail(fingerprint(clause, s2, o2, i2),
                    f"search() call #{i2} ({call_kwargs(s2['calls'][i2])}) after history {kinds_of(s2, o2, i2)} (objects: {history_text(s2, o2, i2)})"
                    f"{' [' + ', '.join(options_of(s2, o2, i2)) + ']' if options_of(s2, o2, i2) else ''}: {clause}",
                    c2, {"observed": o2, "first_detail": detail, "unshrunk": case})
        # ---- L2
        if obs["error"]:
            continue
        if explained:
            # an OPEN known finding of this tree (known_findings.d/C03.json): the model describes the repaired code
            ck.count("L2_not_compared(history fails by an open known finding)")
            continue
        for i, (c, r, m) in enumerate(zip(scn["calls"], obs["calls"], rep["outs"])):
            ck.count("model_stop:" + m["stop"])
            ck.count(f"iters={min(len(r['env']), 6)}")
            if any(g > 1 for g, _ in r["env"]):
                ck.count("gather>1")
            want_rows = r["rows"] if r["rows"] else None
            diff = {}
            if r["raised"]:
                if m["stop"] != "badTimeout":
                    diff["raised"] = (r["raised"], m["stop"])
            else:
                if m["stop"] not in ("budget", "cap", "timeout"):
                    diff["stop"] = m["stop"]
                if m["evals"] != r["evals"]:
                    diff["evals"] = (r["evals"], m["evals"])
                mt = m["table"]
                if (None if mt is None else mt["rows"]) != want_rows:
                    diff["table"] = (want_rows, mt)
                elif mt is not None and mt["ok"] != (not r.get("cols_bad")):
                    diff["table_columns"] = (r.get("cols_bad"), mt)
                if m["asks"] != r["asks"]:
                    diff["asks"] = (r["asks"], m["asks"])
                if (m["stop"] in ("cap", "timeout")) != r["stopped"]:
                    diff["stopped"] = (r["stopped"], m["stop"])
            if diff:
                ck.mismatch(case, {"call": i, "kinds": ks, "impl_vs_model": diff, "observed": r, "model": m})
                break


def _corpus():
    d = common.VERIF / "corpus" / "C03"
    out = []
    if d.is_dir():
        for f in sorted(d.glob("*.json")):
            data = json.loads(f.read_text())
            scn = dict(data["case"])
            scn["src"] = "corpus"
            out.append(scn)
    return out


def run(ck):
    ck.rule = ("sequences of <= 4 search() calls over {plain n, strict n, timeout t, timeout+n, timeout+strict n, invalid "
               "timeout} x n in {0,1,2,3,5} x W in {1,2,3,4} x {serial (virtual clock, job durations 0-3 ticks), thread "
               "(real time)} x {RandomSearch, CBO/ET, RegularizedEvolution}: all ordered pairs (+triples) of kinds "
               "systematically, repeated-strict family, random sequences; x histories with 2-4 search objects (any "
               "classes) on the same / another evaluator object in the same / another log directory (every way of "
               "sharing), constructed when needed / all up-front / in the middle of another one's calls, used one after "
               "the other or in turns x process environment: log_dir "
               "absolute / relative / '.' / default, os.chdir between the calls and / or inside the run-function (all under "
               "a temporary root, cwd restored); each search object judged on its own calls; distinct by canonical "
               "scenario; non-trivial = at least 2 calls")
    ck.assumptions = [
        "asyncio.wait(FIRST_COMPLETED) reports between 1 and W finished tasks (observed per iteration through the public tell(); a value outside the contract makes the model answer badEnv)",
        "the clock reading of time_left after each gather is an input of the model (observed with the code's own float expression on the virtual clock; thread backend: by construction of the scenario -- timeouts that certainly expire (jobs wait for CANCELLING + 0.25 s) or certainly do not (60 s, instant jobs))",
        "dump_jobs_done_to_csv writes every gathered job (its internals are C04's model); the table is compared by its number of rows, by its column names being the declared ones (p:<hyperparameter>, objective, job_id, job_status, m:<metadata>) and by its job ids being those the run-function was invoked for by the calls on this search object",
        "a log directory holds the results of one search at a time (constructing a Search renames the results file found in its directory): a search object is over once another one is constructed or called in its directory; a call on an object that is over is not generated and not judged. Search objects with different directories use an evaluator object in any order (one after the other, all constructed up-front, in turns)",
        "the working directory of the process at each construction / after each call is an input of the model (observed with os.getcwd())",
    ]
    ck.trusted_extra = ["harness/vloop.py (virtual-time event loop, patched time of deephyper.evaluator._evaluator)"]
    scns = _corpus() + gen_scenarios(ck)
    obss = _observe_all(ck, scns)
    with ck.driver() as drv:
        _check(ck, scns, obss, drv)


def replay(ck, case):
    scn = dict(case)
    scn.setdefault("src", "replay")
    obs = run_scenario(scn)
    from . import vloop

    vloop.uninstall()
    print("replay:", json.dumps({"kinds": kinds_of(scn, obs), "observed": obs["calls"], "error": obs["error"]}))
    with ck.driver() as drv:
        _check(ck, [scn], [obs], drv, do_shrink=False)


def search(ck):
    """deeper failing-input search (L3 only) when L1/L2 broke and run() found nothing"""
    rng = ck.rng
    scns = []
    for _ in range(ck.pick(400, 3000)):
        W = rng.choice([1, 2, 3, 4, 5])
        calls = [_rand_call(rng, "PSTBQ", True, 1) for _ in range(rng.choice([2, 3, 4, 5]))]
        scns.append({"cls": "RandomSearch", "backend": "serial", "W": W, "calls": calls,
                     "durs": [rng.choice([1, 2, 3]) for _ in range(rng.randint(1, 9))], "src": "search"})
    scns += gen_objects_env(ck)
    obss = _observe_all(ck, scns)
    for scn, obs in zip(scns, obss):
        for clause, i, detail in oracle(scn, obs)[:1]:
            s2, o2, i2 = shrink(scn, clause, i)
            if o2 is None:
                s2, o2, i2 = scn, obs, i
            c2 = _case_of(s2)
            ck.fail(fingerprint(clause, s2, o2, i2), f"search() call #{i2}: {clause}", c2, {"observed": o2, "detail": detail})
