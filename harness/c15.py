"""C15 -- results on disk survive crashes and are never destroyed by a new search.

Real searches (RandomSearch / CBO with an ET surrogate, serial evaluator, 1..3 objectives, batches
1..8, 1..3 search() calls, optional failing evaluations, optional wide rows, 1..5 searches created
one after the other in one log_dir with the real clock or `time.strftime` patched to a constant)
run in a forked child of a pool worker, traced with `strace -f -y -p <pid>` (the child waits on a
pipe until strace is attached): no instrumentation of the repo.

L2: the system calls on `log_dir/results*.csv*` (open flags, write payloads split into CSV lines
    and tagged header / row(job) / torn, close, rename) must equal, op for op, the trace the Lean
    protocol model `searchFiles` produces for the observed environment choices (which jobs each
    dump carries, how the lines are split into write() calls, the time stamps); the model's final
    directory must equal the files on disk; after every kill the model's directory at that prefix
    must equal the files on disk.
L3: crash injection `strace -e inject=<syscall>:signal=KILL:when=n -P results.csv -P results.csv.tmp`
    before EVERY recorded system call (quick tier: a sample incl. first/last and everything around
    file creation and the Pareto rewrite): the bytes on disk go through the verified Lean checker
    `wellFormedPrefix` together with the run-function's own completion log; a fresh
    `CBO.fit_surrogate(<file>)` must load them; a new search created in the same log_dir must
    rename the file under a fresh name without changing a byte of any earlier file, load it and
    run; every snapshot of a finished search's results must still be on disk in a distinct file.

Environment (lean/Model/FilesEnv.lean): the process runs with log_dir, the system temporary directory (TMPDIR) and
the working directory on the writable file systems found at run time (os.stat().st_dev; a single one -> counted note in
the evidence), log_dir possibly given as a relative path, the working directory possibly changed after construction.
Files outside log_dir that are later renamed / linked / copied onto a result file are part of the trace (named
`<TMPDIR>/#k`, ...), kill points on them are addressed as the n-th call of the process.  `search(ck)` (called when L2 broke
without a failing input) enumerates every call of the observed traces of the mismatching scenarios in every environment.

Text layer (lean/Model/FilesText.lean over lean/Model/Csv.lean): a third of the searches store text with
CSV-special characters (metadata strings, a categorical hyperparameter, a metadata key, the failure label:
comma, quote, bare "\r", "\n", "\r\n", blanks at either end, empty, non-ASCII).  The bytes of results.csv are read by
the Lean `csv.reader` model, every record is classified against the header record (`abstract`) and the
result goes through `wellFormedPrefix`; the rows must show the cells the run-functions logged (`cellsOk`).
L2: the reader model == Python's csv.reader on the bytes; the writer model's rendering of the records read
back == the bytes (both writers); pandas.read_csv gives the same rows / job ids / text cells.  L3: a row
that a reader sees split / merged / altered is a violation at every kill point and after a normal return;
what fit_surrogate obtains from pandas.read_csv must be the rows on disk.
"""
import csv
import io
import json
import os
import re
import shutil
import signal
import subprocess
import sys
import tempfile
import time
import traceback
from concurrent.futures import ProcessPoolExecutor
import multiprocessing as mp

from . import common
from .common import HarnessError

for _v in ("OMP_NUM_THREADS", "OPENBLAS_NUM_THREADS", "MKL_NUM_THREADS"):
    os.environ.setdefault(_v, "1")

CONST_STAMP = "20260101-000000"
# where an earlier results file is lost it is always the backup rename of Search.__init__ (whatever was killed before)
FP_NO_DESTROY = "C15|no-destroy|Search.__init__|backup name already taken (same second)"
FP_NO_DESTROY_EARLY = ("C15|no-destroy|Evaluator.dump_jobs_done_to_csv|first dump of a search constructed before "
                       "another search wrote results.csv")
SCRATCH = "/tmp/g11/c15"
TRACE_SET = ("openat,open,creat,write,pwrite64,writev,ftruncate,truncate,rename,renameat,renameat2,"
             "unlink,unlinkat,link,linkat,symlink,symlinkat,close,sendfile,copy_file_range")
CHILD_TIMEOUT = 120
# the environment of the process (where log_dir, the system temporary directory and the working directory are, relative
# to each other): directories probed for distinct writable file systems (os.stat().st_dev)
FS_CANDIDATES = ("/tmp", "/dev/shm", "/var/tmp", "/run/user/%d" % os.getuid(), "~", "/mnt", "/run/shm")
CWD_KINDS = ("same", "parent", "moved", "other")
DEFAULT_ENV = {"log": 0, "tmp": 0, "cwd": "same"}


FP_REUSE = "C15|wellformed-or-absent|Search.__init__|evaluator used by an earlier search, no results.csv in log_dir"

# the Python class of the container in which a multi-objective run-function hands back its objectives ("tuple/list" of the
# supported return forms: every instance of tuple or list; the plain object or the value of the key "objective" of the
# dict form).  A NumPy array is not one of them: HPOJob.standardize_output rejects it (TypeError).
SEQ_KINDS = ("tuple", "list", "namedtuple", "tuple-subclass", "list-subclass")


class ObjectiveTuple(tuple):
    """a user's own tuple class"""


class ObjectiveList(list):
    """a user's own list class"""


_NAMEDTUPLES = {}


def _seq(kind, values):
    """the objectives `values` in a container of class `kind`"""
    xs = list(values)
    if kind == "list":
        return xs
    if kind == "namedtuple":
        import collections

        n = len(xs)
        if n not in _NAMEDTUPLES:
            _NAMEDTUPLES[n] = collections.namedtuple("Objectives", [f"f{i}" for i in range(n)])
        return _NAMEDTUPLES[n](*xs)
    if kind == "tuple-subclass":
        return ObjectiveTuple(xs)
    if kind == "list-subclass":
        return ObjectiveList(xs)
    return tuple(xs)


def _seq_of(run):
    """container class of the objectives of a run (single-objective searches return a number: no container)"""
    return run.get("seq", "tuple") if run.get("nobj", 1) > 1 else "tuple"


def _headerless(scn, lines, phase=None):
    """the signature of 10e: an evaluator that already dumped appends to a new file (rows without a header
    line, or the empty file its open(..., "a") creates)"""
    return any(r.get("reuse") for r in scn["runs"]) and (
        (bool(lines) and lines[0][0] != "h") or (not lines and phase == "append-dump"))


def _fp_nd(scn):
    return FP_NO_DESTROY_EARLY if scn.get("early") else FP_NO_DESTROY


# --------------------------------------------------------------------------- cell values, CSV text

# values a run-function may return in its metadata (captured output, labels, paths, notes) and choices a
# categorical hyperparameter may have: every character class the CSV text layer treats specially (delimiter,
# quote, bare carriage return, line feed, both, blanks at either end, the empty string, non-ASCII).  None of
# them is a number, a boolean or a missing-value spelling (how pandas TYPES a column is not C15's business).
HOSTILE = ["cr\rx", "l1\nl2", 'q"r', "x\r", "a,b", " lead", "l1\r\nl2", "\ry", "trail ", "", "\u00e9\u2713 \u4e2d",
           '","', "two\r\rcr", "'s", "t\tb", "plain", "\r", "end\n"]
HOSTILE_CHOICES = ["cr\rx", "l1\nl2", 'q"r', "a,b", " lead", "trail ", "\u00e9\u2713", "plain", "x\r"]
CELL_COLUMNS = ["p:c", "m:log", "m:k,1"]  # the columns whose text the run-function logs (a hostile key, too)


def _hostile_cells(seed, jid):
    n = len(HOSTILE)
    return HOSTILE[(jid + seed) % n], HOSTILE[(2 * jid + 1 + seed // 7) % n]


def _csv_scan(text):
    """the `csv.reader` state machine over a whole text (line for line `parse` of lean/Model/Csv.lean; what
    `csv.reader` gives for a file opened with newline=""): an unquoted "\\r", "\\n" or "\\r\\n" ends a record, a blank
    line is the record [].  Returns (records, ends, ended): ends[i] = offset just behind record i and its terminator,
    ended = the text ends between two records (False: inside the last one).  Total: never raises."""
    SR, CR, SF, IF, IQ, QQ = range(6)
    st, recs, ends, row, f = SR, [], [], [], []
    for i, c in enumerate(text):
        if st in (SR, CR):
            if st == CR and c == "\n":
                st = SR
                ends[-1] = i + 1
            elif c == "\r" or c == "\n":
                recs.append([])
                ends.append(i + 1)
                st = CR if c == "\r" else SR
            elif c == '"':
                st, row, f = IQ, [], []
            elif c == ",":
                st, row, f = SF, [""], []
            else:
                st, row, f = IF, [], [c]
        elif st == SF:
            if c == "\r" or c == "\n":
                recs.append(row + [""])
                ends.append(i + 1)
                st = CR if c == "\r" else SR
            elif c == '"':
                st, f = IQ, []
            elif c == ",":
                row.append("")
            else:
                st, f = IF, [c]
        elif st == IF:
            if c == "\r" or c == "\n":
                recs.append(row + ["".join(f)])
                ends.append(i + 1)
                st = CR if c == "\r" else SR
            elif c == ",":
                row.append("".join(f))
                st, f = SF, []
            else:
                f.append(c)
        elif st == IQ:
            if c == '"':
                st = QQ
            else:
                f.append(c)
        else:  # QQ: a quote seen inside quotes
            if c == '"':
                f.append('"')
                st = IQ
            elif c == ",":
                row.append("".join(f))
                st, f = SF, []
            elif c == "\r" or c == "\n":
                recs.append(row + ["".join(f)])
                ends.append(i + 1)
                st = CR if c == "\r" else SR
            else:
                f.append(c)
                st = IF
    ended = st in (SR, CR)
    if not ended:
        recs.append(row + ["".join(f)])
        ends.append(len(text))
    return recs, ends, ended


def _records(text):
    """the records of a text, blank lines dropped (= `records` of lean/Model/FilesText.lean)"""
    return [r for r in _csv_scan(text)[0] if r]


def _py_records(text):
    """the same through the real csv.reader (None when it refuses the text)"""
    try:
        return [r for r in csv.reader(io.StringIO(text, newline="")) if r]
    except csv.Error:
        return None


def _header_of(path):
    try:
        with open(path, newline="", errors="replace") as f:
            recs = _records(f.read(1 << 16))
        return recs[0] if recs else []
    except OSError:
        return []


def _complete_prefix(text):
    """the text without the record it ends inside of (the whole text when it ends between two records)"""
    raw, ends, ended = _csv_scan(text)
    if ended:
        return text
    return text[: ends[-2]] if len(ends) > 1 else ""


# --------------------------------------------------------------------------- the traced program


def _problem(wide, hostile=False):
    from deephyper.hpo import HpProblem

    pb = HpProblem()
    pb.add_hyperparameter((0.0, 1.0), "x")
    pb.add_hyperparameter((0, 10), "k")
    if hostile:
        pb.add_hyperparameter(list(HOSTILE_CHOICES), "c")
    for i in range(wide):
        pb.add_hyperparameter((0.0, 1.0), f"w{i:03d}")
    return pb


def _is_hostile(run):
    return run.get("cells") == "hostile"


_SELFKILL = {"at": None, "k": 0, "n": 0}


def _maybe_selfkill(ctl, what):
    """SIGKILL to itself right after the k-th dump returned / at the k-th run-function completion"""
    if ctl["at"] == what:
        ctl["n"] += 1
        if ctl["n"] == ctl["k"]:
            os.kill(os.getpid(), signal.SIGKILL)


def _make_search(run, idx, log_dir, side, reuse=None):
    """one search of a scenario; its run-function appends '<idx>.<job id>' to the completion log
    with a single O_APPEND write just before it returns.  `reuse` = a search whose evaluator (and
    run-function) is handed to the new search, as a user who keeps one evaluator would do."""
    import asyncio

    from deephyper.evaluator import Evaluator
    from deephyper.hpo import CBO, ExperimentalDesignSearch, RandomSearch, RegularizedEvolution

    if reuse is not None:
        ev, cell = reuse._evaluator, reuse._c15_cell
        cell["idx"] = idx
    else:
        fd = os.open(os.path.join(side, "done.log"), os.O_WRONLY | os.O_CREAT | os.O_APPEND, 0o644)
        nobj, fail, batch, sleep = run["nobj"], run.get("fail", "none"), run["batch"], run.get("sleep", False)
        hostile, hseed = _is_hostile(run), run.get("seed", 1)
        seqk = _seq_of(run)
        cell = {"idx": idx, "first": None}
        ctl = _SELFKILL  # harness-made kill points that are not system calls on results.csv

        async def run_function(job):
            jid = int(job.id.split(".")[1])
            if cell["first"] is None:
                cell["first"] = jid
            x, k = job.parameters["x"], job.parameters["k"]
            rel = jid - cell["first"]
            failed = (fail == "first" and rel < batch) or (fail == "some" and rel % 3 == 1) or fail == "all"
            if sleep:
                await asyncio.sleep(0.04 + 0.09 * (jid % 3))
            # '<search>.<job> <F | number of objectives it returns> [<json: text of some cells>]' : what the row of
            # this evaluation has to show
            cells, meta = "", None
            if hostile:
                a, b = _hostile_cells(hseed, jid)
                meta = {"log": a, "k,1": b}
                cells = " " + json.dumps({"p:c": job.parameters.get("c"), "m:log": a, "m:k,1": b})
            os.write(fd, f"{cell['idx']}.{jid} {'F' if failed else nobj}{cells}\n".encode())
            _maybe_selfkill(ctl, "done")
            if failed:
                out = "F_cr\rx" if hostile else "F_injected"
            elif nobj == 1:
                out = x + k
            else:
                out = _seq(seqk, (x * (i + 1) - k * (1 - i) for i in range(nobj)))
            return out if meta is None else {"objective": out, "metadata": meta}

        ev = Evaluator.create(run_function, method="serial", method_kwargs={"num_workers": run["batch"]})
        # dump-returned log, independent of the file: the evaluator's public dump method is wrapped from outside;
        # the jobs that left `jobs_done` during a call are the ones that call dumped
        dfd = os.open(os.path.join(side, "dumped.log"), os.O_WRONLY | os.O_CREAT | os.O_APPEND, 0o644)
        orig_dump = ev.dump_jobs_done_to_csv

        def dump_and_log(*a, **k):
            before = [job.id for job in ev.jobs_done]
            out = orig_dump(*a, **k)
            left = {job.id for job in ev.jobs_done}
            gone = [j for j in before if j not in left]
            if gone:
                os.write(dfd, (" ".join(f"{cell['idx']}.{j.split('.')[1]}" for j in gone) + "\n").encode())
                _maybe_selfkill(ctl, "dump")
            return out

        ev.dump_jobs_done_to_csv = dump_and_log
    pb = _problem(run.get("wide", 0), _is_hostile(run))
    kind, seed = run["kind"], run.get("seed", 1)
    if kind == "random":
        s = RandomSearch(pb, ev, log_dir=log_dir, random_state=seed)
    elif kind == "regevo":
        s = RegularizedEvolution(pb, ev, log_dir=log_dir, random_state=seed, population_size=4, sample_size=2)
    elif kind == "eds":
        s = ExperimentalDesignSearch(pb, ev, log_dir=log_dir, random_state=seed, n_points=64, design="random")
    elif kind == "cbo-default":
        s = CBO(pb, ev, log_dir=log_dir, random_state=seed, verbose=0)  # every option at its default
    elif kind == "cbo-dummy":
        s = CBO(pb, ev, log_dir=log_dir, random_state=seed, surrogate_model="DUMMY", verbose=0)
    else:
        s = CBO(pb, ev, log_dir=log_dir, random_state=seed, surrogate_model="ET",
                surrogate_model_kwargs={"n_estimators": 2}, n_initial_points=2, n_points=64,
                acq_optimizer="sampling", verbose=0)
    s._c15_cell = cell
    return s


def _do_calls(s, run):
    for c in run["calls"]:
        if isinstance(c, dict):
            s.search(timeout=c["t"])
        else:
            s.search(max_evals=c)


PROBE_OLD = "p:x,objective_0,objective_1,job_id\r\n0.1,1,2,0\r\n0.2,2,1,1\r\n"
PROBE_NEW = "p:x,objective_0,objective_1,job_id,pareto_efficient\r\n0.1,1,2,0,True\r\n0.2,2,1,1,False\r\n"


def _move_probe_program(log_dir, side):
    """no code of the repository: the standard library moves a complete file from the system temporary directory onto
    log_dir/results.csv (what the environment model `Model/FilesEnv.lean` describes: rename inside one file system,
    EXDEV + truncate-and-copy across two)"""
    mark = os.open(os.path.join(side, "marks.log"), os.O_WRONLY | os.O_CREAT | os.O_APPEND, 0o644)
    res = os.path.join(log_dir, "results.csv")
    os.write(mark, b"run 0\n")
    with open(res, "w", newline="") as f:
        f.write(PROBE_OLD)
    src = os.path.join(tempfile.gettempdir(), "results_probe.csv")
    with open(src, "w", newline="") as f:
        f.write(PROBE_NEW)
    os.write(mark, b"run 1\n")
    shutil.move(src, res)
    os.write(mark, b"finished 1\n")


def _program(scn, log_dir, side):
    """what the traced child executes (`log_dir`: a path, or the directories of `_make_env_dirs`: the process then
    first gets the scenario's environment - TMPDIR, working directory - and hands log_dir to the searches the way the
    environment says, possibly as a relative path)"""
    dirs = None
    if isinstance(log_dir, dict):
        dirs, log_dir = log_dir, log_dir["log_dir"]
        _apply_env(dirs)
    log_arg = dirs["arg"] if dirs else log_dir
    if scn.get("probe") == "move":
        return _move_probe_program(log_dir, side)
    if scn.get("clock") == "const":
        time.strftime = lambda *a, **k: CONST_STAMP
    sk = scn.get("_selfkill")
    _SELFKILL.update(at=sk["at"] if sk else None, k=sk["k"] if sk else 0, n=0)
    mark = os.open(os.path.join(side, "marks.log"), os.O_WRONLY | os.O_CREAT | os.O_APPEND, 0o644)

    state = {"prev": None, "constructing": True}

    def moved():
        # the user changes directory after the search objects exist
        if dirs and dirs.get("cwd2") and state["constructing"]:
            os.chdir(dirs["cwd2"])
            state["constructing"] = False  # (a relative log_dir would now mean another directory)

    def create(idx, run):
        os.write(mark, f"run {idx}\n".encode())
        d = log_arg if state["constructing"] else log_dir
        if run.get("elsewhere"):
            d = os.path.join(side, f"elsewhere_{idx}")  # a search in another (untraced) directory
        s = _make_search(run, idx, d, side, reuse=state["prev"] if run.get("reuse") else None)
        state["prev"] = s
        os.write(mark, f"created {idx}\n".encode())
        return s

    def act(idx, run, s):
        os.write(mark, f"act {idx}\n".encode())
        _do_calls(s, run)
        res = os.path.join(log_dir, "results.csv")
        if os.path.exists(res) and not run.get("elsewhere"):
            # the harness's own read of results.csv is bracketed by markers so that it is not taken for the code's
            os.write(mark, f"snap {idx}\n".encode())
            shutil.copyfile(res, os.path.join(side, f"snap_{idx}.csv"))
            os.write(mark, f"snapped {idx}\n".encode())
        os.write(mark, f"finished {idx}\n".encode())

    if scn.get("early"):
        # every search object is constructed before the first one runs (nothing to rename yet)
        objs = [create(idx, run) for idx, run in enumerate(scn["runs"])]
        moved()
        for idx, run in enumerate(scn["runs"]):
            act(idx, run, objs[idx])
    else:
        for idx, run in enumerate(scn["runs"]):
            s = create(idx, run)
            if idx == 0:
                moved()
            act(idx, run, s)


def _frame_summary(df):
    """what a reader got out of a results file: number of rows, job ids, the text cells the run-functions log"""
    import pandas as pd

    out = {"n": int(len(df)), "columns": [str(c) for c in df.columns]}
    if "job_id" in df.columns:
        ids = []
        for v in df["job_id"].tolist():
            try:
                ids.append(int(v) if float(v) == int(v) else None)
            except (TypeError, ValueError, OverflowError):
                ids.append(None)
        out["job_id"] = ids
    out["cells"] = {c: [None if pd.isna(v) else str(v) for v in df[c].tolist()] for c in CELL_COLUMNS if c in df.columns}
    return out


def _continuation(scn, log_dir, side):
    """after a kill: pandas and fit_surrogate on what is on disk, then a new search in the same directory"""
    import pandas as pd

    from deephyper.evaluator import Evaluator
    from deephyper.hpo import CBO

    if isinstance(log_dir, dict):
        # the same environment as the killed process had (the user starts again from the same shell)
        dirs, log_dir = log_dir, log_dir["log_dir"]
        _apply_env(dirs)
        if dirs.get("cwd2"):
            os.chdir(dirs["cwd2"])
    out = {}
    last = dict(scn["runs"][-1])
    res = os.path.join(log_dir, "results.csv")
    if os.path.exists(res):
        # the search that continues is of the kind that wrote the file (number of objectives, space)
        cols = _header_of(res)
        nobj = sum(1 for c in cols if re.match(r"objective_\d+$", c))
        if nobj or "objective" in cols:
            last["nobj"] = nobj or 1
            last["wide"] = sum(1 for c in cols if re.match(r"p:w\d+$", c))
            last["cells"] = "hostile" if "p:c" in cols else "benign"
    pb = _problem(last.get("wide", 0), _is_hostile(last))
    out["cells"] = "hostile" if _is_hostile(last) else "benign"
    kw = dict(surrogate_model="ET", surrogate_model_kwargs={"n_estimators": 2}, n_initial_points=2, n_points=64,
              acq_optimizer="sampling", verbose=0)
    if os.path.exists(res):
        # a plain pandas.read_csv, as any user would reload the file
        try:
            out["pandas"] = _frame_summary(pd.read_csv(res))
        except BaseException as e:  # noqa
            out["pandas"] = {"err": f"{type(e).__name__}: {e}"[:300]}
        # fit_surrogate; what it reads through pandas.read_csv is observed from outside (the library call, not the repo)
        seen, orig = [], pd.read_csv

        def spy(*a, **k):
            df = orig(*a, **k)
            try:
                seen.append(_frame_summary(df))
            except Exception:  # noqa
                pass
            return df
        try:
            other = os.path.join(side, "fit_dir")
            s = CBO(pb, lambda job: 0.0, log_dir=other, random_state=3, **kw)
            pd.read_csv = spy
            try:
                s.fit_surrogate(res)
            finally:
                pd.read_csv = orig
            out["fit"] = "ok"
        except BaseException as e:  # noqa
            out["fit"] = f"{type(e).__name__}: {e}"[:300]
        out["fit_read"] = seen[-1:]
    before = set(os.listdir(log_dir))
    try:
        idx = len(scn["runs"])
        s2 = _make_search({**last, "kind": "cbo", "batch": 2, "fail": "none", "seed": 5, "sleep": False}, idx, log_dir, side)
        new = sorted(set(os.listdir(log_dir)) - before)
        out["new_files"] = new
        if len(new) == 1 and "fit" in out and out["fit"] == "ok":
            s2.fit_surrogate(os.path.join(log_dir, new[0]))
        df = s2.search(max_evals=2)
        out["cont"] = "ok"
        out["cont_rows"] = 0 if df is None else int(len(df))
    except BaseException as e:  # noqa
        out["cont"] = f"{type(e).__name__}: {e}"[:300]
    return out


# --------------------------------------------------------------------------- running under strace


def _fork(fn, *args):
    """run fn(*args) in a forked child that first waits for one byte on a pipe; returns (pid, go)"""
    r, w = os.pipe()
    pid = os.fork()
    if pid == 0:
        code = 3
        try:
            os.close(w)
            os.read(r, 1)
            dn = os.open(os.devnull, os.O_WRONLY)
            os.dup2(dn, 1)
            os.dup2(dn, 2)
            out = fn(*args)
            if out is not None:
                with open(os.path.join(args[-1], "child_out.json"), "w") as f:
                    json.dump(out, f)
            code = 0
        except BaseException:  # noqa
            try:
                with open(os.path.join(args[-1], "child_err.txt"), "w") as f:
                    traceback.print_exc(file=f)
            except Exception:
                pass
        finally:
            os._exit(code)
    os.close(r)
    return pid, w


def _wait(pid, timeout=CHILD_TIMEOUT):
    t0 = time.time()
    while True:
        p, status = os.waitpid(pid, os.WNOHANG)
        if p == pid:
            return status
        if time.time() - t0 > timeout:
            os.kill(pid, signal.SIGKILL)
            os.waitpid(pid, 0)
            raise HarnessError(f"traced child {pid} did not finish within {timeout}s")
        time.sleep(0.005)


def _run_traced(scn, dirs, side, inject):
    """`inject` = (system call, n, mode): SIGKILL on entry of the n-th such call - mode "P": among the calls strace's
    path filter on results.csv / results.csv.tmp selects; mode "all": among all calls of the process (for calls on
    files whose names differ from execution to execution, which no path filter can name in advance)"""
    log_dir = dirs["log_dir"]
    pid, go = _fork(_program, scn, dirs, side)
    out = os.path.join(side, "strace.txt")
    cmd = ["strace", "-f", "-y", "-s", "4000000", "-o", out, "-e", "trace=" + TRACE_SET]
    if inject:
        cmd += ["-e", f"inject={inject[0]}:signal=KILL:when={inject[1]}"]
        if len(inject) < 3 or inject[2] == "P":
            cmd += ["-P", os.path.join(log_dir, "results.csv"), "-P", os.path.join(log_dir, "results.csv.tmp")]
    cmd += ["-p", str(pid)]
    st = subprocess.Popen(cmd, stdout=subprocess.DEVNULL, stderr=subprocess.PIPE)
    t0 = time.time()
    try:
        while True:
            with open(f"/proc/{pid}/status") as f:
                tracer = [l for l in f if l.startswith("TracerPid")][0].split()[1]
            if tracer != "0":
                break
            if st.poll() is not None:
                raise HarnessError("strace exited before attaching: " + st.stderr.read().decode()[-500:])
            if time.time() - t0 > 20:
                raise HarnessError("strace did not attach within 20 s")
            time.sleep(0.002)
    except BaseException:
        os.kill(pid, signal.SIGKILL)
        os.waitpid(pid, 0)
        st.kill()
        raise
    os.write(go, b"x")
    os.close(go)
    status = _wait(pid)
    try:
        st.wait(timeout=30)
    except subprocess.TimeoutExpired:
        st.kill()
        raise HarnessError("strace did not exit")
    st.stderr.close()
    with open(out, errors="replace") as f:
        text = f.read()
    return status, pid, text


_ESC = {"n": "\n", "t": "\t", "r": "\r", "v": "\v", "f": "\f", "a": "\a", "b": "\b", '"': '"', "\\": "\\"}


def _unescape(s):
    out, i, n = [], 0, len(s)
    while i < n:
        c = s[i]
        if c != "\\":
            out.append(c)
            i += 1
            continue
        i += 1
        c = s[i]
        if c in _ESC:
            out.append(_ESC[c])
            i += 1
        elif c == "x":
            out.append(chr(int(s[i + 1:i + 3], 16)))
            i += 3
        elif c in "01234567":
            j = i
            while j < n and j < i + 3 and s[j] in "01234567":
                j += 1
            out.append(chr(int(s[i:j], 8)))
            i = j
        else:
            out.append(c)
            i += 1
    return "".join(out)


_STR = r'"((?:[^"\\]|\\.)*)"'


RESULT_RE = re.compile(r"^results(_(\d{8}-\d{6})(_(\d+))?)?\.csv(\.tmp)?$")
_MOVE_CALLS = ("rename", "renameat", "renameat2", "link", "linkat")
_COPY_CALLS = ("sendfile", "copy_file_range")
_FDPATH = r"\d+<([^>]*)>"


def _is_result_name(n):
    return bool(RESULT_RE.match(n))


def _is_ext(n):
    """canonical name of a file that is no result file itself but is moved / copied onto one (`<where>/#k`)"""
    return n.startswith("<") and "/#" in n


def _pure_ext(o):
    """a call that concerns nothing but files which are no result files (yet)"""
    return bool(o.get("ext")) and not any(_is_result_name(str(o.get(x, ""))) for x in ("n", "to"))


def _parse_strace(text, pid, log_dir, marks=None, dirs=None):
    """system calls of the traced process that touch a result file of log_dir, or a file (in whatever directory) that
    the process later renames / links / copies onto a result file of log_dir -> list of raw ops.
    `marks` = path of the marker file: every op gets `sid` = index of the search being run, i.e. the
    number of 'run i' marker writes seen before it, minus one (only visible without the -P filter).
    `dirs` = the directories of the execution's environment: relative paths are resolved against the working
    directories, files outside log_dir are named after the directory they are in (`<TMPDIR>/#0`, `<cwd>/#1`, ...:
    temporary names differ from execution to execution).  Every op carries `ord` = (thread, its ordinal among ALL calls
    of that system call by that thread since strace attached) and `pmatch` = would strace's -P filter on results.csv /
    results.csv.tmp select the call"""
    pref = log_dir.rstrip("/") + "/"
    cwds = [c for c in ((dirs or {}).get("cwd"), (dirs or {}).get("cwd2")) if c]
    tmpd = (dirs or {}).get("tmp")
    pnames = (pref + "results.csv", pref + "results.csv.tmp")
    relhints = []
    for c in cwds:
        c = c.rstrip("/") + "/"
        if pref.startswith(c):
            relhints += ['"' + pref[len(c):], '"./' + pref[len(c):]]

    def resolve(path):
        if path.startswith("/") or not cwds:
            return os.path.normpath(path) if path.startswith("/") and ("/./" in path or "/../" in path or "//" in path) else path
        cands = [os.path.normpath(os.path.join(c, path)) for c in cwds]
        return next((x for x in cands if x.startswith(pref)), cands[0])

    # pass 1: whole calls in the order they were entered (per thread), with their ordinals
    pend, calls, nth = {}, [], {}
    for line in text.splitlines():
        m = re.match(r"(\d+)\s+(.*)$", line)
        if not m:
            continue
        p, rest = m.group(1), m.group(2)
        if rest.startswith(("+++", "---")):
            continue
        if rest.endswith("<unfinished ...>"):
            pend[p] = rest[: -len("<unfinished ...>")].rstrip()
            continue
        m2 = re.match(r"<\.\.\. \w+ resumed>(.*)$", rest)
        if m2:
            rest = pend.pop(p, "") + m2.group(1).lstrip()
        name = rest[: rest.find("(")] if "(" in rest else ""
        if not name.isidentifier():
            continue
        nth[(p, name)] = nth.get((p, name), 0) + 1
        calls.append((p, name, nth[(p, name)], rest))
    for p, rest in pend.items():  # a call the process was killed in (never resumed)
        name = rest[: rest.find("(")] if "(" in rest else ""
        if name.isidentifier():
            nth[(p, name)] = nth.get((p, name), 0) + 1
            calls.append((p, name, nth[(p, name)], rest + ") = ?"))

    def in_dir(path):
        return path.startswith(pref) and _is_result_name(path[len(pref):])

    # pass 2: files that are moved / linked / copied onto a result file of log_dir
    foreign = {}
    for p, name, n, rest in calls:
        src = dst = None
        if name in _MOVE_CALLS:
            ps = [resolve(_unescape(x)) for x in re.findall(_STR, rest)]
            if len(ps) >= 2:
                src, dst = ps[-2], ps[-1]
        elif name in _COPY_CALLS:
            fds = re.findall(_FDPATH, rest)
            if len(fds) >= 2:
                dst, src = (fds[0], fds[1]) if name == "sendfile" else (fds[1], fds[0])
        if src and dst and in_dir(dst) and not in_dir(src) and src not in foreign:
            d = os.path.dirname(src)
            where = "<log_dir>" if src.startswith(pref) else "<TMPDIR>" if d == tmpd else "<cwd>" if d in cwds else "<" + d + ">"
            foreign[src] = f"{where}/#{len(foreign)}"

    def rel(path):
        if path in foreign:
            return foreign[path]
        return path[len(pref):] if path.startswith(pref) else None

    ops = []
    sid, harness = 0, False
    for p, name, n, rest in calls:
        if marks and name == "write" and ("<" + marks + ">") in rest:
            mm = re.search(r'"(?:run|act) (\d+)', rest)
            if mm:
                sid = int(mm.group(1))
            if '"snap ' in rest:
                harness = True
            if '"snapped ' in rest:
                harness = False
            continue
        if pref not in rest and not any(f in rest for f in foreign) and not any(h in rest for h in relhints):
            continue
        m = re.match(r"(\w+)\((.*)\)\s+=\s+(\S+)(?:\s+([A-Z]+))?", rest, re.S)
        if not m:
            raise HarnessError("cannot parse strace line: " + rest[:200])
        name, args, ret, errno = m.groups()
        killed = ret == "?"
        failed = ret.startswith("-")
        strs = [_unescape(x) for x in re.findall(_STR, args)] if name not in ("write", "pwrite64", "writev") else []
        fds = re.findall(_FDPATH, args if name not in ("write", "pwrite64", "writev") else args[:args.find(">") + 1])
        op = None
        if name in ("openat", "open", "creat"):
            pm = re.search(_STR + r",\s*([A-Z_|0-9a-z]+)", args)
            if not pm:
                raise HarnessError("cannot parse open: " + rest[:200])
            path, flags = resolve(_unescape(pm.group(1))), pm.group(2).split("|")
            strs = [_unescape(pm.group(1))]
            if rel(path) is None:
                continue
            kind = ("openR" if "O_RDONLY" in flags else "openW" if "O_TRUNC" in flags or ("O_CREAT" in flags and "O_EXCL" in flags) else
                    "openA" if "O_APPEND" in flags else "openX")
            if "O_DIRECTORY" in flags:
                continue
            op = {"op": kind, "n": rel(path), "sys": name}
        elif name in ("write", "pwrite64", "writev"):
            fm = re.match(r"\d+<([^>]*)>,\s*" + _STR, args, re.S)
            if not fm:
                raise HarnessError("cannot parse write: " + rest[:200])
            if rel(fm.group(1)) is None:
                continue
            op = {"op": "write", "n": rel(fm.group(1)), "data": _unescape(fm.group(2)), "sys": name}
        elif name == "close":
            fm = re.match(r"\d+<([^>]*)>", args)
            if not fm or rel(fm.group(1)) is None:
                continue
            op = {"op": "close", "n": rel(fm.group(1)), "sys": name}
        elif name in ("rename", "renameat", "renameat2"):
            if len(strs) != 2:
                raise HarnessError("cannot parse rename: " + rest[:200])
            ps = [resolve(x) for x in strs]
            if rel(ps[0]) is None and rel(ps[1]) is None:
                continue
            op = {"op": "rename", "n": rel(ps[0]) or ps[0], "to": rel(ps[1]) or ps[1], "sys": name}
        elif name in _COPY_CALLS and len(fds) >= 2:
            dst, src = (fds[0], fds[1]) if name == "sendfile" else (fds[1], fds[0])
            if rel(dst) is None and rel(src) is None:
                continue
            if rel(dst) is not None:
                # the kernel copies bytes of `from` to the end of `n`: a write whose payload strace does not show
                op = {"op": "copy", "n": rel(dst), "from": rel(src) or src, "bytes": ret, "sys": name}
            else:
                op = {"op": name, "n": rel(src), "sys": name}
        else:
            ps = [resolve(x) for x in strs] + fds
            ps = [rel(x) for x in ps if rel(x) is not None]
            if not ps:
                continue
            op = {"op": name, "n": ps[0], "sys": name}
        op["sid"] = sid
        op["ord"] = [p, n]
        # (strace 6.1 compares only the FIRST path of rename / link with its -P set: observed)
        op["pmatch"] = any(x in pnames for x in (strs[:1] if name in _MOVE_CALLS else strs) + fds)
        if any(_is_ext(str(op.get(x, ""))) for x in ("n", "to", "from")):
            op["ext"] = True
        if harness:
            op["harness"] = True
        if killed:
            op["killed"] = True
        if failed:
            op["failed"] = errno or ret
        ops.append(op)
    return ops


def _result_ops(raw):
    """ops on result files, and on files that are moved / copied onto result files (context.yaml etc. are not C15's
    business)"""
    return [o for o in raw if o.get("ext") or _is_result_name(o["n"]) or ("to" in o and _is_result_name(o["to"]))]


def _tag_lines(ops):
    """turn write payloads into line tags; `sid` = index of the search that produced the file.
    Tracks, per file name, the header (for the job_id column) and the owner search."""
    hdr, owner = {}, {}
    for o in ops:
        sid = o.get("sid", 0)
        if o.get("failed"):
            continue
        if o["op"] == "rename":
            if o["n"] in hdr:
                hdr[o["to"]] = hdr.pop(o["n"])
            if o["n"] in owner:
                owner[o["to"]] = owner.pop(o["n"])
        elif o["op"] == "copy":
            if o["from"] in hdr:
                hdr[o["n"]] = hdr[o["from"]]
        elif o["op"] == "openW":
            owner[o["n"]] = sid
            hdr.pop(o["n"], None)
        elif o["op"] == "openA":
            owner.setdefault(o["n"], sid)
        elif o["op"] == "write":
            data, n = o["data"], o["n"]
            # the payload as the CSV records a reader sees in it (a cell may hold line breaks inside quotes)
            raw, _, complete = _csv_scan(data)
            o["complete"] = complete
            pieces = [(r, k == len(raw) - 1 and not complete) for k, r in enumerate(raw) if r]
            tags = []
            for cells, torn in pieces:
                if "job_id" in cells and not torn:
                    hdr[n] = cells
                    tags.append(["h", cells[-1] == "pareto_efficient"])
                    o["objective_columns"] = sum(1 for c in cells if c == "objective" or re.match(r"objective_\d+$", c))
                    continue
                h = hdr.get(n)
                if h is None:
                    tags.append(["t", owner.get(n, sid), 0])
                    continue
                base = len(h) - (1 if h[-1] == "pareto_efficient" else 0)
                try:
                    jc = cells[h.index("job_id")]
                    jid = int(jc) if jc.isascii() and jc.isdigit() else None
                except Exception:
                    jid = None
                if jid is None:
                    tags.append(["t", owner.get(n, sid), 0])
                    continue
                if torn or len(cells) not in (base, base + 1):
                    tags.append(["t", owner.get(n, sid), jid])
                else:
                    tags.append(["r", owner.get(n, sid), jid, len(cells) == base + 1])
            o["lines"] = tags
    return owner


def _canon(o, unordered=False):
    c = {"op": o["op"], "n": o["n"]}
    if "to" in o:
        c["to"] = RESULT_RE.sub(lambda m: "results_<t>" + (m.group(3) or "") + ".csv" if m.group(2) else m.group(0), o["to"]) if unordered else o["to"]
    if "lines" in o:
        c["lines"] = sorted(o["lines"], key=repr) if unordered else o["lines"]
    if "from" in o:
        c["from"] = o["from"]
    if o.get("failed"):
        c["failed"] = o["failed"]  # (the model's calls all succeed)
    return c


def _matched(o):
    """does strace's `-P results.csv -P results.csv.tmp` filter select this call?"""
    if "pmatch" in o:
        return o["pmatch"]
    return any(x in ("results.csv", "results.csv.tmp") for x in [o["n"]] + ([o["to"]] if "to" in o else []))


def _read_dir(d):
    out = {}
    for n in sorted(os.listdir(d)):
        p = os.path.join(d, n)
        if os.path.isfile(p):
            with open(p, "rb") as f:
                out[n] = f.read().decode("utf-8", "replace")
    return out


def _task(task):
    """pool worker: one traced execution (+ optional kill, + continuation after a kill) in the scenario's environment
    (log_dir / system temporary directory / working directory on the file systems it names)"""
    scn, inject = task["scn"], task.get("inject")
    env = _env_of(scn)
    base = tempfile.mkdtemp(prefix="s", dir=_scratch(env["log"]))
    dirs = {"extra": []}
    try:
        dirs = _make_env_dirs(env, base)
        log_dir, side = dirs["log_dir"], os.path.join(base, "side")
        os.makedirs(side)
        if task.get("selfkill"):
            cpid, go = _fork(_program, {**scn, "_selfkill": task["selfkill"]}, dirs, side)
            os.write(go, b"x")
            os.close(go)
            status, raw = _wait(cpid), []
        else:
            status, pid, text = _run_traced(scn, dirs, side, inject)
            raw = _parse_strace(text, pid, log_dir, os.path.join(side, "marks.log"), dirs)
        sidefiles = _read_dir(side)
        out = {"status": status, "ops": _result_ops(raw),
               "dumped": [l for l in sidefiles.get("dumped.log", "").split("\n") if l],
               "files": {n: t for n, t in _read_dir(log_dir).items() if _is_result_name(n)},
               "done": [l for l in sidefiles.get("done.log", "").split("\n") if l],
               "marks": [l for l in sidefiles.get("marks.log", "").split("\n") if l],
               "snaps": {n: t for n, t in sidefiles.items() if n.startswith("snap_")},
               "err": sidefiles.get("child_err.txt"),
               "tmp_on_log_dev": os.stat(dirs["tmp"]).st_dev == os.stat(log_dir).st_dev}
        if task.get("torn"):
            out["torn"] = _torn_variants(raw, log_dir, base)
        if task.get("post"):
            side2 = os.path.join(base, "side2")
            os.makedirs(side2)
            cpid, go = _fork(_continuation, scn, dirs, side2)
            os.write(go, b"x")
            os.close(go)
            cst = _wait(cpid)
            s2 = _read_dir(side2)
            out["post"] = json.loads(s2["child_out.json"]) if "child_out.json" in s2 else {"crash": s2.get("child_err.txt", f"status {cst}")}
            out["files_after"] = {n: t for n, t in _read_dir(log_dir).items() if _is_result_name(n)}
            out["done_after"] = [l for l in s2.get("done.log", "").split("\n") if l]
        return out
    finally:
        shutil.rmtree(base, ignore_errors=True)
        for d in dirs.get("extra", []):
            shutil.rmtree(d, ignore_errors=True)


def _fit_file(path, base):
    """does the real CBO.fit_surrogate accept this file? (space read off its header)"""
    from deephyper.hpo import CBO

    try:
        cols = _header_of(path)
        wide = sum(1 for c in cols if re.match(r"p:w\d+$", c))
        s = CBO(_problem(wide, "p:c" in cols), lambda job: 0.0, log_dir=os.path.join(base, "fitld"), random_state=1,
                surrogate_model="ET", surrogate_model_kwargs={"n_estimators": 2}, n_points=64, acq_optimizer="sampling")
        s.fit_surrogate(path)
        return "ok"
    except Exception as e:  # noqa
        return f"{type(e).__name__}: {e}"[:200]


def _torn_variants(raw, log_dir, base):
    """second injection mode: the write(2) on whose entry the process was killed is executed PARTIALLY
    (its first m bytes reach the file), as if the kernel had torn it; returns what results.csv then holds
    and what fit_surrogate makes of it, for a few offsets m"""
    kop = next((o for o in reversed(raw) if o.get("killed")), None)
    if kop is None or kop["op"] != "write" or not _is_result_name(kop["n"]):
        return []
    # strace printed the payload byte by byte (everything outside printable ASCII escaped): latin-1 gives the bytes back
    data = kop["data"].encode("latin-1", "replace")
    n = len(data)
    cuts = {1, n // 2, n - 1}
    nl = data.find(b"\n")
    if 0 <= nl < n - 1:
        cuts.add(nl + 1)  # exactly after a complete line
        cuts.add(nl + 1 + max(1, (n - nl) // 3))
    last = data.rstrip(b"\r\n").rfind(b"\n") + 1
    cuts.add(last + max(1, (n - last) // 2))  # inside the last line
    out = []
    for m in sorted(c for c in cuts if 0 < c < n):
        d = os.path.join(base, f"torn_{m}")
        shutil.copytree(log_dir, d)
        with open(os.path.join(d, kop["n"]), "ab") as f:
            f.write(data[:m])
        res = os.path.join(d, "results.csv")
        text = None
        if os.path.exists(res):
            with open(res, "rb") as f:
                text = f.read().decode("utf-8", "replace")
        out.append({"m": m, "of": n, "target": kop["n"], "text": text,
                    "fit": _fit_file(res, d) if text is not None else None,
                    "ends_line": data[:m].endswith(b"\n")})
        shutil.rmtree(d, ignore_errors=True)
    return out


def _mutations(text):
    ends = _csv_scan(text)[1]
    lines = [text[a:b] for a, b in zip([0] + ends[:-1], ends)]  # one piece per record (cells may hold line breaks)
    H, R = lines[0], lines[1:]
    ext = H.strip().endswith("pareto_efficient")
    out = {"intact": text, "empty": "", "no-header": "".join(R), "header-only": H,
           "header-among-rows": H + R[0] + H + "".join(R[1:])}
    if not ext:
        out["row-with-extra-cell"] = H + R[0].rstrip("\r\n") + ",True\n" + "".join(R[1:])
    else:
        out["row-without-pareto-cell"] = H + R[0].rstrip("\r\n").rsplit(",", 1)[0] + "\r\n" + "".join(R[1:])
    return out


def _task_fit(task):
    """pool worker: does the real CBO.fit_surrogate accept these files?"""
    from deephyper.hpo import CBO

    base = tempfile.mkdtemp(prefix="m", dir=_scratch())
    out = {}
    try:
        for name, text in task["texts"].items():
            path = os.path.join(base, "f.csv")
            with open(path, "w", newline="") as f:
                f.write(text)
            try:
                s = CBO(_problem(task["wide"], task.get("hostile", False)), lambda job: 0.0, log_dir=os.path.join(base, "ld"), random_state=1,
                        surrogate_model="ET", surrogate_model_kwargs={"n_estimators": 2}, n_points=64, acq_optimizer="sampling")
                s.fit_surrogate(path)
                out[name] = "ok"
            except Exception as e:  # noqa
                out[name] = f"{type(e).__name__}: {e}"[:200]
    finally:
        shutil.rmtree(base, ignore_errors=True)
    return out


def _init_worker():
    """imports and one tiny search of each kind, so that forked children do no lazy imports under strace"""
    common.use_repo_sources()
    import logging

    logging.disable(logging.CRITICAL)
    base = tempfile.mkdtemp(prefix="warm", dir=_scratch())
    try:
        for kind, nobj, cells in (("random", 1, "benign"), ("cbo", 2, "hostile")):
            # only a warm-up: whatever the tree under test does here is found (and reported) by the traced runs
            try:
                ld = os.path.join(base, kind)
                os.makedirs(ld)
                s = _make_search({"kind": kind, "nobj": nobj, "batch": 2, "calls": [4], "cells": cells}, 0, ld, base)
                s.search(max_evals=4)
                s2 = _make_search({"kind": "cbo", "nobj": nobj, "batch": 1, "calls": [1], "cells": cells}, 1, ld, base)
                s2.fit_surrogate(sorted(os.path.join(ld, n) for n in os.listdir(ld) if n.startswith("results_"))[0])
                s2.search(max_evals=1)
            except Exception:  # noqa
                pass
    finally:
        shutil.rmtree(base, ignore_errors=True)


def _scratch(fs=0):
    """per-run scratch directory on file system number `fs` (taken modulo the number of writable file systems
    found; the pool workers get the list through the environment)"""
    d = os.environ.get("C15_SCRATCH", SCRATCH)
    if fs:
        try:
            others = json.loads(os.environ.get("C15_FS", "[]"))
        except ValueError:
            others = []
        if others:
            d = ([d] + others)[fs % (len(others) + 1)]
    os.makedirs(d, exist_ok=True)
    return d


def _n_fs():
    try:
        return 1 + len(json.loads(os.environ.get("C15_FS", "[]")))
    except ValueError:
        return 1


def _detect_filesystems(ck=None):
    """Which distinct writable file systems does this machine offer?  File system 0 is the one of the scratch
    directory; every candidate directory on another device (os.stat().st_dev) in which a directory can be created and a
    file written gives one more.  Sets C15_FS (scratch directories on the other file systems) for the pool workers;
    returns the description that goes into the evidence."""
    tag = f"g11_c15_{os.getpid()}"
    d0 = os.environ.get("C15_SCRATCH", SCRATCH)
    os.makedirs(d0, exist_ok=True)
    seen = {os.stat(d0).st_dev: d0}
    cands = [tempfile.gettempdir(), os.environ.get("TMPDIR") or ""] + [os.path.expanduser(c) for c in FS_CANDIDATES]
    for c in cands:
        try:
            if not c or not os.path.isdir(c):
                continue
            # scratch directories left on other file systems by runs that were killed (their process is gone)
            for n in os.listdir(c):
                m = re.match(r"g11_c15_(\d+)$", n)
                if m and not os.path.exists(f"/proc/{m.group(1)}"):
                    shutil.rmtree(os.path.join(c, n), ignore_errors=True)
            if os.stat(c).st_dev in seen:
                continue
            d = os.path.join(c, tag)
            os.makedirs(d, exist_ok=True)
            with open(os.path.join(d, "probe"), "w") as f:
                f.write("x")
            os.unlink(os.path.join(d, "probe"))
            if os.stat(d).st_dev in seen:
                shutil.rmtree(d, ignore_errors=True)
                continue
            seen[os.stat(d).st_dev] = d
        except OSError:
            continue
    dirs = list(seen.values())
    os.environ["C15_FS"] = json.dumps(dirs[1:])
    desc = {"writable_file_systems": [{"dir": d, "st_dev": dev} for dev, d in seen.items()]}
    if len(dirs) == 1:
        desc["note"] = ("only ONE writable file system found among " + ", ".join(sorted(set(c for c in cands if c))) +
                        ": the dimension 'system temporary directory / working directory on another file system than log_dir' "
                        "is NOT exercised on this machine (every such environment falls back to the single file system; counted "
                        "as env:cross-device-unavailable)")
    if ck is not None:
        ck.extra_cov["environment"] = desc
    return dirs


def _cleanup_filesystems():
    if os.environ.get("C15_SCRATCH"):
        shutil.rmtree(os.environ["C15_SCRATCH"], ignore_errors=True)
    try:
        for d in json.loads(os.environ.get("C15_FS", "[]")):
            shutil.rmtree(d, ignore_errors=True)
    except ValueError:
        pass


def _env_of(scn):
    """the environment of a scenario's process: {"log": i, "tmp": j, "cwd": kind} - log_dir on file system i, the
    system temporary directory (TMPDIR, tempfile.gettempdir()) a private directory on file system j, the working
    directory: `same` = a private directory on log_dir's file system, `other` = on another one, `parent` = the parent of
    log_dir, which is then given to the search as a RELATIVE path, `moved` = like parent while the searches are
    constructed, then the process changes to a directory elsewhere (another file system when there is one)"""
    e = dict(DEFAULT_ENV)
    e.update(scn.get("env") or {})
    return e


def _env_key(env):
    n = _n_fs()
    cross = n > 1 and (env["tmp"] % n) != (env["log"] % n)
    return f"env:log=fs{env['log'] % n},tmp={'other' if cross else 'same'}-fs,cwd={env['cwd']}"


def _make_env_dirs(env, base):
    """the directories of one execution: (log_dir as created, log_dir as handed to the search, TMPDIR, cwd at start,
    cwd after the searches are constructed or None, extra directories to remove afterwards)"""
    n = _n_fs()
    lfs = env["log"] % n
    extra = []
    log_dir = os.path.join(base, "ld")
    os.makedirs(log_dir)
    tfs = env["tmp"] % n
    if tfs == lfs:
        tmpd = os.path.join(base, "tmpdir")
        os.makedirs(tmpd)
    else:
        tmpd = tempfile.mkdtemp(prefix="t", dir=_scratch(tfs))
        extra.append(tmpd)
    kind = env.get("cwd", "same")
    ofs = (lfs + 1) % n

    def private(fs):
        if fs == lfs:
            d = os.path.join(base, "cwd")
            os.makedirs(d, exist_ok=True)
        else:
            d = tempfile.mkdtemp(prefix="w", dir=_scratch(fs))
            extra.append(d)
        return d
    arg, cwd2 = log_dir, None
    if kind == "parent":
        cwd, arg = base, "ld"
    elif kind == "moved":
        cwd, arg, cwd2 = base, "ld", private(ofs)
    elif kind == "other":
        cwd = private(ofs)
    else:
        cwd = private(lfs)
    return {"log_dir": log_dir, "arg": arg, "tmp": tmpd, "cwd": cwd, "cwd2": cwd2, "extra": extra}


def _apply_env(dirs):
    """in the child: the process environment a user's shell would have set up"""
    os.environ["TMPDIR"] = dirs["tmp"]
    tempfile.tempdir = None  # (documented: gettempdir() looks at TMPDIR again)
    os.chdir(dirs["cwd"])


# --------------------------------------------------------------------------- model side


def _groups(ops):
    """split the result-file ops of a recorded run into protocol groups"""
    gs, i, n = [], 0, len(ops)
    while i < n:
        o = ops[i]
        if o["op"] == "rename" and o["n"] == "results.csv":
            gs.append({"kind": "backup", "ops": [i]})
            i += 1
        elif o["op"] in ("openW", "openA"):
            j = i + 1
            while j < n and ops[j]["op"] in ("write", "copy") and ops[j]["n"] == o["n"]:
                j += 1
            if j < n and ops[j]["op"] == "close" and ops[j]["n"] == o["n"]:
                j += 1
            if (o["n"] != "results.csv" and j + 1 < n and ops[j]["op"] == "rename" and ops[j]["n"] == "results.csv"
                    and ops[j + 1]["op"] == "rename" and ops[j + 1]["n"] == o["n"]):
                j += 1  # a results.csv written by another search is renamed before the temporary file is moved in
            if j < n and ops[j]["op"] == "rename" and ops[j]["n"] == o["n"] and o["n"] != "results.csv":
                j += 1
            gs.append({"kind": "write", "ops": list(range(i, j))})
            i = j
        elif o["op"] == "openR" and o["n"] == "results.csv":
            j = i + 1
            if j < n and ops[j]["op"] == "close" and ops[j]["n"] == o["n"]:
                j += 1
            gs.append({"kind": "read", "ops": list(range(i, j))})
            i = j
        else:
            gs.append({"kind": "other", "ops": [i]})
            i += 1
    # inside an end-of-search (after its first read_csv, before its second) a write group is the Pareto
    # rewrite; everywhere else it is a dump.  Reads are counted per search.
    nread = {}
    for g in gs:
        sid = ops[g["ops"][0]].get("sid", 0)
        if g["kind"] == "read":
            nread[sid] = nread.get(sid, 0) + 1
        else:
            g["in_end"] = nread.get(sid, 0) % 2 == 1  # whatever the call: it is made by the end-of-search rewrite
            if g["kind"] == "write":
                g["kind"] = "rewrite" if g["in_end"] else "dump"
    return gs


def _phase_of(ops, gs, k):
    """protocol phase of op index k (0-based); k == len(ops) is 'after the last call'"""
    for a, g in enumerate(gs):
        if k in g["ops"]:
            if g["kind"] == "backup":
                return "Search.__init__"
            if g["kind"] == "rewrite" or (g["kind"] == "other" and g.get("in_end")):
                return "pareto-rewrite"
            if g["kind"] == "dump":
                first = ops[g["ops"][0]]
                creating = first["op"] == "openW"
                return "first-dump" if creating else "append-dump"
            if g["kind"] == "read":
                return "end-of-search-read"
            return "other"
    return "finished"


def _acts_of(scn, rec):
    """the model's input: per search the actions, with the environment choices read off the trace"""
    ops = rec["code_ops"]
    gs = _groups(ops)
    runs = [{"stamp": CONST_STAMP if scn.get("clock") == "const" else "", "acts": [], "cut": 10 ** 9} for _ in scn["runs"]]
    nread = {}
    for g in gs:
        first = ops[g["ops"][0]]
        sid = first.get("sid", 0)
        if sid >= len(runs):
            raise HarnessError("op attributed to a search that does not exist")
        acts = runs[sid]["acts"]
        if g["kind"] == "backup":
            m = RESULT_RE.match(first["to"])
            if m and m.group(2):
                runs[sid]["stamp"] = m.group(2)
        elif g["kind"] == "dump":
            ws = [ops[i] for i in g["ops"] if ops[i]["op"] == "write"]
            lines = [l for w in ws for l in w["lines"]]
            js = [[l[1], l[2]] for l in lines if l[0] in ("r", "t")]
            for j in js:
                acts.append({"a": "finish", "j": j})
            stamp = CONST_STAMP if scn.get("clock") == "const" else ""
            for i in g["ops"]:
                if ops[i]["op"] == "rename" and ops[i]["n"] == "results.csv":
                    m = RESULT_RE.match(ops[i]["to"])
                    stamp = m.group(2) if m and m.group(2) else stamp
            acts.append({"a": "dump", "js": js, "sizes": [len(w["lines"]) for w in ws], "stamp": stamp})
        elif g["kind"] == "rewrite":
            ws = [ops[i] for i in g["ops"] if ops[i]["op"] == "write"]
            # belongs to the preceding read group's endCall: patch its sizes
            for a in reversed(acts):
                if a["a"] == "end":
                    a["sizes"] = [len(w["lines"]) for w in ws]
                    break
        elif g["kind"] == "read":
            nread[sid] = nread.get(sid, 0) + 1
            if nread[sid] % 2 == 1:
                # the Pareto rewrite is made iff the table has several objective columns; that is the number of
                # objectives of the run-function, except when no evaluation had succeeded when the header was
                # written (C04: a single `objective` column then)
                ncol = next((o["objective_columns"] for o in ops if o.get("sid", 0) == sid and "objective_columns" in o), None)
                nobj = scn["runs"][sid]["nobj"]
                if ncol is not None and ncol != nobj and scn["runs"][sid].get("fail", "none") == "none":
                    raise HarnessError(f"header has {ncol} objective columns for a run-function with {nobj} objectives")
                acts.append({"a": "end", "multi": (ncol if ncol is not None else nobj) > 1, "sizes": []})
    if scn.get("early"):
        # one process; the searches after the first were constructed when the directory was empty
        acts = list(runs[0]["acts"])
        for r in runs[1:]:
            acts += [{"a": "resume"}] + r["acts"]
        runs = [{"stamp": runs[0]["stamp"], "acts": acts, "cut": 10 ** 9}]
    elif any(r.get("reuse") or r.get("elsewhere") for r in scn["runs"]):
        # one process; a search given the evaluator of the previous one is `recreate`; searches in another
        # directory leave no trace here
        here = [(r, m) for r, m in zip(scn["runs"], runs) if not r.get("elsewhere")]
        acts = []
        for i, (r, m) in enumerate(here):
            if i:
                acts.append({"a": "recreate" if r.get("reuse") else "create", "stamp": m["stamp"]})
            acts += m["acts"]
        runs = [{"stamp": here[0][1]["stamp"] if here else "", "acts": acts, "cut": 10 ** 9}]
    return runs, gs


def _jobs(lines):
    return [[l[1], l[2]] for l in lines if l[0] in ("r", "t")]


def _dumped_jobs(lines, sid=None):
    out = []
    for l in lines:
        for tok in l.split():
            a, b = tok.split(".")
            if sid is None or int(a) == sid:
                out.append([int(a), int(b)])
    return out


def _done_status(done):
    """(search, job) -> 'F' or the number of objectives the run-function returned"""
    out = {}
    for l in done:
        t = l.split(" ", 2)
        a, b = t[0].split(".")
        out[(int(a), int(b))] = "F" if len(t) < 2 or t[1] == "F" else int(t[1])
    return out


def _done_cells(done, sid):
    """job id -> {column: text} the run-functions of search `sid` logged (searches that log cells only)"""
    out = {}
    for l in done:
        t = l.split(" ", 2)
        a, b = t[0].split(".")
        if int(a) == sid and len(t) == 3:
            out[int(b)] = {k: v for k, v in json.loads(t[2]).items() if isinstance(v, str)}
    return out


def _bad_objective_rows(text, sid, status):
    """rows of evaluations that SUCCEEDED (completion log) must carry their objectives: as many objective columns
    as the run-function returned values, every cell a number"""
    rows = _records(text)
    if len(rows) < 2 or "job_id" not in rows[0]:
        return []
    h = rows[0]
    cols = [i for i, c in enumerate(h) if c == "objective" or re.match(r"objective_\d+$", c)]
    jc, bad = h.index("job_id"), []
    for r in rows[1:]:
        try:
            st = status.get((sid, int(r[jc])))
        except (ValueError, IndexError):
            continue  # not the row of an evaluation: the shape clauses say so
        if not isinstance(st, int):
            continue
        ok = len(cols) == st and len(r) > max(cols)
        if ok:
            try:
                [float(r[i]) for i in cols]
            except ValueError:
                ok = False
        if not ok:
            bad.append({"job": int(r[jc]), "objectives_returned": st, "objective_columns": [h[i] for i in cols],
                        "cells": [r[i] if i < len(r) else None for i in cols]})
    return bad


def _done_jobs(done):
    out = []
    for l in done:
        a, b = l.split(" ", 1)[0].split(".")
        out.append([int(a), int(b)])
    return out


# --------------------------------------------------------------------------- scenarios


def _scenarios(ck):
    rng = ck.rng
    core = [
        # multi-objective: the Pareto rewrite (10a), two calls
        {"runs": [{"kind": "random", "nobj": 2, "batch": 2, "calls": [3, 2]}]},
        # single objective CBO, three calls
        {"runs": [{"kind": "cbo", "nobj": 1, "batch": 1, "calls": [3, 1, 1]}]},
        # wide rows: one dump needs several write() calls
        {"runs": [{"kind": "random", "nobj": 2, "batch": 8, "calls": [9], "wide": 90}]},
        # the first batch fails entirely (nothing can be written yet), then successes
        {"runs": [{"kind": "random", "nobj": 1, "batch": 2, "calls": [5], "fail": "first"}]},
        # every evaluation fails: the forced dump at the end of search()
        {"runs": [{"kind": "random", "nobj": 1, "batch": 2, "calls": [3], "fail": "all"}]},
        # three searches in one directory, same time stamp (10b), the last one is killed
        {"clock": "const", "runs": [{"kind": "random", "nobj": 1, "batch": 2, "calls": [2]},
                                    {"kind": "random", "nobj": 2, "batch": 2, "calls": [2]},
                                    {"kind": "cbo", "nobj": 1, "batch": 3, "calls": [3]}]},
        # CBO, three objectives
        {"runs": [{"kind": "cbo", "nobj": 3, "batch": 4, "calls": [6, 2]}]},
        {"runs": [{"kind": "random", "nobj": 1, "batch": 4, "calls": [6, 2], "fail": "some"}]},
        # multi-objective searches with failing evaluations: first batch / some / all
        {"runs": [{"kind": "random", "nobj": 2, "batch": 2, "calls": [5], "fail": "first"}]},
        {"runs": [{"kind": "cbo", "nobj": 2, "batch": 3, "calls": [5, 2], "fail": "some"}]},
        {"runs": [{"kind": "random", "nobj": 3, "batch": 2, "calls": [3], "fail": "all"}]},
        # CBO with every option at its default (fits its surrogate after 10 evaluations), DUMMY surrogate
        {"runs": [{"kind": "cbo-default", "nobj": 1, "batch": 4, "calls": [13]}]},
        {"runs": [{"kind": "cbo-dummy", "nobj": 2, "batch": 2, "calls": [4]}]},
        # the other search classes
        {"runs": [{"kind": "eds", "nobj": 1, "batch": 3, "calls": [4, 2]}]},
        {"runs": [{"kind": "regevo", "nobj": 2, "batch": 2, "calls": [6]}]},
        # search(timeout=1) with evaluations that take time: rows of CANCELLED jobs (their run-function returned
        # after the deadline), then a second call by budget
        {"runs": [{"kind": "random", "nobj": 2, "batch": 3, "calls": [{"t": 1}, 2], "sleep": True}]},
        # one evaluator serves a search in another directory, then searches here (10e), same time stamp
        {"clock": "const", "runs": [{"kind": "random", "nobj": 1, "batch": 2, "calls": [2], "elsewhere": True},
                                    {"kind": "random", "nobj": 1, "batch": 2, "calls": [3, 1], "reuse": True},
                                    {"kind": "cbo", "nobj": 1, "batch": 1, "calls": [2], "reuse": True}]},
        # stored text with CSV-special characters (metadata strings returned by the run-function, the value of a
        # categorical hyperparameter, the failure label): rows appended by the evaluator, rewritten by the end of a
        # multi-objective search(), appended again after a rewrite, rewritten again
        {"runs": [{"kind": "random", "nobj": 2, "batch": 2, "calls": [3, 2], "cells": "hostile", "seed": 0}]},
        {"runs": [{"kind": "cbo-dummy", "nobj": 3, "batch": 2, "calls": [5], "fail": "some", "cells": "hostile", "seed": 14}]},
        # ... a second search in the same directory after a rewritten file, same time stamp
        {"clock": "const", "runs": [{"kind": "random", "nobj": 2, "batch": 3, "calls": [3], "cells": "hostile", "seed": 7},
                                    {"kind": "regevo", "nobj": 2, "batch": 2, "calls": [2, 2], "cells": "hostile", "seed": 15}]},
    ]
    if ck.thorough:
        # single objective (never rewritten: the evaluator's dialect through two calls), model-based
        core.append({"runs": [{"kind": "cbo", "nobj": 1, "batch": 3, "calls": [4, 2], "cells": "hostile", "seed": 3}]})
    kinds = ["random", "random", "cbo", "cbo", "regevo", "eds", "cbo-dummy"]
    extra = []
    for t in range(ck.pick(3, 30)):
        nruns = rng.choice([1, 1, 1, 2, 3])
        runs = []
        reuse = nruns > 1 and rng.random() < 0.3
        for i in range(nruns):
            kind = rng.choice(kinds)
            nobj = rng.choice([1, 2, 2, 3])
            runs.append({"kind": kind, "nobj": nobj,
                         "batch": rng.randint(1, 8), "calls": [rng.randint(1, 6) for _ in range(rng.randint(1, 3))],
                         # wide rows (a dump then needs several write() calls) only with RandomSearch: a
                         # 100-dimensional CBO costs seconds per ask and adds nothing to the file protocol
                         "wide": rng.choice([0, 0, 60, 120]) if kind == "random" and not reuse else 0,
                         "fail": rng.choice(["none", "none", "some", "first", "all"]),
                         "cells": rng.choice(["benign", "benign", "hostile"]),
                         "seed": rng.randint(0, 10 ** 6)})
            if runs[-1]["wide"]:
                runs[-1]["cells"] = "benign"  # (a 100-column table of text cells adds nothing)
            if reuse and i:
                # the evaluator (run-function, number of objectives, space) of the previous search is kept
                runs[-1].update(reuse=True, nobj=runs[0]["nobj"], batch=runs[0]["batch"], fail=runs[0]["fail"], wide=0,
                                cells=runs[0]["cells"])
            if reuse and not i and rng.random() < 0.5:
                runs[-1]["elsewhere"] = True
        extra.append({"clock": rng.choice(["real", "const"]), "runs": runs})
    for t in range(ck.pick(0, 3)):
        extra.append({"runs": [{"kind": rng.choice(["random", "cbo"]), "nobj": rng.choice([1, 2]), "batch": rng.randint(2, 4),
                                "calls": [{"t": 1}] + ([rng.randint(1, 3)] if rng.random() < 0.5 else []), "sleep": True,
                                "seed": rng.randint(0, 999)}]})
    same = []
    for t in range(ck.pick(4, 16)):
        n = rng.randint(2, 5) if t else 5
        runs = [{"kind": "random", "nobj": rng.choice([1, 2]), "batch": rng.randint(1, 3),
                 "calls": [rng.randint(1, 2)] if rng.random() < 0.85 else [], "seed": rng.randint(0, 999),
                 "cells": rng.choice(["benign", "benign", "hostile"])} for _ in range(n)]
        same.append({"clock": "const" if t % 2 == 0 else "real", "runs": runs, "same_second": True})
    early = []
    for t in range(ck.pick(2, 8)):
        n = rng.randint(2, 3)
        runs = [{"kind": rng.choice(["random", "random", "cbo"]), "nobj": rng.choice([1, 2]), "batch": rng.randint(1, 3),
                 "calls": [rng.randint(1, 3) for _ in range(rng.randint(1, 2))], "seed": rng.randint(0, 999),
                 "cells": rng.choice(["benign", "benign", "hostile"])} for _ in range(n)]
        early.append({"clock": "const" if t % 2 == 0 else "real", "runs": runs, "early": True})
    same = same + early
    for s in core + extra + same:
        for r in s["runs"]:
            # a first CALL that ends with only failed evaluations forces the header with a single objective column
            # (C04's recorded finding): the first call of such a run is made long enough to see a success
            if r["nobj"] > 1 and r.get("fail") == "first" and r["calls"] and isinstance(r["calls"][0], int) and not r.get("reuse"):
                r["calls"][0] = max(r["calls"][0], r["batch"] + 1)
    # the container class of a multi-objective output (SEQ_KINDS): the core scenarios cycle through the classes from a
    # seeded offset (consecutive multi-objective scenarios - among them the ones with failing evaluations - get different
    # classes), the others draw; an evaluator that is handed on keeps its run-function.  Drawn from a generator of its own:
    # the other dimensions of a seed stay what they were.
    import random

    srng = random.Random(common.hash_int(f"C15/objective-container/{ck.seed}"))
    soff, nmulti, core_ids = srng.randrange(len(SEQ_KINDS)), 0, {id(x) for x in core}
    for s in core + extra + same:
        for i, r in enumerate(s["runs"]):
            if r.get("reuse") and i:
                if "seq" in s["runs"][i - 1]:
                    r["seq"] = s["runs"][i - 1]["seq"]
            elif r["nobj"] > 1:
                if id(s) in core_ids:
                    r["seq"] = SEQ_KINDS[(soff + nmulti) % len(SEQ_KINDS)]
                    nmulti += 1
                else:
                    r["seq"] = srng.choice(SEQ_KINDS)
    # the environment of the process: log_dir / the system temporary directory on each pair of writable file systems,
    # the working directory same / parent of a relative log_dir / changed after construction / elsewhere.  The core
    # scenarios cycle through the pairs (from a seeded offset), the others draw.  Thorough: three compact scenarios that
    # go through every protocol phase are run in EVERY pair (all kill points).
    nfs = _n_fs()
    pairs = [(l, t) for l in range(nfs) for t in range(nfs)]
    if os.environ.get("C15_DEFAULT_ENV_ONLY"):  # development aid: exercises the `search` hook on a changed tree
        pairs = [(0, 0)]
    off, coff = rng.randrange(len(pairs)), rng.randrange(len(CWD_KINDS))
    for i, s in enumerate(core):
        l, t = pairs[(i + off) % len(pairs)]
        s["env"] = {"log": l, "tmp": t, "cwd": CWD_KINDS[(i // len(pairs) + coff) % len(CWD_KINDS)]}
    for s in extra + same:
        l, t = rng.choice(pairs)
        s["env"] = {"log": l, "tmp": t, "cwd": rng.choice(CWD_KINDS)}
    probes = []
    if ck.thorough:
        base = [core[0], core[5], {"clock": "const", "early": True,
                                   "runs": [{"kind": "random", "nobj": 1, "batch": 2, "calls": [3]},
                                            {"kind": "random", "nobj": 2, "batch": 1, "calls": [2, 1]}]}]
        for b in base:
            for i, (l, t) in enumerate(pairs):
                e = {"log": l, "tmp": t, "cwd": CWD_KINDS[(i + coff) % len(CWD_KINDS)]}
                if b.get("env") != e:
                    probes.append({**json.loads(json.dumps(b)), "env": e})
    for s in core + extra + same + probes:
        s.setdefault("clock", "real")
        for r in s["runs"]:
            r.setdefault("wide", 0)
            r.setdefault("fail", "none")
            r.setdefault("seed", 1)
            r.setdefault("cells", "benign")
    return core + probes + extra + same


def _hazard_points(ops):
    """kill points no sample may drop: the instant results.csv itself is opened for (re)creation, truncated, or filled by
    a copy (it then exists with less than its content until the writes that follow are done) - before such a call,
    after it and before the call that ends the window"""
    ks, n = set(), len(ops)
    for k, o in enumerate(ops):
        if o["n"] == "results.csv" and o["op"] in ("openW", "openX", "truncate", "ftruncate", "copy", "unlink", "unlinkat"):
            ks.update(x for x in (k, k + 1) if x < n)
    return ks


def _kill_points(ck, scn, ops, gs):
    n = len(ops)
    if ck.thorough or n <= 10:
        return list(range(n))
    # quick tier: first and last call, every call of the first group of each critical kind (file creation,
    # backup rename, Pareto rewrite) and the call after it, one call of every other group, a few random ones
    ks, seen = {0, n - 1}, set()
    for g in gs:
        kind = _phase_of(ops, gs, g["ops"][0])
        if kind in ("first-dump", "pareto-rewrite", "Search.__init__") and (kind not in seen or g.get("in_end") and kind + "/end" not in seen):
            ks.update(g["ops"])
            ks.add(min(n - 1, g["ops"][-1] + 1))
        elif kind in ("first-dump", "pareto-rewrite", "Search.__init__", "append-dump"):
            ks.add(ck.rng.choice(g["ops"]))
        seen.add(kind)
        if g["kind"] == "read" and "pareto-rewrite" in seen:
            seen.add("pareto-rewrite/end")  # every call of the first end-of-search rewrite, however many groups it has
    rest = [k for k in range(n) if k not in ks]
    ck.rng.shuffle(rest)
    ks.update(rest[:2])
    must = ({0, n - 1} | _hazard_points(ops)) & set(range(n))
    ks = sorted(ks)
    cap = 6 if any(isinstance(c, dict) for r in scn["runs"] for c in r["calls"]) else 12
    if len(ks) > cap:
        keep = set(ck.rng.sample(ks, cap)) | must
        ks = sorted(keep)
    return sorted(set(ks) | must)


def _spec_kills(specs, ops, gs):
    """kill points of stored cases: {"before_op": k} (an index into the trace of the tree the case was
    found on) or {"phase": p} = before every call of every group of that phase and right after it (this
    form stays meaningful when the protocol changes)"""
    ks = set()
    for sp in specs:
        if not sp:
            continue
        if "phase" in sp and "before_op" not in sp or sp.get("all_of_phase"):
            for g in gs:
                if _phase_of(ops, gs, g["ops"][0]) == sp["phase"]:
                    ks.update(g["ops"])
                    ks.add(g["ops"][-1] + 1)
        elif "before_op" in sp:
            ks.add(sp["before_op"])
    return sorted(k for k in ks if 0 <= k < len(ops))


def _inject_for(ops, k, pid=None):
    """(syscall name, n, mode) for a kill on entry of op k.  Mode "P": op k is the n-th call of that syscall among the
    ops strace's -P filter selects.  A call the filter cannot select (it only concerns a file whose name is made up at
    run time, e.g. a uniquely named temporary file that is later moved onto results.csv) is addressed as the n-th call
    of that system call by its thread since strace attached (mode "all"; the recorded run counted them)"""
    if _matched(ops[k]):
        sysname = ops[k]["sys"]
        n = sum(1 for o in ops[: k + 1] if _matched(o) and o["sys"] == sysname)
        return (sysname, n, "P")
    if ops[k].get("ord"):
        return (ops[k]["sys"], ops[k]["ord"][1], "all")
    return None


# --------------------------------------------------------------------------- evaluation


def _size(scn):
    return (len(scn["runs"]), sum(len(r["calls"]) for r in scn["runs"]), sum(r["batch"] for r in scn["runs"]),
            sum(r.get("wide", 0) for r in scn["runs"]), sum(1 for r in scn["runs"] if r["kind"] != "random"))


def _opts(scn, phase):
    if phase == "pareto-rewrite":
        return "nobj>=2"
    if phase == "Search.__init__":
        return "results.csv exists" + (",same time stamp" if scn.get("clock") == "const" else "")
    return "any"


_ENV_TAG = {}   # scenario -> what its recorded run did that makes the process environment matter
_L2_BROKEN = []  # scenarios whose recorded system calls differ from the model's trace (input of `search`)


def _note_env_tag(scn, ops):
    """the environment enters a fingerprint only through what the run was SEEN to do with it: a rename(2) that
    failed with EXDEV names the place (system temporary directory, working directory, ...) that was on another file
    system than log_dir"""
    tags = []
    for o in ops:
        if o.get("failed") == "EXDEV":
            other = next((str(o.get(x)) for x in ("n", "to") if not _is_result_name(str(o.get(x)))), "?")
            where = other[1:other.index(">")] if other.startswith("<") and ">" in other else "elsewhere"
            t = f",{where}=on-another-file-system"
            if t not in tags:
                tags.append(t)
    _ENV_TAG[common.canon(scn)] = "".join(sorted(tags))


def _failer(ck, scn, case, state, phase, opts, own):
    """the `fail(clause, what, detail)` of one judged disk state: at most one violation per state; the fingerprint
    names the clause, the phase of the killed call, the options and the input class (`hostile`: of the search
    that wrote the file, unless the caller says which search it is about)"""
    def fail(clause, what, detail, hostile=None):
        if state["failed"]:
            return
        state["failed"] = True
        tag = _cells_tag(scn, own) if hostile is None else (",cells=csv-special" if hostile else "")
        if clause in _SEQ_CLAUSES:
            tag += _seq_tag(scn, own if hostile is None else -1)
        etag = _ENV_TAG.get(common.canon(scn), "")
        ck.fail(_fp_nd(scn) if clause is None else f"C15|{clause}|{phase}|{opts}{etag}{tag}", what, case, detail)
    return fail


def _cells_tag(scn, own):
    """input class of the failing case: the search that owns results.csv stores text with CSV-special characters"""
    runs = scn["runs"]
    r = runs[own] if 0 <= own < len(runs) else runs[-1]
    return ",cells=csv-special" if _is_hostile(r) else ""


# the clauses that look at the objective cells of the rows or at what a loader / a continuing search makes of them: only
# their fingerprints name the container class (the clauses about the shape of the file and the file protocol do not)
_SEQ_CLAUSES = ("row-carries-objectives", "cells", "reload", "continue")


def _seq_tag(scn, own):
    """input class of the failing case: the search that owns results.csv (the continuing search is of its kind) gets its
    objectives in a container that is not a plain tuple"""
    runs = scn["runs"]
    r = runs[own] if 0 <= own < len(runs) else runs[-1]
    return "" if _seq_of(r) == "tuple" else ",objectives=" + _seq_of(r)


class _Eval:
    """collects Lean requests (and plain deferred steps: req = None) during evaluation and resolves
    them in order, in batches; callbacks may enqueue more"""

    def __init__(self, ck):
        self.ck = ck
        self.items = []
        self.drv = None

    def ask(self, req, cont):
        self.items.append((req, cont))

    def flush(self):
        if self.drv is None:
            self.drv = self.ck.driver()
        while self.items:
            items, self.items = self.items, []
            reps = self.drv.ask_all([r for r, _ in items if r is not None])
            it = iter(reps)
            for r, c in items:
                c(next(it) if r is not None else None)

    def close(self):
        if self.drv is not None:
            self.drv.close()


def _check_record(ck, ev, scn, rec):
    """L2 on an un-killed run + the end-state oracle (snapshots survive)"""
    case = {"scn": scn, "kill": None}
    if rec.get("err"):
        ck.fail("C15|search-raises|Search.search|" + scn["runs"][-1]["kind"] + _seq_tag(scn, -1), "the traced search raised", case, rec["err"][-1500:])
        _check_left_by_raise(ck, ev, scn, rec)
        return None
    if os.WIFSIGNALED(rec["status"]) or os.WEXITSTATUS(rec["status"]) != 0:
        raise HarnessError(f"traced child ended with status {rec['status']}: {rec.get('err')}")
    for i, o in enumerate(rec["ops"]):
        o["raw"] = i
    ops = rec["code_ops"] = [o for o in rec["ops"] if not o.get("harness")]
    _tag_lines(ops)
    _note_env_tag(scn, ops)
    for o in ops:
        if o.get("ext"):
            ck.count("op-on-a-file-later-moved-onto-a-result-file:" + o["op"] + (",failed=" + o["failed"] if o.get("failed") else ""))
    runs, gs = _acts_of(scn, rec)
    for o in ops:
        ck.count("op:" + o["op"])
    for g in gs:
        ck.count("group:" + g["kind"])
    ck.count("writes-per-dump>1", sum(1 for g in gs if g["kind"] == "dump" and sum(1 for i in g["ops"] if ops[i]["op"] == "write") > 1))
    torn = [o for o in ops if o["op"] == "write" and not o.get("complete", True)]
    if torn:
        ck.fail("C15|write-splits-a-row|Evaluator.dump_jobs_done_to_csv|" + ("wide" if scn["runs"][-1].get("wide") else "any"),
                "a write() call carries an incomplete CSV line: a kill after it leaves a torn row on disk", case,
                {"payload_tail": torn[0]["data"][-120:]})

    def on_replay(rep):
        mops = rep["ops"]
        real = [_canon(o) for o in ops]
        if mops != real:
            _L2_BROKEN.append(scn)
            k = next((i for i, (a, b) in enumerate(zip(mops, real)) if a != b), min(len(mops), len(real)))
            ck.mismatch(case, {"first_difference_at_op": k, "model": mops[k:k + 3], "impl": real[k:k + 3],
                               "n_model": len(mops), "n_impl": len(real)})
        if not all(rep["sys_ok"]) or not all(rep["vis"]):
            ck.mismatch(case, "the model's own trace has a failing call or an ill-formed prefix (model/proof out of sync)")
        # final directory: model vs disk (each file parsed by the Lean driver)
        mdir = {n: c for n, c in rep["dir"].items() if not n.endswith(".tmp")}
        owner = _tag_owner(ops)
        for n, text in rec["files"].items():
            if n.endswith(".tmp"):
                continue

            def on_file(r2, n=n):
                if r2["lines"] != mdir.get(n):
                    ck.mismatch(case, {"file": n, "model": mdir.get(n), "disk": r2["lines"]})
            ev.ask({"op": "check", "text": text, "sid": owner.get(n, 0), "done": [], "dumped": []}, on_file)
        if sorted(mdir) != sorted(n for n in rec["files"] if not n.endswith(".tmp")):
            ck.mismatch(case, {"model_files": sorted(mdir), "disk_files": sorted(rec["files"])})

    ev.ask({"op": "replay", "runs": runs}, on_replay)
    # every finished search's results are still on disk in distinct files
    _check_snapshots(ck, scn, None, rec["snaps"], rec["files"], "finished", case)
    # ... and a further search in the directory keeps them, loads the last one and runs
    text = rec["files"].get("results.csv")
    post = rec.get("post", {})
    state = {"failed": False}
    fown = _tag_owner(ops).get("results.csv", 0) if text is not None else len(scn["runs"]) - 1
    fail = _failer(ck, scn, case, state, "finished", "any", fown)
    _judge(ck, ev, scn, case, "finished", text, fown, rec["done"],
           [] if scn["runs"][fown].get("elsewhere") else _dumped_jobs(rec["dumped"], fown), post, fail, state)
    _check_post(ck, ev, scn, case, "finished", text, rec, fail)
    ck.case(case, nontrivial=len(ops) > 4)
    return ops, gs, runs


def _has_success(text):
    rows = _records(text)
    if len(rows) < 2:
        return False
    cols = [i for i, c in enumerate(rows[0]) if c == "objective" or re.match(r"objective_\d+$", c)]
    if not cols:
        return False
    ok = 0
    for r in rows[1:]:
        if len(r) <= max(cols) or any(r[i].startswith("F") for i in cols):
            continue
        try:
            [float(r[i]) for i in cols]
        except ValueError:
            # an objective cell that is neither a number nor a failure: the header was written before any evaluation
            # had succeeded and has the wrong arity (C04's recorded finding) - nothing fit_surrogate could use
            return False
        ok += 1
    return ok > 0


def _norm_dir(d, exact):
    """directory (name -> lines) for comparison; with the real clock the backup names of two
    executions differ, so only the multiset of backup contents is compared"""
    def rows(c):  # header first, rows as a multiset (job order inside a gather is the event loop's choice)
        return None if c is None else [l for l in c if l[0] == "h"] + sorted((l for l in c if l[0] != "h"), key=repr)
    if exact:
        return {"files": {n: rows(c) for n, c in d.items() if not n.endswith(".tmp")}}
    return {"results.csv": rows(d.get("results.csv")),
            "backups": sorted(common.canon(rows(c)) for n, c in d.items() if n != "results.csv" and not n.endswith(".tmp"))}


def _backup_key(n):
    m = RESULT_RE.match(n)
    return (m.group(2) or "", int(m.group(4) or 0)) if m else ("", 0)


def _tag_owner(ops):
    owner = {}
    for o in ops:
        sid = o.get("sid", 0)
        if o.get("failed"):
            continue
        if o["op"] == "rename":
            if o["n"] in owner:
                owner[o["to"]] = owner.pop(o["n"])
        elif o["op"] == "openW":
            owner[o["n"]] = sid
        elif o["op"] == "openA":
            owner.setdefault(o["n"], sid)
    return owner


def _check_snapshots(ck, scn, k, snaps, files, phase, case):
    """multiset inclusion: every snapshot taken when a search finished is the content of a
    distinct result file now"""
    have = sorted(t for n, t in files.items() if not n.endswith(".tmp"))
    need = sorted(snaps.values())
    pool = list(have)
    lost = []
    for s in need:
        if s in pool:
            pool.remove(s)
        else:
            # the live results.csv of the same search may have grown (a later call appended): accept a file
            # that starts with the snapshot's rows only if it is results.csv itself
            lost.append(s)
    if lost:
        ck.fail(_fp_nd(scn), "the results of an earlier search are in no file of log_dir any more", case,
                {"lost_snapshot_head": lost[0][:300], "files": sorted(files), "phase": phase})


def _cell_eq(want, got):
    """a text cell as pandas hands it back: the empty string is read as a missing value"""
    return got == want or (want == "" and got is None)


def _frame_diff(frame, ids, rows, hdr):
    """does a DataFrame summary show exactly the table `hdr` + `rows` (records read off the bytes)?  None = yes"""
    if "err" in frame:
        return {"raised": frame["err"]}
    if frame["n"] != len(rows) or frame.get("job_id") != ids:
        return {"rows_in_frame": frame["n"], "job_ids_in_frame": frame.get("job_id"), "rows_on_disk": len(rows), "job_ids_on_disk": ids}
    for col, vals in frame.get("cells", {}).items():
        if col not in hdr:
            continue
        c = hdr.index(col)
        for r, v in zip(rows, vals):
            if c < len(r) and not _cell_eq(r[c], v):
                return {"column": col, "on_disk": r[c], "in_frame": v}
    return None


def _judge(ck, ev, scn, case, phase, text, own, done_lines, dumped, post, fail, state):
    """the oracle on one state of the disk: `text` = bytes of results.csv (None = absent), `own` = the search that
    wrote it, `done_lines` = the run-functions' completion log, `dumped` = jobs whose dump_jobs_done_to_csv call had
    returned (the harness's own log, not the file trace), `post` = what pandas / fit_surrogate / a continuing search did"""
    done, status = _done_jobs(done_lines), _done_status(done_lines)
    logged = _done_cells(done_lines, own)
    expect = [{"id": j, "cells": [[c, v] for c, v in sorted(cells.items())]} for j, cells in sorted(logged.items())]

    def on_check(rep):
        lines = rep["lines"]
        if text is not None:
            # L2 of the text layer: the reader model against csv.reader on the same bytes, the writer model against the bytes
            py = _py_records(text)
            if py is None:
                ck.count("bytes:csv.reader refuses the text")
            elif rep["records"] != py:
                k = next((i for i, (a, b) in enumerate(zip(rep["records"], py)) if a != b), min(len(py), len(rep["records"])))
                ck.mismatch(case, {"reader": "Csv.parseFile != csv.reader on the bytes of results.csv", "record": k,
                                   "model": rep["records"][k:k + 1], "csv.reader": py[k:k + 1]})
            else:
                ck.count("bytes:reader-model == csv.reader")
            if rep["visible"] and not rep["rerender_equal"]:
                ck.mismatch(case, {"writer": "the records read back, rendered by the writer model (quotes iff , \" \\r \\n; \\r\\n), are not the bytes on disk",
                                   "phase": phase, "bytes_head": text[:300]})
            elif rep["visible"]:
                ck.count("bytes:writer-model renders the same bytes" + (",with-quoted-cells" if '"' in text else ""))
        if not rep["visible"]:
            if text is not None and not rep["wf"] and _headerless(scn, lines, phase):
                state["failed"] = True
                ck.fail(FP_REUSE, "results.csv has no header line: the evaluator kept appending as for its previous search", case,
                        {"lines": lines[:6], "bytes_head": text[:200]})
            elif text is not None and not rep["wf"]:
                nrows = sum(1 for l in lines if l[0] != "h")
                fail("wellformed-or-absent", f"results.csv ({phase}) is neither absent nor header + one complete row per evaluation: "
                     f"{len(text)} bytes on disk read back to {nrows} records below the header, {len(done)} evaluations had finished",
                     {"lines": lines[-6:], "bytes_head": text[:200],
                      "records_not_rows": [r for r, l in zip(rep["records"], lines) if l[0] == "t"][:3]})
            elif text is None:
                fail("rows-lost", "results.csv is absent although a dump had returned", {"dumped": dumped})
            else:
                rows = _jobs(lines)
                if any(j not in done for j in rows):
                    fail("rows-finished", "a row on disk belongs to no evaluation whose run-function returned", {"rows": rows, "done": done})
                else:
                    fail("rows-lost", "an evaluation whose dump_jobs_done_to_csv call had returned is not on disk",
                         {"missing": [j for j in dumped if j not in rows], "rows": len(rows), "dumped": len(dumped)})
        if text is None:
            return
        # the cells the run-functions logged (categorical value, metadata strings), looked up by column name
        if rep["visible"] and not rep["cells_ok"]:
            recs = rep["records"]
            jc = recs[0].index("job_id")
            shown = [{"job": j, "logged": logged.get(j), "on_disk": [dict(zip(recs[0], r)) for r in recs[1:] if len(r) > jc and r[jc] == str(j)][:2]}
                     for j in rep["bad_expect"][:2]]
            for d in shown:
                d["on_disk"] = [{c: v for c, v in r.items() if c in CELL_COLUMNS or c == "job_id"} for r in d["on_disk"]]
            fail("cells", "a row on disk does not show the values its evaluation had (or an evaluation has two rows)", {"rows": shown})
        elif rep["visible"] and expect:
            ck.count("bytes:cells of %d+ evaluations read back" % (10 * (len(expect) // 10)) if len(expect) >= 10 else "bytes:cells read back")
        # a row of an evaluation that succeeded must carry its objectives
        bad = _bad_objective_rows(text, own, status)
        if bad:
            fail("row-carries-objectives", "the row of an evaluation that succeeded does not show the objectives its run-function returned",
                 {"rows": bad[:3], "header": text.split("\n", 1)[0][:200]})
        # loader model vs the real fit_surrogate; it must load as soon as the table holds one successful evaluation
        rows = _jobs(lines) if lines else []
        if "fit" in post and not any(isinstance(status.get((own, j[1])), int) for j in rows):
            ck.count("reload-skipped:no-successful-row")
        elif "fit" in post:
            real_ok = post["fit"] == "ok"
            if rep["reload"]["ok"] != real_ok and not bad:
                ck.mismatch(case, {"reload_model": rep["reload"], "fit_surrogate": post["fit"]})
            if not real_ok:
                fail("reload", f"CBO.fit_surrogate cannot load results.csv ({phase})", post["fit"])
        # what the readers get out of bytes the checker accepts: exactly the evaluations on disk
        if rep["bytes_ok"] and rep["records"] and "job_id" in rep["records"][0]:
            hdr, recs = rep["records"][0], rep["records"][1:]
            jc = hdr.index("job_id")
            ids = [int(r[jc]) for r in recs]
            if "pandas" in post:
                d = _frame_diff(post["pandas"], ids, recs, hdr)
                if d is None:
                    ck.count("reload:pandas.read_csv gives the rows on disk")
                elif "raised" in d and post.get("fit") != "ok":
                    pass  # reported by the reload clause above
                else:
                    # bytes the reader model accepts, read differently by pandas: the model of the reader is off
                    ck.mismatch(case, {"pandas.read_csv": d, "phase": phase})
            if post.get("fit") == "ok":
                if not post.get("fit_read"):
                    ck.count("reload:fit_surrogate's read not observed")
                else:
                    d = _frame_diff(post["fit_read"][-1], ids, recs, hdr)
                    if d is None:
                        ck.count("reload:fit_surrogate read the rows on disk")
                    elif "pandas" in post and _frame_diff(post["pandas"], ids, recs, hdr) is None:
                        fail("reload", f"CBO.fit_surrogate does not read the evaluations that are in results.csv ({phase})", d)
    ev.ask({"op": "check", "text": text, "sid": own, "done": done, "dumped": dumped, "expect": expect, "want_records": True}, on_check)


def _check_kill(ck, ev, scn, rec, gs, runs, k, res, mode="P"):
    ops = rec["code_ops"]
    phase = _phase_of(ops, gs, k)
    case = {"scn": scn, "kill": {"before_op": k, "op": _canon(ops[k]) if ops[k]["op"] != "write" else {"op": "write", "n": ops[k]["n"]},
                                 "phase": phase}}
    if not (os.WIFSIGNALED(res["status"]) and os.WTERMSIG(res["status"]) == signal.SIGKILL):
        # the injection point was not reached: the run is not reproducible op for op
        ck.count("kill-not-reached")
        return
    ck.count("kill:" + phase)
    ck.case(case, nontrivial=True)
    # the killed execution must have made the recorded calls up to the kill (the order of the jobs
    # inside one gather is the event loop's choice and may differ): otherwise the recorded structure says
    # nothing about this execution and the kill point is skipped
    rawk = ops[k]["raw"]
    # (a kill addressed through strace's path filter shows the calls that filter selects, the other kind shows them all)
    # (a file that is later moved onto a result file is recognised only once that move has been seen: calls that concern
    # nothing but such a file are left out on both sides)
    exp = [o for o in rec["ops"][:rawk] if (mode == "all" or _matched(o)) and not _pure_ext(o)]
    kops = [o for o in res["ops"] if not o.get("killed") and not _pure_ext(o)]
    if len(kops) == len(exp):
        for a, b in zip(kops, exp):
            a["sid"] = b.get("sid", 0)
        _tag_lines(kops)
    if len(kops) != len(exp) or [_canon(o, True) for o in kops] != [_canon(o, True) for o in exp]:
        ck.count("kill-diverged")
        return
    owner = _tag_owner(ops[:k])
    cur = ([int(m.split()[1]) for m in res["marks"] if m.startswith(("run ", "act "))] or [0])[-1]
    own = owner.get("results.csv", cur)
    # jobs whose dump call had returned, of the search that owns results.csv: from the harness's dump-returned log
    dumped = _dumped_jobs(res["dumped"], own)
    done = _done_jobs(res["done"])
    text = res["files"].get("results.csv")
    post = res.get("post", {})
    state = {"failed": False}
    fail = _failer(ck, scn, case, state, phase, _opts(scn, phase), own)

    _judge(ck, ev, scn, case, phase, text, own, res["done"], dumped, post, fail, state)

    # model state at the same prefix == disk
    def on_prefix(rep):
        if sorted(rep["dumped"]) != sorted(dumped) and own == cur:
            ck.mismatch(case, {"model_dumped_at_kill": rep["dumped"], "harness_dumped": dumped})
        exact = scn.get("clock") == "const"
        disk, pending = {}, [n for n in res["files"] if not n.endswith(".tmp")]
        # which search wrote which file: by name, and for backups (whose names carry the time of THIS
        # execution) by creation order = order of (time stamp, counter)
        rec_owner = _tag_owner(ops[:k])
        disk_owner = {"results.csv": rec_owner.get("results.csv", 0)}
        bk = lambda names: sorted((n for n in names if n != "results.csv" and not n.endswith(".tmp")), key=_backup_key)
        for a, b in zip(bk(rec_owner), bk(res["files"])):
            disk_owner[b] = rec_owner[a]

        def compare():
            a, b = _norm_dir(rep["dir"], exact), _norm_dir(disk, exact)
            if a != b:
                ck.mismatch(case, {"after_kill": "model directory != disk", "model": a, "disk": b})
        if not pending:
            compare()
        for n in list(pending):
            def on_file(r2, n=n):
                disk[n] = r2["lines"]
                pending.remove(n)
                if not pending:
                    compare()
            ev.ask({"op": "check", "text": res["files"][n], "sid": disk_owner.get(n, 0), "done": [], "dumped": []}, on_file)
    ev.ask({"op": "replay", "runs": runs, "sys_cut": k}, on_prefix)

    # second injection mode: the same write torn at a few byte offsets
    for tv in res.get("torn", []):
        _check_torn(ck, ev, scn, case, tv, text, own, done, dumped)
    # nothing destroyed by the kill
    _check_snapshots(ck, scn, k, res["snaps"], res["files"], phase, case)
    _check_post(ck, ev, scn, case, phase, text, res, fail)


def _selfkill_points(ck, scn, rec):
    """kill points that are not system calls on results.csv: right after the k-th dump call returned, and at the
    k-th run-function completion (counted over the whole scenario)"""
    nd, nc = len(rec["dumped"]), len(rec["done"])
    if ck.thorough:
        ds = set(range(1, nd + 1))
        cs = set(range(1, nc + 1)) if nc <= 8 else {1 + (i * (nc - 1)) // 7 for i in range(8)}
    else:
        ds = {1, 2, nd} | ({ck.rng.randint(1, nd)} if nd else set())
        cs = {1, nc, (nc + 1) // 2}
    timed = any(isinstance(c, dict) for r in scn["runs"] for c in r["calls"])
    pts = [{"at": "dump", "k": k} for k in sorted(ds) if 1 <= k <= nd] + [{"at": "done", "k": k} for k in sorted(cs) if 1 <= k <= nc]
    return pts[:4] if timed and not ck.thorough else pts


def _owner_from_logs(scn, res):
    """the search whose results.csv is on disk (and its jobs whose dump call had returned), read off the harness's
    own logs: the last search that started to act and has dumped something"""
    cur = ([int(m.split()[1]) for m in res["marks"] if m.startswith(("run ", "act "))] or [0])[-1]
    text = res["files"].get("results.csv")
    here = [i for i, r in enumerate(scn["runs"]) if not r.get("elsewhere")]
    alld = _dumped_jobs(res["dumped"])
    if text is None:
        own = cur
    else:
        cands = [i for i in here if i <= cur and any(j[0] == i for j in alld)]
        own = max(cands) if cands else cur
    return own, ([j for j in alld if j[0] == own] if own in here else [])


def _check_left_by_raise(ck, ev, scn, rec):
    """a search() call that raises is an instant of the search like any other: what it leaves on disk is judged by the
    same clauses (well formed or absent, rows of finished evaluations, fit_surrogate loads it, a new search continues)"""
    phase = "search() raised"
    case = {"scn": scn, "kill": {"phase": phase}}
    own, dumped = _owner_from_logs(scn, rec)
    state = {"failed": False}
    fail = _failer(ck, scn, case, state, phase, "any", own)
    text = rec["files"].get("results.csv")
    _judge(ck, ev, scn, case, phase, text, own, rec["done"], dumped, rec.get("post", {}), fail, state)
    _check_snapshots(ck, scn, None, rec["snaps"], rec["files"], phase, case)
    _check_post(ck, ev, scn, case, phase, text, rec, fail)
    ck.case(case, nontrivial=True)


def _check_selfkill(ck, ev, scn, sk, res):
    phase = "dump_jobs_done_to_csv returned" if sk["at"] == "dump" else "run-function returned"
    case = {"scn": scn, "kill": {"selfkill": sk, "phase": phase}}
    if not (os.WIFSIGNALED(res["status"]) and os.WTERMSIG(res["status"]) == signal.SIGKILL):
        ck.count("selfkill-not-reached")  # this execution had fewer dumps / completions than the recorded one
        return
    ck.count("kill:" + phase)
    ck.case(case, nontrivial=True)
    text = res["files"].get("results.csv")
    own, dumped = _owner_from_logs(scn, res)
    state = {"failed": False}
    fail = _failer(ck, scn, case, state, phase, "any", own)
    _judge(ck, ev, scn, case, phase, text, own, res["done"], dumped, res.get("post", {}), fail, state)
    _check_snapshots(ck, scn, None, res["snaps"], res["files"], phase, case)
    _check_post(ck, ev, scn, case, phase, text, res, fail)


def _check_torn(ck, ev, scn, case, tv, before, own, done, dumped):
    """a torn write(2) is NOT part of the property's crash model (one write is taken as atomic): this records
    what it would do, and checks the model's bound on the damage (theorem C15_torn_write)"""
    tcase = {**case, "torn": {"bytes": tv["m"], "of": tv["of"], "file": tv["target"]}}
    if tv["target"] != "results.csv":
        ck.count("torn-write:to results.csv.tmp (results.csv untouched)")
        if tv["text"] != before:
            ck.mismatch(tcase, "a torn write to the temporary file changed results.csv")
        return

    text = tv["text"]
    trimmed = _complete_prefix(text)  # without the record the text ends inside of
    loader = "fit_surrogate loads it" if tv["fit"] == "ok" else "fit_surrogate raises"

    def on_trim(rep):
        # the damage bound (C15_torn_write): without its incomplete last line the file is a good table holding
        # every dumped row
        if not rep["visible"]:
            ck.mismatch(tcase, {"torn": "the file minus its incomplete last line is not a well-formed table of finished evaluations",
                                "lines": rep["lines"][-4:]})
        elif trimmed == text:
            ck.count("torn-write:append cut at a line boundary (still well formed)")
        else:
            ck.count("torn-write:append leaves one incomplete last line; " + loader)
            tl = ck.extra_cov.setdefault("torn_write_examples", [])
            if len(tl) < 4:
                tl.append({"last_line": text[len(trimmed):][-80:], "fit_surrogate": tv["fit"]})
        ck.case(tcase, nontrivial=trimmed != text)
    ev.ask({"op": "check", "text": trimmed, "sid": own, "done": done, "dumped": dumped}, on_trim)


def _check_post(ck, ev, scn, case, phase, text, res, fail):
    """what a user does next: a new search in the same directory (it must keep what is there under a
    fresh name, byte for byte, load it and run)"""
    post = res.get("post", {})
    if not post:
        return
    if "crash" in post:
        raise HarnessError("continuation child crashed: " + str(post["crash"])[-800:])
    before, after = res["files"], res.get("files_after", {})
    hostile = post.get("cells") == "hostile"  # of the continuing search (it is of the kind that wrote the file it finds)
    if post.get("cont") != "ok":
        ev.ask(None, lambda _: fail("continue", f"a new search in the log_dir left by a kill in {phase} does not run", post.get("cont"), hostile))
        return
    new = post.get("new_files", [])
    if text is not None:
        if len(new) != 1 or after.get(new[0]) != text:
            ev.ask(None, lambda _: fail(None, "the new search did not keep the earlier results.csv under a fresh name",
                                        {"new_files": new, "files_before": sorted(before)}))
    for n, t in before.items():
        if n != "results.csv" and not n.endswith(".tmp") and after.get(n) != t:
            ck.fail(FP_NO_DESTROY, "a new search changed an earlier result file", case, {"file": n})
    nsid = len(scn["runs"])

    logged = _done_cells(res.get("done_after", []), nsid)

    def on_cont(rep):
        if not rep["visible"]:
            fail("continue", "the results.csv written by the continuing search is not well formed", rep["lines"], hostile)
        elif not rep["cells_ok"]:
            fail("continue", "a row written by the continuing search does not show the values its evaluation had",
                 {"jobs": rep["bad_expect"][:3], "logged": {j: logged.get(j) for j in rep["bad_expect"][:3]}}, hostile)
    ev.ask({"op": "check", "text": after.get("results.csv"), "sid": nsid, "done": _done_jobs(res.get("done_after", [])), "dumped": [],
            "expect": [{"id": j, "cells": [[c, v] for c, v in sorted(cells.items())]} for j, cells in sorted(logged.items())]}, on_cont)


# --------------------------------------------------------------------------- entry points


def _pool(n=16):
    ctx = mp.get_context("spawn")  # fresh interpreters: the *_NUM_THREADS=1 settings above apply
    return ProcessPoolExecutor(max_workers=min(n, os.cpu_count() or 4), mp_context=ctx, initializer=_init_worker)


def _corpus_cases():
    d = common.VERIF / "corpus" / "C15"
    out = []
    if d.is_dir():
        for f in sorted(d.glob("*.json")):
            data = json.loads(f.read_text())
            out.append(data.get("case", data))
    return out


def _run_cases(ck, pool, scns, kills_for, selfkills=True):
    """scns: list of scenarios; kills_for(scn, ops, gs) -> list of op indices to kill before"""
    ev = _Eval(ck)
    t0 = time.time()
    recs = list(pool.map(_task, [{"scn": s, "post": True} for s in scns]))
    ck.notes.append(f"record phase: {len(scns)} runs in {time.time() - t0:.1f}s")
    todo = []
    for scn, rec in zip(scns, recs):
        r = _check_record(ck, ev, scn, rec)
        if r is None:
            continue
        ops, gs, runs = r
        for k in kills_for(scn, ops, gs):
            inj = _inject_for(rec["ops"], ops[k]["raw"])
            if inj is None:
                continue
            ck.count("kill-addressing:" + ("strace path filter" if inj[2] == "P" else "n-th call of the process (file named at run time)"))
            todo.append((scn, rec, gs, runs, k, {"scn": scn, "inject": inj, "post": True, "torn": ops[k]["op"] == "write"}))
    sks = []
    for scn, rec in zip(scns, recs):
        if rec.get("code_ops") is not None and selfkills:
            sks += [(scn, sk) for sk in _selfkill_points(ck, scn, rec)]
    t0 = time.time()
    skres = list(pool.map(_task, [{"scn": scn, "selfkill": sk, "post": True} for scn, sk in sks]))
    for (scn, sk), res in sorted(zip(sks, skres), key=lambda x: (_size(x[0][0]), x[0][1]["k"])):
        _check_selfkill(ck, ev, scn, sk, res)
    ck.notes.append(f"self-kill phase: {len(sks)} runs in {time.time() - t0:.1f}s")
    t0 = time.time()
    ress = list(pool.map(_task, [t[-1] for t in todo]))
    # malformed stream for the loader model: mutated copies of real final files
    mut = []
    for scn, rec in zip(scns, recs):
        text = rec["files"].get("results.csv")
        if len(scn["runs"]) == 1 and text and _has_success(text) and text.count("\n") >= 3 and len(mut) < ck.pick(4, 12):
            mut.append((scn, _mutations(text)))
    fits = list(pool.map(_task_fit, [{"texts": m, "wide": scn["runs"][0]["wide"], "hostile": _is_hostile(scn["runs"][0])} for scn, m in mut]))
    for (scn, m), fit in zip(mut, fits):
        for name, text in m.items():
            def on_mut(rep, name=name, scn=scn, fit=fit):
                ck.count("loader:" + name + ("=accept" if fit[name] == "ok" else "=reject"))
                ck.case({"loader": name, "scn": scn}, nontrivial=name != "intact")
                if rep["reload"]["ok"] != (fit[name] == "ok"):
                    ck.mismatch({"loader": name, "scn": scn}, {"reload_model": rep["reload"], "fit_surrogate": fit[name], "lines": rep["lines"]})
            ev.ask({"op": "check", "text": text, "sid": 0, "done": [], "dumped": []}, on_mut)
    ck.notes.append(f"kill phase: {len(todo)} runs in {time.time() - t0:.1f}s")
    t0 = time.time()
    # smaller scenarios first so that the stored failing case of a fingerprint is the smallest one
    order = sorted(range(len(todo)), key=lambda i: (_size(todo[i][0]), todo[i][4]))
    for i in order:
        scn, rec, gs, runs, k, _ = todo[i]
        _check_kill(ck, ev, scn, rec, gs, runs, k, ress[i], todo[i][5]["inject"][2])
    try:
        ev.flush()
    finally:
        ev.close()
    ck.notes.append(f"evaluation + Lean: {time.time() - t0:.1f}s")
    if os.environ.get("C15_DEBUG"):
        print("\n".join(ck.notes[-4:]), file=sys.stderr)
    if len(todo) >= 4 and ck.hist.get("kill-not-reached", 0) > len(todo) // 2:
        raise HarnessError("most injected kills were not reached: the traced runs are not reproducible")


def _inprocess_slice(ck):
    """a few un-killed scenarios in the check's own process (no strace, no fork), so that the line-coverage
    probe of main.py sees the anchored code; judged by the same end-state oracle"""
    scns = [
        {"clock": "real", "runs": [{"kind": "random", "nobj": 2, "batch": 2, "calls": [3, 2], "fail": "first", "seq": "list"}]},
        {"clock": "const", "runs": [{"kind": "cbo", "nobj": 1, "batch": 2, "calls": [4]},
                                    {"kind": "random", "nobj": 1, "batch": 2, "calls": [2], "reuse": True},
                                    {"kind": "regevo", "nobj": 1, "batch": 2, "calls": [3]}]},
        {"clock": "const", "early": True, "runs": [{"kind": "random", "nobj": 1, "batch": 2, "calls": [2]},
                                                   {"kind": "eds", "nobj": 1, "batch": 2, "calls": [2]}]},
        {"clock": "real", "runs": [{"kind": "random", "nobj": 1, "batch": 2, "calls": [2], "fail": "all"}]},
        {"clock": "real", "runs": [{"kind": "cbo-dummy", "nobj": 2, "batch": 3, "calls": [{"t": 1}], "sleep": True, "seq": "tuple-subclass"}]},
        {"clock": "real", "runs": [{"kind": "cbo", "nobj": 2, "batch": 2, "calls": [3, 2], "fail": "some", "cells": "hostile", "seed": 0,
                                    "seq": "namedtuple"}]},
    ]
    ev = _Eval(ck)
    base = tempfile.mkdtemp(prefix="inproc", dir=_scratch())
    saved = time.strftime
    import logging

    lvl = logging.root.manager.disable
    logging.disable(logging.CRITICAL)
    try:
        for i, scn in enumerate(scns):
            for r in scn["runs"]:
                r.setdefault("wide", 0), r.setdefault("fail", "none"), r.setdefault("seed", 1)
            ld, side, side2 = (os.path.join(base, f"{x}{i}") for x in ("ld", "side", "cont"))
            for d in (ld, side, side2):
                os.makedirs(d)
            case = {"scn": scn, "kill": None, "in_process": True}
            phase = "finished"
            try:
                _program(scn, ld, side)
            except Exception as e:  # noqa
                ck.fail("C15|search-raises|Search.search|" + scn["runs"][-1]["kind"] + _seq_tag(scn, -1), "a search run in the check's own process raised", case, repr(e))
                # what the raising call left on disk is judged like any other instant of the search
                phase, case = "search() raised", {"scn": scn, "kill": {"phase": "search() raised"}, "in_process": True}
            finally:
                time.strftime = saved
            files = {n: t for n, t in _read_dir(ld).items() if _is_result_name(n)}
            sidef = _read_dir(side)
            snaps = {n: t for n, t in sidef.items() if n.startswith("snap_")}
            done = _done_jobs([l for l in sidef.get("done.log", "").split("\n") if l])
            _check_snapshots(ck, scn, None, snaps, files, phase, case)
            post = _continuation(scn, ld, side2)
            fin = files.get("results.csv")
            own = max(j[0] for j in done) if done else 0

            state = {"failed": False}
            fail = _failer(ck, scn, case, state, phase, "any", own)
            dl = [l for l in sidef.get("done.log", "").split("\n") if l]
            dumped = _dumped_jobs([l for l in sidef.get("dumped.log", "").split("\n") if l], own)
            _judge(ck, ev, scn, case, phase, fin, own, dl, dumped if fin is not None else [], post, fail, state)
            if post.get("cont") != "ok":
                ck.fail(f"C15|continue|{phase}|any" + (",cells=csv-special" if post.get("cells") == "hostile" else "") + _seq_tag(scn, -1),
                        "a new search in the log_dir of a finished search does not run", case, post.get("cont"))
            ck.case(case, nontrivial=True)
            ck.count("in-process scenario")
        ev.flush()
    finally:
        ev.close()
        time.strftime = saved
        logging.disable(lvl)
        shutil.rmtree(base, ignore_errors=True)


def run(ck):
    ck.rule = ("real RandomSearch/CBO(ET) searches (serial evaluator; 1-3 objectives, returned in a plain tuple / list / namedtuple / "
               "subclass of tuple / subclass of list - plain or as the 'objective' of the dict form; batches 1-8; 1-3 search() calls; failing "
               "evaluations none/first batch/some/all; narrow and wide rows; stored text benign or with CSV-special characters "
               "(categorical value, metadata strings and key, failure label); 1-5 searches per log_dir, real or constant clock; "
               "process environment: log_dir and the system temporary directory (TMPDIR) on each pair of the writable file systems "
               "found at run time, working directory same file system / parent of a RELATIVE log_dir / changed after construction / "
               "another file system - quick: every scenario draws one, thorough: three compact scenarios in every pair) traced "
               "with strace; kill injected before every recorded system call on results.csv/results.csv.tmp and on any file, in "
               "whatever directory, that is later renamed / linked / copied onto a result file (quick: sample with "
               "first/last/creation/rename/rewrite points, never dropping the calls around an open-for-truncation of or a copy into "
               "results.csv); distinct by (scenario, kill point); non-trivial = killed run")
    ck.assumptions = [
        "a single write(2)/rename(2) is atomic with respect to SIGKILL (the kill is delivered on system-call entry)",
        "CPython's buffered text layer hands whole CSV lines to write(2) (checked on every recorded write: a payload with an incomplete last line is reported)",
        "the evaluator dumps only jobs whose run-function returned (contract `Causal`; checked against the completion log)",
        "one search object at a time writes in a log_dir (searches run one after the other; they may all be constructed first)",
    ]
    ck.trusted_extra = [
        "strace 6.1 (-f -y -p attach, -P path filter, inject=…:signal=KILL:when=n) as observer and kill injector; calls on files "
        "named at run time are addressed as the n-th call of the process (counted in the recorded run; an execution whose calls "
        "before the kill differ from the recorded ones is skipped and counted)",
        "the mount layout of this machine (os.stat().st_dev of candidate directories) as the source of 'another file system'; "
        "the environment model (rename = EXDEV across file systems, shutil.move = truncate-and-copy) is compared with the real "
        "standard library / kernel in every pair of file systems on every run",
        "the strace output parser of harness/c15.py (the bytes->lines reading is now the model's `abstract`)",
        "pandas.read_csv / to_csv / csv.DictWriter / the OS file system are modelled, not verified (writer and reader model are "
        "compared with the real bytes, csv.reader and pandas.read_csv at every judged state)",
        "the harness's own CSV scanner (_csv_scan, same state machine as Model/Csv.lean; used to split write payloads and torn files)",
    ]
    os.environ["C15_SCRATCH"] = f"{SCRATCH}_{os.getpid()}"
    _detect_filesystems(ck)
    try:
        _inprocess_slice(ck)
        _run_all(ck)
    finally:
        _cleanup_filesystems()


def _run_all(ck):
    with _pool() as pool:
        corpus = _corpus_cases()
        if corpus:
            uniq = {common.canon(c["scn"]): c["scn"] for c in corpus}
            specs = {}
            for c in corpus:
                specs.setdefault(common.canon(c["scn"]), []).append(c.get("kill"))
            _run_cases(ck, pool, list(uniq.values()), lambda scn, ops, gs: _spec_kills(specs[common.canon(scn)], ops, gs), selfkills=False)
            ck.count("corpus-cases", len(corpus))
        scns = _scenarios(ck)
        for s in scns:
            ck.count("scenario:" + ("constructed-early" if s.get("early") else "same-second" if s.get("same_second") else f"runs={len(s['runs'])}"))
            for r in s["runs"]:
                ck.count(f"search:{r['kind']},nobj={r['nobj']}")
                ck.count(f"batch={r['batch']}")
                ck.count(f"calls={len(r['calls'])}")
                ck.count("call:timeout", sum(1 for c in r["calls"] if isinstance(c, dict)))
                ck.count("evaluator:" + ("reused" if r.get("reuse") else "other-directory" if r.get("elsewhere") else "own"))
                ck.count("fail:" + r["fail"])
                ck.count("cells:" + ("csv-special characters" if _is_hostile(r) else "benign") + (",nobj>=2" if r["nobj"] > 1 else ",nobj=1"))
                ck.count("wide" if r["wide"] else "narrow")
                if r["nobj"] > 1:
                    ck.count("objectives-returned-as:" + _seq_of(r) + (",inside the dict form" if _is_hostile(r) else ""))
            ck.count("clock:" + s["clock"])
            ck.count(_env_key(_env_of(s)))
            if _n_fs() == 1:
                ck.count("env:cross-device-unavailable (one writable file system on this machine)")
        _run_cases(ck, pool, scns, lambda scn, ops, gs: _kill_points(ck, scn, ops, gs))
        _move_probes(ck, pool)


def _move_probes(ck, pool):
    """L2 of the environment model (Model/FilesEnv.lean): in every pair (file system of log_dir, file system of the
    system temporary directory) the standard library moves a complete file from the temporary directory onto
    results.csv under strace; the calls must be `moveOps` (one rename / failed rename + open + open-truncate + copy +
    closes), and after a kill on entry of each call results.csv on disk must be the model's at that prefix"""
    nfs = _n_fs()
    scns = [{"probe": "move", "env": {"log": l, "tmp": t, "cwd": "same"}, "runs": []} for l in range(nfs) for t in range(nfs)]
    recs = list(pool.map(_task, [{"scn": s} for s in scns]))
    tags = lambda text: [["h", r[-1] == "pareto_efficient"] if "job_id" in r else ["r", 0, int(r[3]), len(r) == 5] for r in _records(text)]
    old, new = tags(PROBE_OLD), tags(PROBE_NEW)
    ev = _Eval(ck)
    todo = []
    for scn, rec in zip(scns, recs):
        case = {"scn": scn, "kill": None}
        if rec.get("err") or rec["status"] != 0:
            raise HarnessError(f"move probe failed: status {rec['status']} {rec.get('err')}")
        for i, o in enumerate(rec["ops"]):
            o["raw"] = i
        ops = [o for o in rec["ops"] if o.get("sid") == 1]
        same = rec["tmp_on_log_dev"]
        ck.count("env-model:move " + ("inside one file system" if same else "across file systems"))
        seen = []
        for o in ops:
            if o["op"] in ("unlink", "unlinkat") or (o["op"] == "copy" and o["bytes"] == "0"):
                continue  # (the unlink of the source and the copy loop's end-of-file probe are not in the model)
            c = {"op": o["op"], "n": "src" if _is_ext(o["n"]) else o["n"]}
            if "to" in o:
                c["to"] = o["to"]
            if o["op"] == "copy":
                c = {"op": "write", "n": o["n"], "lines": new if o["bytes"] == str(len(PROBE_NEW.encode())) else o["bytes"]}
            seen.append((c, not o.get("failed")))
        kills = [o for o in ops if _inject_for(rec["ops"], o["raw"])]

        def on_model(rep, scn=scn, rec=rec, seen=seen, case=case):
            if [c for c, _ in seen] != rep["ops"] or [ok for _, ok in seen] != rep["sys_ok"]:
                ck.mismatch(case, {"environment_model": "moveOps != the system calls of shutil.move", "model": rep["ops"], "model_ok": rep["sys_ok"],
                                   "impl": [c for c, _ in seen], "impl_ok": [ok for _, ok in seen]})

            def on_final(r2):
                if r2["lines"] != rep["results"][-1]:
                    ck.mismatch(case, {"environment_model": "results.csv after the move", "model": rep["results"][-1], "disk": r2["lines"]})
            ev.ask({"op": "check", "text": rec["files"].get("results.csv"), "sid": 0, "done": [], "dumped": []}, on_final)
            ck.case(case, nontrivial=True)
        ev.ask({"op": "move", "same": same, "old": old, "new": new, "sizes": [len(new)]}, on_model)
        for o in kills:
            todo.append((scn, rec, same, [x["raw"] for x in ops if x["op"] not in ("unlink", "unlinkat") and not (x["op"] == "copy" and x["bytes"] == "0")],
                         o, {"scn": scn, "inject": _inject_for(rec["ops"], o["raw"])}))
    ress = list(pool.map(_task, [t[-1] for t in todo]))
    for (scn, rec, same, modelled, o, task), res in zip(todo, ress):
        case = {"scn": scn, "kill": {"before_op": _canon(o)}}
        if not (os.WIFSIGNALED(res["status"]) and os.WTERMSIG(res["status"]) == signal.SIGKILL):
            ck.count("kill-not-reached")
            continue
        # the model's prefix: the modelled calls made before the killed one
        k = sum(1 for r in modelled if r < o["raw"])

        def on_model(rep, res=res, k=k, case=case):
            def on_disk(r2):
                ck.count("env-model:kill inside the move, results.csv " + ("empty" if r2["lines"] == [] else "absent" if r2["lines"] is None else "a table"))
                if r2["lines"] != rep["results"][k]:
                    ck.mismatch(case, {"environment_model": f"results.csv after a kill before call {k} of the move", "model": rep["results"][k], "disk": r2["lines"]})
            ev.ask({"op": "check", "text": res["files"].get("results.csv"), "sid": 0, "done": [], "dumped": []}, on_disk)
            ck.case(case, nontrivial=True)
        ev.ask({"op": "move", "same": same, "old": old, "new": new, "sizes": [len(new)]}, on_model)
    try:
        ev.flush()
    finally:
        ev.close()


def search(ck):
    """Called when the correspondence broke and `run` found no failing input.  The recorded system calls of some
    scenarios are not the model's: the kill points of THOSE observed traces are enumerated on the real code - the
    process is killed on entry of every recorded call (on result files and on files that are later moved / copied onto
    them, wherever they are), in every environment this machine offers (log_dir and the system temporary directory on each
    pair of writable file systems; working directory same / parent of a relative log_dir / changed / elsewhere) - and every
    disk state is judged by the same verified checkers.  Stops at the first scenario that yields a failing input."""
    os.environ["C15_SCRATCH"] = f"{SCRATCH}_{os.getpid()}"
    _detect_filesystems(ck)
    try:
        seen, cands = set(), []
        for scn in sorted(_L2_BROKEN, key=_size):
            key = common.canon({k: v for k, v in scn.items() if k != "env"})
            if key not in seen:
                seen.add(key)
                cands.append(scn)
        if not cands:
            # nothing recorded (L1 broke, or the harness could not interpret the tree): the compact scenarios
            cands = [{"clock": "real", "runs": [{"kind": "random", "nobj": 2, "batch": 2, "calls": [3, 2]}]},
                     {"clock": "const", "runs": [{"kind": "random", "nobj": 1, "batch": 2, "calls": [2]},
                                                 {"kind": "random", "nobj": 2, "batch": 2, "calls": [2]}]}]
        cands = cands[: ck.pick(3, 8)]
        nfs = _n_fs()
        envs = [{"log": l, "tmp": t, "cwd": "same"} for l in range(nfs) for t in range(nfs)]
        envs += [{"log": 0, "tmp": 0, "cwd": c} for c in CWD_KINDS if c != "same"]
        with _pool() as pool:
            for scn in cands:
                scns = []
                for e in envs:
                    c = json.loads(json.dumps({k: v for k, v in scn.items() if k != "env"}))
                    c["env"] = e
                    for r in c["runs"]:
                        r.setdefault("wide", 0), r.setdefault("fail", "none"), r.setdefault("seed", 1), r.setdefault("cells", "benign")
                    c.setdefault("clock", "real")
                    scns.append(c)
                    ck.count("search:" + _env_key(e))
                ck.count("search:scenarios whose observed trace is enumerated")
                _run_cases(ck, pool, scns, lambda s, ops, gs: list(range(len(ops))), selfkills=False)
                if ck.failures:
                    break
    finally:
        _cleanup_filesystems()


def replay(ck, case):
    scn = case["scn"]
    os.environ["C15_SCRATCH"] = f"{SCRATCH}_{os.getpid()}"
    _detect_filesystems(ck)
    kill = case.get("kill") or {}
    try:
        with _pool(2) as pool:
            if "selfkill" in kill:
                ev = _Eval(ck)
                rec, res = list(pool.map(_task, [{"scn": scn}, {"scn": scn, "selfkill": kill["selfkill"], "post": True}]))
                _note_env_tag(scn, [o for o in rec["ops"] if not o.get("harness")])
                _check_selfkill(ck, ev, scn, kill["selfkill"], res)
                try:
                    ev.flush()
                finally:
                    ev.close()
            else:
                _run_cases(ck, pool, [scn], lambda s, ops, gs: _spec_kills([case.get("kill")], ops, gs), selfkills=False)
    finally:
        _cleanup_filesystems()
    print("replay:", json.dumps({"scenario": scn, "kill": case.get("kill"), "failures": [f["fingerprint"] for f in ck.failures],
                                 "mismatches": len(ck.mismatches)}))
