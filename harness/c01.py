"""C01 — Evaluator delivers every submitted job exactly once.

L2: random call histories {submit n, gather ALL, gather BATCH k, close, dump} are run on the REAL
    evaluator (serial backend under the virtual-time loop with scripted durations, thread backend with
    per-job events released by a director thread, process / loky backends with short real sleeps in the
    thorough tier).  After every call the observable outcome (returned jobs in the order returned,
    exception kind, the two counters, `jobs_done`, the status of every job of `Evaluator.jobs`, the rows
    appended to the CSV file) is compared with `Model/Evaluator.lean` replaying the same calls with the
    observed environment (which tasks `asyncio.wait` reported done, in set order; which jobs got a worker
    slot; which tasks had finished before `close`).
L3: the property itself is evaluated on the implementation's trace (exactly-once partition, payload
    identity, batch sizes, counters, no exception from a legitimate call — in particular after close —,
    each delivered job dumped once).
"""
import asyncio
import copy
import csv
import json
import os
import shutil
import tempfile
import threading
import time

from . import common, vloop

Q = vloop.QUANTUM
PROP = "C01"


# --------------------------------------------------------------------------- run-functions


FLAT = ("x", "tag", "fail", "d", "prio", "form", "zero")  # the other keys of a configuration hold nested mutable values


def nested_part(cfg):
    return {k: v for k, v in cfg.items() if k not in FLAT}


def weight(v):
    """sum of the integers inside a nested value"""
    if isinstance(v, bool):
        return 0
    if isinstance(v, int):
        return v
    if isinstance(v, dict):
        return sum(weight(x) for x in v.values())
    if isinstance(v, (list, tuple)):
        return sum(weight(x) for x in v)
    return 0


def value(cfg):
    """what the run-function returns for a configuration (Drivers/C01.lean `runF` is the same): it depends on
    the nested values too, so a run-function that saw a later edit of the caller's object is visible"""
    if cfg["fail"]:
        return "F_" + cfg["tag"]
    if cfg.get("zero"):  # an objective that is falsy in `if job_data["out"]` (several evaluators on one search)
        return 0.0
    return 3.0 * cfg["x"] + 0.5 + 16.0 * weight(nested_part(cfg))


def returned(job):
    """the run-function's return value in one of the forms the evaluator accepts; `job.output` must be
    `value(cfg)` (Job) / `{"objective": value(cfg)}` (HPOJob) for all of them"""
    cfg = dict(job.parameters)
    _ = (job["x"], job["job_id"], len(job), list(job))  # RunningJob is a mapping over the configuration
    v = value(cfg)
    form = cfg.get("form", "plain")
    if form == "wrapped":  # {"output": ..., "metadata": {...}}: metadata goes to job.metadata
        return {"output": v, "metadata": {"note": cfg["tag"]}}
    if form == "objdict":  # HPO only: {"objective": ..., "metadata": {...}}
        return {"objective": v, "metadata": {"note": cfg["tag"]}}
    return v


async def run_serial(job):
    await asyncio.sleep(job.parameters["d"])
    return returned(job)


_REG = {}  # x -> dict(entered=Event, release=Event, finished=Event) of the current thread-backend script


def run_thread(job):
    r = _REG_CURRENT.get(job.parameters["x"])
    if r is None:  # pragma: no cover  (a zombie of an earlier script)
        return returned(job)
    r["entered"].set()
    r["release"].wait(60)
    out = returned(job)
    r["finished"].set()
    return out


_REG_CURRENT = _REG


def run_sleep(job):
    time.sleep(job.parameters["d"])
    return returned(job)


# --------------------------------------------------------------------------- asyncio.wait spy


class Deadlock(Exception):
    pass


def _guard_vloop():
    """a serial evaluator's loop with nothing ready and no timer can never wake up again: raise instead of
    blocking for ever (surfaces as an exception of the call that ran the loop)"""
    orig = vloop.VLoop._run_once

    def _run_once(self):
        if not self._ready and not self._scheduled:
            raise Deadlock("event loop idle for ever: the awaited tasks can never finish")
        return orig(self)

    vloop.VLoop._run_once = _run_once
    return orig


class WaitSpy:
    """records, for every asyncio.wait call, the job ids of the not-cancelled tasks of `done` in the
    iteration order of that set (consecutive identical results are collapsed: the busy-spinning
    `gather("BATCH", k>=2)` re-waits thousands of times on the same set)"""

    def __init__(self):
        self.log = []
        self.calls = 0
        self._orig = None

    def install(self):
        self._orig = asyncio.wait
        spy = self

        async def wait(fs, **kw):
            done, pending = await spy._orig(fs, **kw)
            spy.calls += 1
            ids = []
            for t in done:  # same set object the evaluator iterates afterwards
                if t.cancelled() or t.exception() is not None:
                    continue
                ids.append(_jid(t.result().id))
            if not spy.log or spy.log[-1] != ids:
                spy.log.append(ids)
            return done, pending

        asyncio.wait = wait

    def uninstall(self):
        if self._orig is not None:
            asyncio.wait = self._orig
            self._orig = None

    def take(self):
        out, self.log = self.log, []
        return out


def _jid(job_id):
    return int(str(job_id).split(".")[-1])


# --------------------------------------------------------------------------- driving the real code


def _exc_kind(e):
    if isinstance(e, AttributeError) and "run_until_complete" in str(e):
        return "noLoop"
    if isinstance(e, ValueError) and "No jobs pending" in str(e):
        return "noJobs"
    if isinstance(e, RuntimeError) and "Event loop is closed" in str(e):
        return "loopClosed"
    return "other:" + type(e).__name__


def _canon_out(out, hpo):
    if hpo and isinstance(out, dict) and set(out) == {"objective"}:
        out = out["objective"]
    if out is None:
        return None
    if isinstance(out, str):
        return {"t": "str", "v": out}
    if isinstance(out, float):
        return {"t": "num", "v": common.rat(out)}
    return {"t": "other", "v": repr(out)}


def _canon_job(job, hpo):
    a = job.args
    return {"id": _jid(job.id), "x": a.get("x"), "tag": a.get("tag"), "fail": a.get("fail"), "zero": bool(a.get("zero", False)),
            "nest": common.canon(nested_part(a)), "w": weight(nested_part(a)),
            "out": _canon_out(job.output, hpo), "status": job.status.name}


class Real:
    """one evaluator of the real code + what the harness needs to observe it from outside"""

    PRE = "p:x,p:tag,p:fail,objective,job_id,job_status\n99,old,False,1.0,99,DONE\n"  # somebody else's results.csv

    def __init__(self, case, spy, vt, shared=None):
        from deephyper.evaluator import Evaluator, HPOJob

        self.case, self.spy, self.vt = case, spy, vt
        self.backend, self.hpo = case["backend"], case["hpo"]
        fn = {"serial": run_serial, "thread": run_thread, "process": run_sleep, "loky": run_sleep}[self.backend]
        kw = {"num_workers": case["workers"]}
        self.shared = shared
        if shared is not None:  # several evaluators attached to one storage search
            kw.update(storage=shared["storage"], search_id=shared["sid"])
        self.ev = Evaluator.create(fn, method=self.backend, method_kwargs=kw)
        if self.hpo:
            self.ev._job_class = HPOJob  # the way the searches (and the repo's tests) select the HPO format
        self.ev.__enter__()  # the evaluator is a context manager (its __exit__ shuts the executor down)
        self.dir = tempfile.mkdtemp(prefix="c01_")
        if case.get("preexisting_csv"):  # an older results.csv must be moved aside, not appended to
            with open(os.path.join(self.dir, "results.csv"), "w") as f:
                f.write(self.PRE)
        self.rows_seen = 0
        self.pool = {} if shared is None else shared["pool"]  # the caller's configuration objects (identity matters: reused and edited)
        self.handed = []      # job objects the gathers handed to the caller
        self.cfg_by_x = {}
        self.reg = {} if shared is None else shared["reg"]
        self.prio = {} if shared is None else shared["prio"]
        self.own_x = set()
        if self.backend == "thread":
            global _REG_CURRENT
            _REG_CURRENT = self.reg
        if vt is not None:
            vt.reset()

    # -- observation helpers (public attributes only)
    def statuses(self):
        return [j.status.name for j in self.ev.jobs]

    def snapshot(self):
        return {
            "num_submitted": self.ev.num_jobs_submitted,
            "num_gathered": self.ev.num_jobs_gathered,
            "jobs_done": [_canon_job(j, self.hpo) for j in self.ev.jobs_done],
            "statuses": self.statuses(),
        }

    def _director(self, stop, bursts):
        """releases entered-and-unreleased jobs by priority until the blocking call returns"""
        k = 0
        while not stop.is_set():
            cand = [x for x, r in self.reg.items() if r["entered"].is_set() and not r["release"].is_set()]
            if not cand:
                time.sleep(0.0003)
                continue
            cand.sort(key=lambda x: self.prio.get(x, 0))
            n = bursts[k % len(bursts)] if bursts else 1
            k += 1
            chosen = cand[:n]
            for x in chosen:
                self.reg[x]["release"].set()
            for x in chosen:
                self.reg[x]["finished"].wait(10)
            time.sleep(0.0003)

    def do(self, op):
        """performs one call; returns the observation dict (out, env, snapshot)"""
        ev = self.ev
        before = self.statuses()
        self.spy.take()
        out, exc = {"kind": "unit"}, None
        kind = op["op"]
        stop = threading.Event()
        th = None
        try:
            if kind == "submit":
                objs = []
                for c in op["cfgs"]:
                    k = c.get("obj")
                    if k is not None and k in self.pool:
                        o = self.pool[k]  # the SAME object again, possibly with top-level edits for the new job
                        o.update(c.get("set", {}))
                    else:
                        o = copy.deepcopy({a: b for a, b in c.items() if a not in ("obj", "set")})
                        if k is not None:
                            self.pool[k] = o
                    objs.append(o)
                    self.cfg_by_x[o["x"]] = o
                    self.own_x.add(o["x"])
                    if self.backend == "thread":
                        self.reg[o["x"]] = {"entered": threading.Event(), "release": threading.Event(), "finished": threading.Event()}
                        self.prio[o["x"]] = o.get("prio", 0)
                truth = [copy.deepcopy(o) for o in objs]  # ground truth: the configurations as submitted
                sent = objs
                if self.shared is not None:
                    from deephyper.core.exceptions import MaximumJobsSpawnReached

                    n0 = len(self.shared["storage"].load_all_job_ids(self.shared["sid"]))
                    try:
                        ev.submit(objs)
                    except MaximumJobsSpawnReached:
                        out = {"kind": "spawnmax"}
                    made = len(self.shared["storage"].load_all_job_ids(self.shared["sid"])) - n0
                    truth, sent = truth[:made], objs[:made]  # the configurations that became jobs
                    self.shared["objs"].extend(sent)
                else:
                    ev.submit(objs)  # the caller's own objects, not copies
            elif kind == "setmax":
                ev.set_maximum_num_jobs_submitted(op["n"])
            elif kind == "mutate":
                # the caller goes on editing an object it submitted earlier (before any gather ran it)
                o = self.pool.get(op["obj"])
                if o is not None:
                    how = op["how"]
                    if how == "append" and isinstance(o.get("layers"), list):
                        o["layers"].append(op.get("v", 7))
                    elif how == "clear" and isinstance(o.get("layers"), list):
                        o["layers"].clear()
                    elif how == "opts" and isinstance(o.get("opts"), dict):
                        o["opts"]["lr"] = op.get("v", 7)
                        o["opts"].pop("act", None)
                    elif how == "blocks" and o.get("blocks"):
                        o["blocks"][0]["u"] = op.get("v", 7)
                        o["blocks"].append({"u": 1})
                    elif how == "top":
                        o["tag"] = "edited"
                        o["extra"] = [op.get("v", 7)]
            elif kind == "mutate_returned":
                # the caller edits jobs it was handed (only those whose row is already written: the job
                # objects awaiting a dump are shared with the caller by design)
                waiting = {id(j) for j in ev.jobs_done}
                for jb in self.handed:
                    if id(jb) in waiting:
                        continue
                    for v in jb.args.values():
                        if isinstance(v, list):
                            v.append(99)
                        elif isinstance(v, dict):
                            v["edited"] = 99
                    jb.args["extra2"] = [1, 2, 3]
                    if isinstance(jb.output, dict):
                        jb.output["objective"] = "garbled"
                    else:
                        jb.output = "garbled"
            elif kind == "gather":
                if self.backend == "thread":
                    th = threading.Thread(target=self._director, args=(stop, op.get("bursts") or [1]), daemon=True)
                    th.start()
                if self.shared is not None:  # gather_other_jobs_done prints the storage's job data
                    import contextlib
                    import io

                    with contextlib.redirect_stdout(io.StringIO()):
                        res = ev.gather("ALL") if op["all"] else ev.gather("BATCH", op["k"])
                else:
                    res = ev.gather("ALL") if op["all"] else ev.gather("BATCH", op["k"])
                if isinstance(res, tuple) and self.shared is not None:
                    out = {"kind": "jobs", "jobs": [_canon_job(j, self.hpo) for j in res[0]],
                           "other": [_canon_job(j, self.hpo) for j in res[1]]}
                    out["_args"] = [copy.deepcopy(j.args) for j in res[0]]
                    out["_outputs"] = [copy.deepcopy(j.output) for j in res[0]]
                    out["_other_args"] = [copy.deepcopy(j.args) for j in res[1]]
                    out["_other_outputs"] = [copy.deepcopy(j.output) for j in res[1]]
                    self.handed.extend(res[0])
                elif isinstance(res, tuple):
                    out = {"kind": "jobs+other", "jobs": [_canon_job(j, self.hpo) for j in res[0]],
                           "other": [_canon_job(j, self.hpo) for j in res[1]]}
                else:
                    out = {"kind": "jobs", "jobs": [_canon_job(j, self.hpo) for j in res]}
                    out["_args"] = [copy.deepcopy(j.args) for j in res]
                    out["_outputs"] = [copy.deepcopy(j.output) for j in res]
                    self.handed.extend(res)
            elif kind == "close":
                ev.close()
                if self.backend == "thread":  # free the worker threads of the cancelled evaluations
                    for x, r in self.reg.items():
                        if self.shared is None or x in self.own_x:
                            r["release"].set()
            elif kind == "dump":
                if op.get("alias"):  # the deprecated name of the same method
                    ev.dump_evals(self.dir, flush=op["flush"])
                else:
                    ev.dump_jobs_done_to_csv(self.dir, flush=op["flush"])
                out = {"kind": "rows"}
            else:
                raise common.HarnessError(f"unknown op {op}")
        except common.HarnessError:
            raise
        except Exception as e:  # what the caller of the API would see
            exc = e
            out = {"kind": "error", "err": _exc_kind(e), "msg": f"{type(e).__name__}: {e}"[:200]}
        finally:
            stop.set()
            if th is not None:
                th.join(20)
        if out == {"kind": "rows"}:
            out["jobs"] = self._new_rows()  # a problem reading the file back is the harness's, not the code's
        after = self.statuses()
        waits = self.spy.take()
        started = [i for i, (b, a) in enumerate(zip(before, after)) if b == "READY" and a in ("RUNNING", "DONE")]
        env = {"started": started}
        if self.shared is not None and self.ev is not None:
            env["started_ids"] = [_jid(ev.jobs[i].id) for i in started]  # as ids of the shared search
        if kind == "gather":
            env["waits"] = waits
        elif kind == "close":
            env["finished"] = waits[-1] if waits else []
        obs = {"out": out, "env": env, "before": before, **self.snapshot()}
        if kind == "submit" and exc is None:
            obs["truth"] = truth
        return obs

    def own_statuses(self):
        return {_jid(j.id): j.status.name for j in self.ev.jobs}

    def _new_rows(self):
        path = os.path.join(self.dir, "results.csv")
        if not os.path.exists(path):
            return []
        with open(path, newline="") as f:
            text = f.read()
        if text == self.PRE:  # still the older file: this evaluator has not written anything yet
            return []
        rows = list(csv.DictReader(text.splitlines()))
        new, self.rows_seen = rows[self.rows_seen:], len(rows)
        out = []
        for r in new:
            raw = r.get("objective") if self.hpo else r.get("o:")
            if raw is None or raw == "":
                o = None
            elif raw.startswith("F_"):
                o = {"t": "str", "v": raw}
            else:
                o = {"t": "num", "v": common.rat(float(raw))}
            out.append({"id": int(r["job_id"]), "x": int(r["p:x"]), "tag": r["p:tag"], "fail": r["p:fail"] == "True",
                        "out": o, "status": r["job_status"]})
        return out

    def dispose(self):
        try:
            self.ev.close()
        except Exception:
            pass
        for r in self.reg.values():
            r["release"].set()
        try:
            self.ev.__exit__(None, None, None)
        except Exception:
            pass
        shutil.rmtree(self.dir, ignore_errors=True)


def drive(case, spy, vt):
    """runs the whole script on the real code; a call that raises an unexpected exception ends it"""
    real = Real(case, spy, vt)
    trace = []
    try:
        for op in case["ops"]:
            obs = real.do(op)
            trace.append(obs)
            if obs["out"]["kind"] == "error" and obs["out"]["err"].startswith(("other:", "loopClosed")):
                break  # the evaluator's state after an unexpected exception is not specified
    finally:
        real.dispose()
    return trace


# --------------------------------------------------------------------------- L3: the property on the trace


def _expected(cfg, hpo):
    v = value(cfg)
    return {"objective": v} if hpo else v


def oracle(case, trace):
    """returns [(clause, op index, detail)] — statements of C01 that fail on the real trace"""
    bad = []
    hpo = case["hpo"]
    submitted = []  # cfgs in submission order; job id k must carry submitted[k]
    delivered = {}  # id -> via
    dumped, pending_dump = [], []
    closed_with_jobs = False
    for i, (op, obs) in enumerate(zip(case["ops"], trace)):
        kind, out = op["op"], obs["out"]
        if kind.startswith("mutate"):
            continue  # the caller edits its own objects: not a call of the evaluator
        inflight = len(submitted) - len(delivered)
        done_before = len(pending_dump)
        if kind == "submit":
            if out["kind"] == "error":
                bad.append(("no-exception", i, out["msg"]))
                break
            submitted.extend(obs["truth"])  # the configurations as they were when submitted
        elif kind == "gather":
            size = inflight if op["all"] else op["k"]
            if out["kind"] == "error":
                # the only legitimate refusal: a sized gather while nothing is in flight
                if not (size > 0 and inflight == 0 and out["err"] in ("noLoop", "noJobs")):
                    bad.append(("no-exception", i, out["msg"]))
                    break
                continue
            if out["kind"] != "jobs":
                bad.append(("foreign-jobs", i, "gather returned jobs it never submitted"))
                break
            ids = [j["id"] for j in out["jobs"]]
            for j, args, output in zip(out["jobs"], out["_args"], out["_outputs"]):
                if j["id"] in delivered:
                    bad.append(("twice", i, f"job {j['id']} handed back again (first via {delivered[j['id']]})"))
                elif j["id"] >= len(submitted):
                    bad.append(("unknown-job", i, f"job {j['id']} was never submitted"))
                else:
                    cfg = submitted[j["id"]]
                    if args != cfg:
                        bad.append(("payload-config", i, f"job {j['id']} carries {args}, submitted {cfg}"))
                    if output != _expected(cfg, hpo) or type(output) is not type(_expected(cfg, hpo)):
                        bad.append(("payload-output", i, f"job {j['id']} output {output!r}, run-function returned {_expected(cfg, hpo)!r}"))
                    if j["status"] != "DONE":
                        bad.append(("payload-status", i, f"job {j['id']} handed back with status {j['status']}"))
                delivered.setdefault(j["id"], "gather")
            if len(set(ids)) != len(ids):
                bad.append(("twice", i, f"duplicate in one batch {ids}"))
            need = inflight if op["all"] else min(op["k"], inflight)
            if len(ids) < need:
                bad.append(("batch-size", i, f"returned {len(ids)} < min(k, running) = {need}"))
            if op["all"] and len(submitted) != len(delivered):
                bad.append(("all-leaves-running", i, f"{len(submitted) - len(delivered)} job(s) still in flight after gather ALL"))
            pending_dump.extend(ids)
            if [j["id"] for j in obs["jobs_done"]][done_before:] != ids:
                bad.append(("jobs-done", i, "jobs_done does not record exactly the returned jobs"))
        elif kind == "close":
            if out["kind"] == "error":
                bad.append(("no-exception", i, out["msg"]))
                break
            if inflight:
                closed_with_jobs = True
            new = obs["jobs_done"][done_before:]
            fin = set(obs["env"].get("finished", []))
            for j in new:
                if j["id"] in delivered:
                    bad.append(("both", i, f"job {j['id']} recorded by close although already delivered via {delivered[j['id']]}"))
                    continue
                if j["id"] >= len(submitted):
                    bad.append(("unknown-job", i, f"job {j['id']} was never submitted"))
                    continue
                delivered[j["id"]] = "close"
                cfg = submitted[j["id"]]
                exp_done = _canon_out(_expected(cfg, hpo), hpo)
                exp_canc = {"t": "str", "v": "F_CANCELLED"} if hpo else None
                if j["id"] in fin:
                    if j["status"] != "DONE" or j["out"] != exp_done:
                        bad.append(("close-record", i, f"finished job {j['id']} recorded as {j['status']} / {j['out']}"))
                elif j["status"] != "CANCELLED" or j["out"] != exp_canc:
                    bad.append(("close-record", i, f"unfinished job {j['id']} recorded as {j['status']} / {j['out']}"))
                w = _cfg_wire(cfg)
                if (j["x"], j["tag"], j["fail"], j["nest"], j["w"]) != (w["x"], w["tag"], w["fail"], w["nest"], w["w"]):
                    bad.append(("payload-config", i, f"job {j['id']} carries another configuration"))
            pending_dump.extend(j["id"] for j in new)
            if len(delivered) != len(submitted):
                lost = sorted(set(range(len(submitted))) - set(delivered))
                bad.append(("lost", i, f"jobs {lost} neither handed back nor recorded by close"))
        elif kind == "dump":
            if out["kind"] == "error":
                bad.append(("no-exception", i, out["msg"]))
                break
            rows = [j["id"] for j in out["jobs"]]
            if rows and rows != pending_dump:
                bad.append(("dump-once", i, f"rows {rows} written, jobs awaiting dump {pending_dump}"))
            if any(r in dumped for r in rows):
                bad.append(("dump-once", i, f"row written twice {rows}"))
            if rows:
                dumped.extend(rows)
                pending_dump = []
            if [j["id"] for j in obs["jobs_done"]] != pending_dump:
                bad.append(("dump-once", i, "jobs_done after dump is not the set of jobs still awaiting dump"))
        # counters, after every call
        if obs["num_submitted"] != len(submitted):
            bad.append(("count-submitted", i, f"num_jobs_submitted={obs['num_submitted']}, true {len(submitted)}"))
        if obs["num_gathered"] != len(delivered):
            bad.append(("count-gathered", i, f"num_jobs_gathered={obs['num_gathered']}, true {len(delivered)}"))
        if bad:
            break
    return bad, closed_with_jobs


def fingerprint(case, clause, i):
    op = case["ops"][i]
    site = op["op"] + ("(ALL)" if op.get("all") else "(BATCH)" if op["op"] == "gather" else "")
    hist = "after-close" if any(o["op"] == "close" for o in case["ops"][:i]) else "no-close"
    return f"{PROP}|{clause}|{site}|{hist}"


# --------------------------------------------------------------------------- generator


def _mk_cfg(rng, x, backend, hpo=False):
    if backend == "serial":
        d = rng.choice([0, 0, 1, 1, 1, 2, 2, 3, 5]) * Q
    elif backend in ("process", "loky"):
        d = rng.choice([0.0, 0.004, 0.004, 0.012, 0.03])
    else:
        d = 0
    c = {"x": x, "tag": rng.choice("abcdef") + str(x), "fail": rng.random() < 0.2, "d": d}
    r = rng.random()
    if r < 0.15:
        c["form"] = "wrapped"
    elif r < 0.3 and hpo:
        c["form"] = "objdict"
    if backend == "thread":
        c["prio"] = rng.randint(0, 9)
    if rng.random() < 0.45:  # nested mutable values: a list, a dict, a list of dicts
        if rng.random() < 0.7:
            c["layers"] = [rng.randint(1, 4) for _ in range(rng.randint(0, 3))]
        if rng.random() < 0.4:
            c["opts"] = {"lr": rng.randint(1, 3), "act": "relu"}
        if rng.random() < 0.3:
            c["blocks"] = [{"u": rng.randint(1, 3)} for _ in range(rng.randint(1, 2))]
    return c


def _submit_op(rng, x, n, backend, hpo, pool):
    """a submit of n jobs: fresh configurations, the same object twice in one batch, an object of an earlier
    batch again (edited for the new job); `pool` = obj id -> its initial content"""
    cfgs = []
    t = 0
    while t < n:
        r = rng.random()
        if pool and r < 0.2:
            k = rng.choice(sorted(pool))
            base = _mk_cfg(rng, x + t, backend, hpo)
            c = {**{a: b for a, b in pool[k].items() if a not in FLAT}, **{a: base[a] for a in FLAT if a in base}}
            c["obj"] = k
            c["set"] = {a: base[a] for a in ("x", "tag", "fail", "d", "prio") if a in base}
        else:
            c = _mk_cfg(rng, x + t, backend, hpo)
            if nested_part(c) or rng.random() < 0.3:
                c["obj"] = len(pool)
                pool[c["obj"]] = {a: b for a, b in c.items() if a != "obj"}
        cfgs.append(c)
        t += 1
        if "obj" in c and backend != "thread" and t < n and rng.random() < 0.25:
            cfgs.append({a: b for a, b in c.items() if a != "set"})  # the very same object once more
            t += 1
    return {"op": "submit", "cfgs": cfgs}, t


def _mutations(rng, pool, p=0.4):
    out = []
    while pool and rng.random() < p:
        out.append({"op": "mutate", "obj": rng.choice(sorted(pool)), "how": rng.choice(["append", "clear", "opts", "blocks", "top"]),
                    "v": rng.randint(5, 9)})
    return out


def gen_case(rng, backend, maxlen, malformed=False):
    n_ops = rng.randint(2, maxlen)
    hpo = rng.random() < 0.5
    ops, x, inflight = [], 0, 0
    pool = {}
    for _ in range(n_ops):
        r = rng.random()
        if r < 0.32 or (not ops and r < 0.8):
            n = rng.choice([0, 1, 1, 2, 2, 3, 4, 5]) if malformed or rng.random() < 0.1 else rng.choice([1, 1, 2, 2, 3, 4, 5])
            op, n = _submit_op(rng, x, n, backend, hpo, pool)
            ops.append(op)
            ops.extend(_mutations(rng, pool))  # the caller goes on editing what it has just submitted
            x += n
            inflight += n
        elif r < 0.47:
            ops.append({"op": "gather", "all": True, "k": 0})
            inflight = 0
        elif r < 0.77:
            k = rng.choice([1, 1, 1, 2, 2, 3, 4])
            if malformed and rng.random() < 0.3:
                k = rng.choice([0, 7, 9])
            elif inflight == 0 and not malformed and rng.random() < 0.8:
                continue  # mostly-valid stream: do not gather from nothing
            ops.append({"op": "gather", "all": False, "k": k})
            inflight = max(0, inflight - k)  # a lower bound only
        elif r < 0.88:
            ops.append({"op": "close"})
            inflight = 0
        else:
            ops.append({"op": "dump", "flush": rng.random() < 0.3})
            if rng.random() < 0.2:
                ops[-1]["alias"] = True
            if rng.random() < 0.3:
                ops.append({"op": "mutate_returned"})
        if rng.random() < 0.1:
            ops.extend(_mutations(rng, pool, 0.9))
        if ops and ops[-1]["op"] == "gather" and backend == "thread":
            ops[-1]["bursts"] = [rng.choice([1, 1, 2, 3]) for _ in range(3)]
    # probe: the evaluator must stay usable after close, and everything is accounted for at the end
    n = rng.choice([1, 2, 3])
    op, n = _submit_op(rng, x, n, backend, hpo, pool)
    ops += [{"op": "close"}, op] + _mutations(rng, pool)
    ops += [{"op": "gather", "all": False, "k": 1}] if rng.random() < 0.5 else []
    ops += [{"op": "gather", "all": True, "k": 0}, {"op": "dump", "flush": True}, {"op": "close"}]
    for o in ops:
        if o["op"] == "gather" and backend == "thread":
            o.setdefault("bursts", [1])
    case = {"backend": backend, "hpo": hpo, "workers": rng.choice([1, 2, 2, 3, 5]), "ops": ops, "malformed": malformed}
    if rng.random() < 0.15:
        case["preexisting_csv"] = True
    return case


# --------------------------------------------------------------------------- L2 requests


def _cfg_wire(c):
    return {"x": c["x"], "tag": c["tag"], "fail": c["fail"], "zero": bool(c.get("zero", False)),
            "nest": common.canon(nested_part(c)), "w": weight(nested_part(c))}


def lean_requests(case, trace, pre=False):
    reqs = [{"op": "init", "hpo": case["hpo"], "pre": pre}]
    for op, obs in zip(case["ops"], trace):
        k = op["op"]
        if k.startswith("mutate"):
            reqs.append({"op": "noop"})
        elif k == "submit":
            reqs.append({"op": "submit", "cfgs": [_cfg_wire(c) for c in obs.get("truth", op["cfgs"])]})
        elif k == "gather":
            reqs.append({"op": "gather", "all": op["all"], "k": op["k"], "started": obs["env"]["started"],
                         "waits": obs["env"].get("waits", [])})
        elif k == "close":
            reqs.append({"op": "close", "finished": obs["env"].get("finished", [])})
        else:
            reqs.append({"op": "dump", "flush": op["flush"]})
    return reqs


def lean_trace(case, trace):
    """the observable trace (no environment input) in the wire form of `Model/EvaluatorTrace.lean`"""
    steps, index = [], []
    for i, (op, obs) in enumerate(zip(case["ops"], trace)):
        k, out = op["op"], obs["out"]
        if k.startswith("mutate"):
            continue
        index.append(i)
        if k == "submit":
            call = {"op": "submit", "cfgs": [_cfg_wire(c) for c in obs.get("truth", op["cfgs"])]}
        elif k == "gather":
            call = {"op": "gather", "all": op["all"], "k": op["k"]}
        else:
            call = {"op": k}
        if out["kind"] == "jobs":
            res = {"kind": "jobs", "jobs": out["jobs"]}
        elif out["kind"] == "rows":
            res = {"kind": "rows", "ids": [j["id"] for j in out["jobs"]]}
        elif out["kind"] == "unit":
            res = {"kind": "unit"}
        elif out["kind"] == "error":
            res = {"kind": "error", "err": out["err"] if out["err"] in ("noLoop", "noJobs") else "other"}
        else:  # gather returned (local, other): jobs this evaluator never submitted
            res = {"kind": "error", "err": "other"}
        steps.append({"call": call, "res": res, "num_submitted": obs["num_submitted"], "num_gathered": obs["num_gathered"],
                      "jobs_done": obs["jobs_done"]})
    return {"op": "check", "hpo": case["hpo"], "trace": steps}, index


def lean_failure(case, trace, d):
    """(fingerprint, clause, call index, detail) from the verified checker `checkTrace` run on the
    implementation's trace, or None when the trace satisfies TraceSpec"""
    req, index = lean_trace(case, trace)
    rep = d.ask(req)
    if rep["spec"]:
        return None
    i, clause = index[rep["first_bad"]], rep["clause"]
    detail = f"checkTrace = false: clause {clause} at call {i}"
    out = trace[i]["out"]
    if out["kind"] == "error":
        detail = out["msg"]
        if clause == "no-exception":
            clause += ":" + out["msg"].split(":")[0]
    elif out["kind"] == "jobs+other":
        clause = "foreign-jobs"
    return fingerprint(case, clause, i), clause, i, detail


def _strip(out):
    return {k: v for k, v in out.items() if not k.startswith("_") and k != "msg"}


def compare(case, trace, reps):
    """first disagreement between the implementation's observations and the model's replies"""
    for i, (op, obs, rep) in enumerate(zip(case["ops"], trace, reps[1:])):
        if not rep["env_ok"]:
            return {"op": i, "what": "the observed environment violates the modelled asyncio contract (EnvOK)", "env": obs["env"]}
        mine = {"out": _strip(obs["out"]), "num_submitted": obs["num_submitted"], "num_gathered": obs["num_gathered"],
                "jobs_done": obs["jobs_done"], "statuses": obs["statuses"]}
        model = {k: rep[k] for k in mine}
        if mine["out"].get("kind") == "rows":
            model["out"] = {"kind": "rows", "jobs": [{k: v for k, v in j.items() if k not in ("nest", "w", "zero")}
                                                     for j in model["out"].get("jobs", [])]}
        if rep["other"]:
            return {"op": i, "what": "model: gather_other_jobs_done would return jobs", "other": rep["other"]}
        if json.loads(common.canon(mine)) != json.loads(common.canon(model)):
            diff = {k: {"impl": mine[k], "model": model[k]} for k in mine
                    if json.loads(common.canon(mine[k])) != json.loads(common.canon(model[k]))}
            return {"op": i, "call": {k: v for k, v in op.items() if k != "cfgs"}, "diff": diff, "env": obs["env"]}
    return None


# --------------------------------------------------------------------------- shrinking


def _first_failure(case, trace):
    """(fingerprint, clause, call index, detail) of the first failing statement, or None"""
    bad, _ = oracle(case, trace)
    if not bad:
        return None
    clause, i, detail = bad[0]
    if clause == "no-exception":  # which exception is part of the failure class
        clause += ":" + detail.split(":")[0]
    return fingerprint(case, clause, i), clause, i, detail


def _fails_same(case, spy, vt, fp):
    ff = _first_failure(case, drive(case, spy, vt))
    return ff is not None and ff[0] == fp, ff


def shrink(case, spy, vt, fp, budget=80):
    """greedy: drop calls, then configurations, while the same clause still fails"""
    cur = json.loads(json.dumps(case))
    changed, tries = True, 0
    while changed and tries < budget:
        changed = False
        for i in range(len(cur["ops"])):
            cand = json.loads(json.dumps(cur))
            del cand["ops"][i]
            tries += 1
            ok, _ = _fails_same(cand, spy, vt, fp)
            if ok:
                cur, changed = cand, True
                break
            if tries >= budget:
                break
        if changed:
            continue
        for i, op in enumerate(cur["ops"]):
            if op["op"] == "submit" and len(op["cfgs"]) > 1:
                cand = json.loads(json.dumps(cur))
                cand["ops"][i]["cfgs"].pop()
                tries += 1
                ok, _ = _fails_same(cand, spy, vt, fp)
                if ok:
                    cur, changed = cand, True
                    break
    # renumber x so that job id k carries x = k (not when objects are reused: x is part of the edits)
    if any("obj" in c for op in cur["ops"] if op["op"] == "submit" for c in op["cfgs"]):
        return cur
    x = 0
    for op in cur["ops"]:
        if op["op"] == "submit":
            for c in op["cfgs"]:
                c["x"] = x
                c["tag"] = c["tag"][0] + str(x)
                x += 1
    return cur


# --------------------------------------------------------------------------- run


def _stats(ck, case, trace):
    ck.count("backend:" + case["backend"])
    ck.count("format:" + ("hpo" if case["hpo"] else "regular"))
    ck.count(f"workers={case['workers']}")
    for idx, (op, obs) in enumerate(zip(case["ops"], trace)):
        k = op["op"] + ("-ALL" if op.get("all") else "")
        ck.count("op:" + k)
        o = obs["out"]
        if o["kind"] == "error":
            ck.count("error:" + o["err"])
        if op["op"] == "gather" and o["kind"] == "jobs":
            ck.count(f"gather-returned={min(len(o['jobs']), 5)}{'+' if len(o['jobs']) > 5 else ''}")
            ws = obs["env"].get("waits", [])
            ck.count(f"waits-per-gather={min(len(ws), 4)}{'+' if len(ws) > 4 else ''}")
            if ws and any(len(w) >= 2 for w in ws):
                ck.count("several-completions-in-one-wakeup")
            if len(o["jobs"]) > (len(o["jobs"]) if op["all"] else op["k"]):
                ck.count("batch-larger-than-k")
            if [j["id"] for j in o["jobs"]] != sorted(j["id"] for j in o["jobs"]):
                ck.count("returned-out-of-submission-order")
        if op["op"] == "close":
            # in which phase close() met the jobs (READY = task never ran or waits for a worker slot)
            fin_set = set(obs["env"].get("finished", []))
            nprev = sum(len(o["cfgs"]) for o in case["ops"][:idx] if o["op"] == "submit")
            fresh = len(case["ops"][idx - 1]["cfgs"]) if idx and case["ops"][idx - 1]["op"] == "submit" else 0
            for i, b in enumerate(obs.get("before", [])):
                if b == "READY":
                    ck.count(f"close-with-job-{'never-ran' if i >= nprev - fresh else 'waiting-for-worker'}:{case['backend']}")
                elif b == "RUNNING":
                    ck.count(f"close-with-job-{'finished-ungathered' if i in fin_set else 'running'}:{case['backend']}")
            fin = obs["env"].get("finished", [])
            new_c = sum(1 for j in obs["jobs_done"] if j["status"] == "CANCELLED")
            ck.count("close:" + ("finished+cancelled" if fin and new_c else "finished-only" if fin else "cancelled-only" if new_c else "idle"))
        if op["op"] == "dump":
            ck.count("dump:" + ("rows" if o.get("jobs") else "nothing" if not obs["jobs_done"] else "held-back"))


def _nontrivial(case, trace):
    kinds = {o["op"] for o in case["ops"]}
    return len(trace) >= 4 and "gather" in kinds and any(o["op"] == "submit" and len(o["cfgs"]) >= 2 for o in case["ops"])


def check_case(ck, d, case, spy, vt, from_corpus=False):
    trace = drive(case, spy, vt)
    return judge(ck, d, case, trace, spy, vt, from_corpus)


def judge(ck, d, case, trace, spy, vt, from_corpus=False, within=None):
    """L3 (Lean checkTrace + Python cross-check) and L2 for the trace of ONE evaluator; `within` = the
    scenario with several evaluators this trace was recorded in (then it is the stored replay)"""
    complete = len(trace) == len(case["ops"])
    _stats(ck, case, trace)
    ck.case({k: case[k] for k in ("backend", "hpo", "workers", "ops")}, nontrivial=_nontrivial(case, trace))
    if case.get("preexisting_csv"):
        ck.count("results.csv-existed-before")
    for o in case["ops"]:
        if o["op"] == "submit":
            for c in o["cfgs"]:
                ck.count("return-form:" + c.get("form", "plain"))
        elif o["op"] == "dump" and o.get("alias"):
            ck.count("dump-via-dump_evals")
    # L3: the verified checker (theorem C01_checker) on the implementation's trace; the Python statement
    # of the property is kept as a cross-check
    ff_py = _first_failure(case, trace)
    ff = lean_failure(case, trace, d)
    if (ff is None) != (ff_py is None) or (ff and ff_py and ff[2] != ff_py[2]):
        ck.mismatch(case, {"what": "oracle disagreement: Lean checkTrace vs. the Python statement of the property",
                           "lean": ff, "python": ff_py})
    if ff:
        fp, clause, i, detail = ff
        if ff_py and ff_py[2] == i and detail.startswith("checkTrace"):
            detail += " (" + str(ff_py[3]) + ")"
        small = case
        seen = ck.extra_cov.setdefault("_fails", {})
        seen[clause] = seen.get(clause, 0) + 1
        # shrink the first few failing scripts of every clause; later ones keep their own fingerprint
        if within is not None:
            fp += "+other-evaluators-alive"
            small = within
        elif case["backend"] == "serial" and not from_corpus and seen[clause] <= 8 and ff_py and ff_py[0] == fp:
            cand = shrink(case, spy, vt, fp)
            tr2 = drive(cand, spy, vt)
            ff2 = lean_failure(cand, tr2, d)
            if ff2 and ff2[0] == fp:
                small, (fp, clause, i, detail) = cand, ff2
        ck.fail(fp, f"{clause} at call {i} ({case['ops'][i]['op'] if within is not None else small['ops'][i]['op']}): {detail}", small,
                {"clause": clause, "call_index": i, "detail": detail, "oracle": "Lean checkTrace (C01_checker)",
                 **({"evaluator": case.get("_index")} if within is not None else {})})
    bad = ff
    # L2
    reps = d.ask_all(lean_requests(case, trace))
    mm = compare(case, trace, reps)
    if mm is not None:
        ck.mismatch(case, mm)
    elif not complete and not bad:
        ck.mismatch(case, "script ended early without an oracle failure")
    return bad, mm


# --------------------------------------------------------------------------- several independent evaluators


def gen_multi_case(rng, maxlen=7):
    """2-3 independent evaluators (own storage) alive at once in one thread, their calls interleaved; one of
    them may be dropped (garbage-collected, which closes it) while the others have jobs in flight"""
    k = rng.choice([2, 2, 3])
    evs = [gen_case(rng, "serial", maxlen) for _ in range(k)]
    if rng.random() < 0.4:  # the caller forgets one evaluator in the middle of its script
        v = rng.randrange(k)
        cut = rng.randint(1, len(evs[v]["ops"]) - 1)
        evs[v]["ops"] = evs[v]["ops"][:cut] + [{"op": "drop"}]
    slots = [i for i, e in enumerate(evs) for _ in e["ops"]]
    rng.shuffle(slots)
    return {"multi": True, "backend": "serial", "evaluators": evs, "schedule": slots}


def check_multi(ck, d, case, spy, vt):
    """non-interference: the trace of every evaluator must satisfy the property (checkTrace) and agree with
    the model whatever happens to the other evaluators"""
    import gc

    evs = case["evaluators"]
    reals = [Real(e, spy, vt if i == 0 else None) for i, e in enumerate(evs)]
    traces = [[] for _ in evs]
    pos = [0] * len(evs)
    dead = set()
    try:
        for who in case["schedule"]:
            if who in dead or pos[who] >= len(evs[who]["ops"]):
                continue
            op = evs[who]["ops"][pos[who]]
            pos[who] += 1
            if op["op"] == "drop":
                reals[who].ev = None  # the last reference: __del__ closes the evaluator
                gc.collect()
                dead.add(who)
                ck.count("multi:evaluator-garbage-collected-while-others-alive")
                continue
            obs = reals[who].do(op)
            traces[who].append(obs)
            if obs["out"]["kind"] == "error" and obs["out"]["err"].startswith(("other:", "loopClosed")):
                dead.add(who)
            if op["op"] == "close" and any(p < len(e["ops"]) and j != who and j not in dead
                                           for j, (p, e) in enumerate(zip(pos, evs))):
                ck.count("multi:close-while-others-alive")
    finally:
        for r in reals:
            if r.ev is not None:
                r.dispose()
    ck.count("multi-evaluator-scenario")
    ck.case({"multi": True, "evaluators": [e["ops"] for e in evs], "schedule": case["schedule"]}, nontrivial=True)
    out = []
    for i, (e, tr) in enumerate(zip(evs, traces)):
        sub = dict(e)
        sub["ops"] = [o for o in e["ops"] if o["op"] != "drop"]
        sub["_index"] = i
        out.append(judge(ck, d, sub, tr, spy, vt, from_corpus=True, within=case))
    return out


# --------------------------------------------------------------------------- two evaluators, one storage search


def shared_storage_case(ck, rng, vt, seed=None):
    """`gather_other_jobs_done`: two evaluators attached to the same storage search (the decentralised
    set-up).  Outside the Lean model (single evaluator); the property is stated directly: an evaluator
    hands back every job it submitted itself exactly once, and additionally reports every job the OTHER
    evaluator has gathered — as `other` results, at most once each, with the right payload; the counters
    count the shared search."""
    import contextlib
    import io

    from deephyper.evaluator import HPOJob, SerialEvaluator
    from deephyper.evaluator.storage import MemoryStorage
    import random

    seed = rng.getrandbits(32) if seed is None else seed
    rng = random.Random(seed)  # the scenario is a function of this seed (stored in the replay)
    vt.reset()
    storage = MemoryStorage()
    sid = storage.create_new_search()
    evs = [SerialEvaluator(run_serial, num_workers=rng.choice([1, 2, 3]), storage=storage, search_id=sid) for _ in range(2)]
    for e in evs:
        e._job_class = HPOJob  # outputs reach the storage only in the HPO format
    try:
        SerialEvaluator(run_serial, storage=storage, search_id="no-such-search")
        ck.count("shared-storage:unknown-search-accepted")
    except ValueError:
        ck.count("shared-storage:unknown-search-rejected")
    owner, cfgs = {}, {}
    local = [set(), set()]   # delivered to its own submitter
    closed = [set(), set()]  # recorded by its own close()
    other = [set(), set()]   # reported to the other evaluator
    script, bad = [], []
    x = 0
    steps = [(rng.randint(0, 1), rng.choice(["submit", "submit", "submit", "batch", "batch", "all", "all", "close"]))
             for _ in range(rng.randint(3, 10))]
    steps += [(0, "all"), (1, "all"), (0, "all"), (1, "all")]
    try:
        for who, what in steps:
            ev = evs[who]
            script.append([who, what])
            if what == "submit":
                n = rng.randint(1, 3)
                cs = [_mk_cfg(rng, x + t, "serial", True) for t in range(n)]
                before = set(storage.load_all_job_ids(sid))
                ev.submit([dict(c) for c in cs])
                new = sorted(set(storage.load_all_job_ids(sid)) - before, key=_jid)
                if len(new) != n:
                    bad.append(f"submit of {n} created jobs {new}")
                for jid, c in zip(new, cs):
                    owner[_jid(jid)] = who
                    cfgs[_jid(jid)] = c
                x += n
                continue
            inflight = [j for j, w in owner.items() if w == who and j not in local[who] and j not in closed[who]]
            if what == "close":  # while the other evaluator may have jobs in flight
                ev.close()
                closed[who].update(inflight)
                if ev.num_jobs_gathered != len(local[who]) + len(closed[who]) + len(other[who]):
                    bad.append(f"evaluator {who} after close: num_jobs_gathered={ev.num_jobs_gathered}")
                    break
                continue
            if what == "batch" and not inflight:
                continue
            with contextlib.redirect_stdout(io.StringIO()):
                res = ev.gather("ALL") if what == "all" else ev.gather("BATCH", 1)
            loc, oth = res if isinstance(res, tuple) else (res, [])
            for jb in loc:
                j = _jid(jb.id)
                if owner.get(j) != who or j in local[who] or j in closed[who]:
                    bad.append(f"evaluator {who} hands back job {j} (owner {owner.get(j)}, already delivered: {j in local[who]})")
                elif jb.args != cfgs[j] or jb.output != _expected(cfgs[j], True) or jb.status.name != "DONE":
                    bad.append(f"job {j} local payload {jb.args} / {jb.output} / {jb.status.name}")
                local[who].add(j)
            for jb in oth:
                j = _jid(jb.id)
                if owner.get(j) != 1 - who:
                    bad.append(f"evaluator {who} reports its own / an unknown job {j} as foreign")
                elif j in other[who]:
                    bad.append(f"evaluator {who} is told about foreign job {j} twice")
                elif j not in local[1 - who] and j not in closed[1 - who]:
                    bad.append(f"foreign job {j} reported before its evaluator gathered it")
                elif jb.args != cfgs[j] or (jb.output != _expected(cfgs[j], True) and
                                            not (j in closed[1 - who] and jb.output == {"objective": "F_CANCELLED"})):
                    bad.append(f"foreign job {j} payload {jb.args} / {jb.output}")
                other[who].add(j)
            total = len(owner)
            if ev.num_jobs_submitted != total:
                bad.append(f"evaluator {who}: num_jobs_submitted={ev.num_jobs_submitted}, jobs in the shared search {total}")
            if ev.num_jobs_gathered != len(local[who]) + len(closed[who]) + len(other[who]):
                bad.append(f"evaluator {who}: num_jobs_gathered={ev.num_jobs_gathered}, handed back {len(local[who])} + closed {len(closed[who])} + foreign {len(other[who])}")
            if bad:
                break
        if not bad:
            for who in (0, 1):
                mine = {j for j, w in owner.items() if w == who}
                if local[who] | closed[who] != mine:
                    bad.append(f"evaluator {who} never handed back {sorted(mine - local[who] - closed[who])}")
                if other[1 - who] != mine:
                    bad.append(f"evaluator {1 - who} was never told about foreign jobs {sorted(mine - other[1 - who])}")
    except Exception as e:  # what a user of the API would see
        bad.append(f"{type(e).__name__}: {e}")
    finally:
        for e in evs:
            try:
                e.close()
            except Exception:
                pass
    case = {"backend": "serial", "shared_storage": True, "seed": seed, "script": script, "jobs": len(owner)}
    ck.case(case, nontrivial=len(owner) >= 2)
    ck.count("shared-storage-scenario")
    ck.count("shared-storage:foreign-jobs-reported", sum(len(o) for o in other))
    if bad:
        ck.fail(f"{PROP}|other-jobs|gather|shared-storage", "two evaluators on one storage search: " + bad[0], case, bad[:5])


# --------------------------------------------------------------------------- several evaluators, ONE storage search
# (Model/EvaluatorMulti.lean): interleaved calls of 1-3 evaluators attached to the same MemoryStorage search,
# incl. set_maximum_num_jobs_submitted / MaximumJobsSpawnReached; L2 = step-by-step replay against `mStep`,
# L3 = the verified checker `checkMTrace` (theorem C01_multi_checker) on the real trace + a Python cross-check.


_ZERO_TRUTHY = None


def zero_output_is_reported():
    """does `gather_other_jobs_done` report a job whose stored objective is 0.0?  (`if job_data["out"]`: no;
    `if job_data["out"] is not None`: yes) — a parameter (`truthy`) of the model, observed once per run"""
    global _ZERO_TRUTHY
    if _ZERO_TRUTHY is None:
        import contextlib
        import io

        from deephyper.evaluator import HPOJob, SerialEvaluator
        from deephyper.evaluator.storage import MemoryStorage

        async def zero(job):
            return 0.0

        st = MemoryStorage()
        sid = st.create_new_search()
        a, b = (SerialEvaluator(zero, storage=st, search_id=sid) for _ in range(2))
        a._job_class = b._job_class = HPOJob
        a.submit([{"x": 0}])
        with contextlib.redirect_stdout(io.StringIO()):
            a.gather("ALL")
            res = b.gather("ALL")
        a.close()
        b.close()
        _ZERO_TRUTHY = isinstance(res, tuple) and len(res[1]) == 1
    return _ZERO_TRUTHY


def gen_shared_case(rng, backend, maxlen, malformed=False):
    n = rng.choice([1, 2, 2, 2, 3, 3])
    hpo = rng.random() < 0.85  # stored outputs (hence reports to the other evaluators) exist in the HPO format only
    big = rng.random() < 0.25  # more than 10 jobs: the ids "s.10", "s.11" sort before "s.2" in np.setdiff1d
    edits = rng.random() < 0.3  # the caller goes on editing the objects it submitted
    caps = rng.random() < 0.45
    ops, x = [], 0
    pool = {}
    inflight = [0] * n
    n_ops = rng.randint(3, maxlen + (6 if big else 0))
    for _ in range(n_ops):
        who = rng.randrange(n)
        r = rng.random()
        if caps and r < 0.14:
            cap = rng.choice([-1, 0, 1, 2, 2, 3, 3, 4, 6, 9])
            ops.append({"who": who, "op": "setmax", "n": cap})
            if cap > 0 and rng.random() < 0.6:  # a batch the cap cuts in the middle
                k = cap + rng.randint(0, 3)
                ops.append({"who": who, "op": "submit", "cfgs": [_mk_cfg(rng, x + t, backend, hpo) for t in range(k)]})
                x += k
                inflight[who] += k  # an upper bound
            continue
        r = rng.random()
        if r < 0.36 or (not ops and r < 0.8):
            k = rng.choice([1, 1, 2, 2, 3, 4, 5]) + (rng.choice([0, 3, 5]) if big else 0)
            if malformed and rng.random() < 0.2:
                k = 0
            if edits:
                op, k = _submit_op(rng, x, k, backend, hpo, pool)
            else:
                op = {"op": "submit", "cfgs": [_mk_cfg(rng, x + t, backend, hpo) for t in range(k)]}
            if rng.random() < 0.12 and op["cfgs"] and hpo:
                op["cfgs"][rng.randrange(len(op["cfgs"]))]["zero"] = True  # objective 0.0: a falsy stored output
            ops.append({"who": who, **op})
            if edits:
                ops.extend({"who": who, **m} for m in _mutations(rng, pool))
            x += k
            inflight[who] += k
        elif r < 0.56:
            ops.append({"who": who, "op": "gather", "all": True, "k": 0})
            inflight[who] = 0
        elif r < 0.8:
            k = rng.choice([1, 1, 1, 2, 2, 3])
            if malformed and rng.random() < 0.3:
                k = rng.choice([0, 7])
            elif inflight[who] == 0 and not malformed and rng.random() < 0.85:
                ops.append({"who": who, "op": "gather", "all": True, "k": 0})  # nothing of its own: still hears of the others
                continue
            ops.append({"who": who, "op": "gather", "all": False, "k": k})
            inflight[who] = max(0, inflight[who] - k)
        elif r < 0.9:
            ops.append({"who": who, "op": "close"})
            inflight[who] = 0
        else:
            ops.append({"who": who, "op": "dump", "flush": rng.random() < 0.3})
    # probe: everybody collects what is left, twice (the second round reports the others' last jobs), dumps, closes
    order = list(range(n))
    rng.shuffle(order)
    for rnd in range(2):
        for who in order:
            ops.append({"who": who, "op": "gather", "all": True, "k": 0})
    for who in order:
        ops += [{"who": who, "op": "dump", "flush": True}, {"who": who, "op": "close"}]
    for o in ops:
        if o["op"] == "gather" and backend == "thread":
            o["bursts"] = [rng.choice([1, 1, 2, 3]) for _ in range(3)]
    return {"shared": True, "backend": backend, "hpo": hpo, "n": n, "workers": [rng.choice([1, 2, 2, 3, 5]) for _ in range(n)],
            "ops": ops, "malformed": malformed}


def drive_shared(case, spy, vt):
    from deephyper.evaluator.storage import MemoryStorage

    storage = MemoryStorage()
    sid = storage.create_new_search()
    shared = {"storage": storage, "sid": sid, "pool": {}, "reg": {}, "prio": {}, "objs": []}
    reals = []
    for i in range(case["n"]):
        sub = {"backend": case["backend"], "hpo": case["hpo"], "workers": case["workers"][i]}
        reals.append(Real(sub, spy, vt if i == 0 else None, shared=shared))
    if case["backend"] == "thread":
        global _REG_CURRENT
        _REG_CURRENT = shared["reg"]
    trace = []
    truth = []  # the configurations that became jobs, as they were when submitted (job id = position)
    try:
        for op in case["ops"]:
            obs = reals[op["who"]].do({k: v for k, v in op.items() if k != "who"})
            if op["op"] == "submit":
                truth.extend(obs.get("truth", []))
            st = {}
            for r in reals:
                st.update(r.own_statuses())
            obs["all_statuses"] = [st.get(i) for i in range(len(truth))]
            if op["op"] == "gather":
                # jobs whose caller-side object no longer is what was submitted (the caller's own edits)
                obs["edited"] = {i: copy.deepcopy(o) for i, (o, t) in enumerate(zip(shared["objs"], truth)) if o != t}
            trace.append(obs)
            if obs["out"]["kind"] == "error" and obs["out"]["err"].startswith(("other:", "loopClosed")):
                break
    finally:
        for r in reals:
            r.dispose()
    return trace


def _shared_calls(case, trace):
    """(index, op, obs) of the calls of the evaluators (the caller's own edits are not calls)"""
    return [(i, op, obs) for i, (op, obs) in enumerate(zip(case["ops"], trace)) if not op["op"].startswith("mutate")]


def _wire_call(op, obs, env):
    k = op["op"]
    if k == "submit":
        # the configurations the caller passed (all of them: the model decides which become jobs)
        return {"op": "submit", "cfgs": [_cfg_wire(c) for c in obs["_passed"]]}
    if k == "gather":
        c = {"op": "gather", "all": op["all"], "k": op["k"]}
        if env:
            c.update(started=obs["env"]["started_ids"], waits=obs["env"].get("waits", []))
        return c
    if k == "close":
        return {"op": "close", **({"finished": obs["env"].get("finished", [])} if env else {})}
    if k == "dump":
        return {"op": "dump", **({"flush": op["flush"]} if env else {})}
    return {"op": "setmax", "n": op["n"]}


def _wire_res(out):
    if out["kind"] == "jobs":
        return {"kind": "jobs", "jobs": out["jobs"], "other": out.get("other", [])}
    if out["kind"] == "rows":
        return {"kind": "rows", "ids": [j["id"] for j in out["jobs"]]}
    if out["kind"] in ("unit", "spawnmax"):
        return {"kind": out["kind"]}
    return {"kind": "error", "err": out["err"] if out.get("err") in ("noLoop", "noJobs") else "other"}


def shared_requests(case, trace):
    reqs = [{"op": "minit", "hpo": case["hpo"], "n": case["n"], "out_truthy_always": zero_output_is_reported()}]
    for i, op, obs in _shared_calls(case, trace):
        reqs.append({"op": "mstep", "who": op["who"], "call": _wire_call(op, obs, True)})
    return reqs


def shared_trace(case, trace):
    steps, index = [], []
    for i, op, obs in _shared_calls(case, trace):
        index.append(i)
        steps.append({"who": op["who"], "call": _wire_call(op, obs, False), "res": _wire_res(obs["out"]),
                      "num_submitted": obs["num_submitted"], "num_gathered": obs["num_gathered"], "jobs_done": obs["jobs_done"]})
    return {"op": "mcheck", "hpo": case["hpo"], "n": case["n"], "out_truthy_always": zero_output_is_reported(), "trace": steps}, index


def _prepare_shared(case, trace):
    """per call: the configurations passed to submit as they were at that moment (ground truth + the ones the cap
    left out), the started jobs as storage ids"""
    for op, obs in zip(case["ops"], trace):
        if op["op"] == "submit":
            made = obs.get("truth", [])
            rest = [{a: b for a, b in c.items() if a not in ("obj", "set")} for c in op["cfgs"][len(made):]]
            obs["_passed"] = made + rest


def oracle_shared(case, trace):
    """Python statement of the property for several evaluators on one search (cross-check of `checkMTrace`):
    [(clause, op index, detail)]"""
    hpo, n = case["hpo"], case["n"]
    cfgs, owner = [], []
    E = [{"del": {}, "recs": {}, "rep": set(), "pend": [], "off": 0, "cap": -1} for _ in range(n)]
    bad = []
    for i, op, obs in _shared_calls(case, trace):
        who, kind, out = op["who"], op["op"], obs["out"]
        e = E[who]
        inflight = sum(1 for w in owner if w == who) - len(e["del"])
        pend0 = list(e["pend"])
        if out["kind"] == "error" and not (kind == "gather" and not op["all"] and op["k"] > 0 and inflight == 0
                                           and out["err"] in ("noLoop", "noJobs")):
            bad.append(("no-exception", i, out["msg"]))
            break
        if kind == "submit":
            passed = obs["_passed"]
            room = len(passed) if e["cap"] <= 0 else min(len(passed), max(0, e["cap"] - (len(cfgs) - e["off"])))
            made = obs.get("truth", [])
            if len(made) != room or (out["kind"] == "spawnmax") != (room < len(passed)):
                bad.append(("cap", i, f"cap {e['cap']}, {len(cfgs) - e['off']} counted as submitted: {len(passed)} passed, {len(made)} created, result {out['kind']}"))
            cfgs.extend(made)
            owner.extend([who] * len(made))
        elif kind == "setmax":
            e["cap"], e["off"] = op["n"], len(e["del"]) + len(e["rep"])
        elif kind == "gather" and out["kind"] == "jobs":
            ids = [j["id"] for j in out["jobs"]]
            for j, args, output in zip(out["jobs"], out["_args"], out["_outputs"]):
                g = j["id"]
                if g in e["del"] or ids.count(g) > 1:
                    bad.append(("twice", i, f"job {g} handed back again"))
                elif g >= len(cfgs):
                    bad.append(("unknown-job", i, f"job {g} was never submitted"))
                elif owner[g] != who:
                    bad.append(("not-owner", i, f"evaluator {who} hands back job {g} of evaluator {owner[g]} as its own"))
                else:
                    if args != cfgs[g]:
                        bad.append(("payload-config", i, f"job {g} carries {args}, submitted {cfgs[g]}"))
                    if output != _expected(cfgs[g], hpo) or type(output) is not type(_expected(cfgs[g], hpo)):
                        bad.append(("payload-output", i, f"job {g} output {output!r}"))
                    if j["status"] != "DONE":
                        bad.append(("payload-status", i, f"job {g} handed back with status {j['status']}"))
                e["del"].setdefault(g, "gather")
                e["recs"][g] = j
            need = inflight if op["all"] else min(op["k"], inflight)
            if len(ids) < need:
                bad.append(("batch-size", i, f"returned {len(ids)} < {need}"))
            if op["all"] and len(ids) != inflight and not bad:
                bad.append(("all-leaves-running", i, f"{inflight - len(ids)} job(s) of evaluator {who} still in flight after gather ALL"))
            oids = [j["id"] for j in out.get("other", [])]
            foreign = {g: r for w in range(n) if w != who for g, r in E[w]["recs"].items()}
            for j, args, output in zip(out.get("other", []), out.get("_other_args", []), out.get("_other_outputs", [])):
                g = j["id"]
                if g in e["rep"] or oids.count(g) > 1:
                    bad.append(("other-twice", i, f"evaluator {who} is told about job {g} twice"))
                elif g < len(owner) and owner[g] == who:
                    bad.append(("other-own", i, f"evaluator {who} is told about its own job {g} as another evaluator's"))
                elif g not in foreign:
                    bad.append(("other-early", i, f"job {g} reported to evaluator {who} before its owner accounted for it"))
                elif args != cfgs[g]:
                    bad.append(("other-payload-config", i, f"job {g} reported with {args}, submitted {cfgs[g]}"))
                elif j != foreign[g]:
                    bad.append(("other-payload-output", i, f"job {g} reported as {j}, its owner saw {foreign[g]}"))
                e["rep"].add(g)
            for g, r in foreign.items():
                if g not in e["rep"] and hpo and r["out"] is not None and (zero_output_is_reported() or r["out"]["v"] not in ("0/1", "")):
                    bad.append(("other-missing", i, f"job {g} (accounted for by evaluator {owner[g]}) not reported to evaluator {who}"))
            e["pend"] += ids + oids
        elif kind == "close":
            new = obs["jobs_done"][len(pend0):]
            for j in new:
                g = j["id"]
                if g in e["del"]:
                    bad.append(("both", i, f"job {g} recorded by close although already delivered"))
                    continue
                if g >= len(cfgs):
                    bad.append(("unknown-job", i, f"job {g} was never submitted"))
                    continue
                if owner[g] != who:
                    bad.append(("not-owner", i, f"close of evaluator {who} records job {g} of evaluator {owner[g]}"))
                    continue
                e["del"][g] = "close"
                e["recs"][g] = j
                exp_done = _canon_out(_expected(cfgs[g], hpo), hpo)
                exp_canc = {"t": "str", "v": "F_CANCELLED"} if hpo else None
                if not ((j["status"] == "DONE" and j["out"] == exp_done) or (j["status"] == "CANCELLED" and j["out"] == exp_canc)):
                    bad.append(("close-record", i, f"job {g} recorded as {j['status']} / {j['out']}"))
                w = _cfg_wire(cfgs[g])
                if (j["x"], j["tag"], j["fail"], j["nest"], j["w"]) != (w["x"], w["tag"], w["fail"], w["nest"], w["w"]):
                    bad.append(("payload-config", i, f"job {g} carries another configuration"))
            if len(new) != inflight and not bad:
                bad.append(("lost", i, f"close of evaluator {who} records {len(new)} of its {inflight} job(s) in flight"))
            e["pend"] += [j["id"] for j in new]
        elif kind == "dump":
            rows = [j["id"] for j in out["jobs"]]
            if rows and rows != e["pend"]:
                bad.append(("dump-once", i, f"rows {rows} written, jobs awaiting dump {e['pend']}"))
            if rows:
                e["pend"] = []
        if kind != "close" and not bad and [j["id"] for j in obs["jobs_done"]] != e["pend"]:
            bad.append(("dump-once" if kind == "dump" else "jobs-done", i, f"jobs_done {[j['id'] for j in obs['jobs_done']]}, expected {e['pend']}"))
        if not bad:
            if obs["num_submitted"] != len(cfgs) - e["off"]:
                bad.append(("count-submitted", i, f"num_jobs_submitted={obs['num_submitted']}, jobs in the search {len(cfgs)} - offset {e['off']}"))
            elif obs["num_gathered"] != len(e["del"]) + len(e["rep"]) - e["off"]:
                bad.append(("count-gathered", i, f"num_jobs_gathered={obs['num_gathered']}, own {len(e['del'])} + reported {len(e['rep'])} - offset {e['off']}"))
        if bad:
            break
    return bad


def shared_fingerprint(case, trace, clause, i):
    op = case["ops"][i]
    site = op["op"] + ("(ALL)" if op.get("all") else "(BATCH)" if op["op"] == "gather" else "")
    opt = "shared-storage"
    if clause == "other-payload-config":
        # is it the caller's own later edit of the submitted object that the report carries?
        obs = trace[i]
        for j, args in zip(obs["out"].get("other", []), obs["out"].get("_other_args", [])):
            if j["id"] in obs.get("edited", {}) and args == obs["edited"][j["id"]]:
                opt += "+caller-edit"
                break
    if any(o["op"] == "setmax" for o in case["ops"][:i]) and clause in ("cap", "count-submitted", "count-gathered"):
        opt += "+cap"
    return f"{PROP}|{clause}|{site}|{opt}"


def compare_shared(case, trace, reps):
    calls = _shared_calls(case, trace)
    for (i, op, obs), rep in zip(calls, reps[1:]):
        if not rep["env_ok"]:
            return {"op": i, "what": "the observed environment violates the modelled asyncio contract (EnvOK)", "env": obs["env"]}
        out = _strip(obs["out"])
        if out.get("kind") == "jobs":
            out.setdefault("other", [])
        mine = {"out": out, "num_submitted": obs["num_submitted"], "num_gathered": obs["num_gathered"],
                "jobs_done": obs["jobs_done"], "statuses": obs["all_statuses"]}
        model = {k: rep[k] for k in mine}
        if out.get("kind") == "rows":
            model["out"] = {"kind": "rows", "jobs": [{k: v for k, v in j.items() if k not in ("nest", "w", "zero")}
                                                     for j in model["out"].get("jobs", [])]}
        if out.get("kind") == "spawnmax":
            model["out"] = {"kind": model["out"].get("kind")}
            mine["out"] = {"kind": "spawnmax"}
        if json.loads(common.canon(mine)) != json.loads(common.canon(model)):
            diff = {k: {"impl": mine[k], "model": model[k]} for k in mine
                    if json.loads(common.canon(mine[k])) != json.loads(common.canon(model[k]))}
            return {"op": i, "call": {k: v for k, v in op.items() if k != "cfgs"}, "diff": diff, "env": obs["env"]}
    return None


def _shared_stats(ck, case, trace):
    ck.count("shared:scenario")
    ck.count(f"shared:evaluators={case['n']}")
    ck.count("shared:backend:" + case["backend"])
    ck.count("shared:format:" + ("hpo" if case["hpo"] else "regular"))
    last = None
    for op, obs in zip(case["ops"], trace):
        if op["op"].startswith("mutate"):
            continue
        ck.count("shared:op:" + op["op"] + ("-ALL" if op.get("all") else ""))
        if last is not None and last != op["who"]:
            ck.count("shared:switch-of-evaluator")
        last = op["who"]
        o = obs["out"]
        if o["kind"] == "spawnmax":
            ck.count("shared:MaximumJobsSpawnReached" + (":mid-batch" if obs.get("truth") else ":nothing-created"))
        if o["kind"] == "error":
            ck.count("shared:error:" + o["err"])
        if op["op"] == "gather" and o["kind"] == "jobs":
            no = len(o.get("other", []))
            ck.count("shared:gather:" + ("local+other" if o["jobs"] and no else "other-only" if no else "local-only" if o["jobs"] else "nothing"))
            ck.count("shared:foreign-jobs-reported", no)
            oid = [j["id"] for j in o.get("other", [])]
            if oid != sorted(oid):
                ck.count("shared:other-in-string-order(10<2)")
            if any(j["status"] == "CANCELLED" for j in o.get("other", [])):
                ck.count("shared:other-was-cancelled-by-its-owner")
            if any(j["out"] == {"t": "num", "v": "0/1"} for j in o["jobs"]) and case["n"] > 1 and case["hpo"]:
                ck.count("shared:objective-0.0-delivered(" + ("reported" if zero_output_is_reported() else "never reported") + " to the others)")
        if op["op"] == "close" and any(s in ("READY", "RUNNING") for s in obs["all_statuses"] if s):
            ck.count("shared:close-while-others-in-flight")
    if len(trace) and any(o["op"] == "setmax" for o in case["ops"]):
        ck.count("shared:with-cap")


def shared_failure(case, trace, d):
    req, index = shared_trace(case, trace)
    rep = d.ask(req)
    if rep["spec"]:
        return None
    i, clause = index[rep["first_bad"]], rep["clause"]
    detail = f"checkMTrace = false: clause {clause} at call {i}"
    out = trace[i]["out"]
    if out["kind"] == "error":
        detail = out["msg"]
        if clause == "no-exception":
            clause += ":" + out["msg"].split(":")[0]
    return clause, i, detail


def check_shared(ck, d, case, spy, vt, from_corpus=False):
    trace = drive_shared(case, spy, vt)
    _prepare_shared(case, trace)
    complete = len(trace) == len(case["ops"])
    _shared_stats(ck, case, trace)
    ck.case({k: case[k] for k in ("shared", "backend", "hpo", "n", "workers", "ops")},
            nontrivial=len(trace) >= 5 and any(o["op"] == "gather" for o in case["ops"]))
    # L3: the verified checker on the real trace, the Python statement as a cross-check
    py = oracle_shared(case, trace)
    ff = shared_failure(case, trace, d)
    if (ff is None) != (not py) or (ff and py and ff[1] != py[0][1]):
        ck.mismatch(case, {"what": "oracle disagreement: Lean checkMTrace vs. the Python statement of the property",
                           "lean": ff, "python": py[:2]})
    if ff:
        clause, i, detail = ff
        if py and py[0][1] == i:
            if clause == "other-payload" and py[0][0].startswith("other-payload"):
                clause = py[0][0]  # which part of the payload (the Python statement looks at the objects themselves)
            if detail.startswith("checkMTrace"):
                detail += " (" + str(py[0][2]) + ")"
        fp = shared_fingerprint(case, trace, clause, i)
        ck.fail(fp, f"{clause} at call {i} (evaluator {case['ops'][i]['who']}: {case['ops'][i]['op']}): {detail}", case,
                {"clause": clause, "call_index": i, "detail": detail, "oracle": "Lean checkMTrace (C01_multi_checker)"})
        return ff, None  # the state after a violated call is not specified: no model comparison
    # L2
    reps = d.ask_all(shared_requests(case, trace))
    mm = compare_shared(case, trace, reps)
    if mm is not None:
        ck.mismatch(case, mm)
    elif not complete:
        ck.mismatch(case, "script ended early without an oracle failure")
    return ff, mm


def _corpus():
    d = common.VERIF / "corpus" / PROP
    out = []
    for f in sorted(d.glob("*.json")) if d.is_dir() else []:
        out.append((f.name, json.loads(f.read_text())["case"]))
    return out


def run(ck):
    import warnings

    warnings.simplefilter("ignore")
    ck.rule = ("random call scripts over {submit n (0..5), gather ALL, gather BATCH k (1..4, malformed 0/7/9), close, dump(flush)} "
               "of length <= 12 (quick) / 40 (thorough) + a fixed close/submit/gather/dump/close probe; num_workers in {1,2,3,5}; "
               "Job and HPOJob CSV formats; serial backend on a virtual clock with durations {0,1,2,3,5} quanta (ties), thread backend "
               "with per-job events released by priority in bursts of 1-3, process/loky with real sleeps (thorough); distinct by "
               "canonical script; non-trivial = >= 4 calls with a gather and a submit of >= 2 configurations; "
               "+ scripts of 1-3 evaluators attached to ONE MemoryStorage search (serial on the virtual clock and thread backend): "
               "interleaved submit / gather ALL / gather BATCH k / close / dump / set_maximum_num_jobs_submitted(-1..9) of <= 12 (quick) / 30 "
               "calls + a collect-twice/dump/close probe, > 10 jobs in 25 % (string order of ids), caller-side edits of submitted objects in "
               "30 %, objective 0.0 (falsy stored output), caps that cut a batch in the middle; replayed step by step against "
               "Model/EvaluatorMulti.lean and judged by the Lean checker checkMTrace")
    ck.assumptions = [
        "asyncio.wait returns duplicate-free subsets of the tasks it was given, ALL_COMPLETED returns all of them (EnvOK; observed sets are validated by the model on every call)",
        "a task reported done had acquired the worker semaphore (its job was RUNNING)",
        "run-functions return (do not raise); timeouts are outside this property (C14)",
        "several evaluators on one storage search: all of them use the same job class (HPOJob or Job) and one in-process MemoryStorage; "
        "whether a stored objective 0.0 counts as 'finished' in gather_other_jobs_done (`if job_data['out']`) is a parameter of the model, observed once per run",
    ]
    ck.trusted_extra = [
        "asyncio / concurrent.futures / loky executors (modelled as the environment inputs `started`, `waits`, `finished`)",
        "harness shims: virtual-time event loop, asyncio.wait spy, director thread of the thread backend",
    ]
    rng = ck.rng
    spy = WaitSpy()
    n_serial, n_thread = ck.pick(420, 3000), ck.pick(90, 500)
    n_proc, n_loky = ck.pick(3, 40), ck.pick(2, 25)
    maxlen = ck.pick(12, 40)
    with ck.driver() as d:
        vt = vloop.install()
        orig_once = _guard_vloop()
        spy.install()
        try:
            for name, case in _corpus():
                ck.count("corpus")
                use_vt = vt if case["backend"] == "serial" else None
                if use_vt is None:
                    continue
                if case.get("multi"):
                    check_multi(ck, d, case, spy, use_vt)
                elif case.get("shared"):
                    check_shared(ck, d, case, spy, use_vt, from_corpus=True)
                else:
                    check_case(ck, d, case, spy, use_vt, from_corpus=True)
            for t in range(n_serial):
                case = gen_case(rng, "serial", maxlen, malformed=(t % 6 == 5))
                check_case(ck, d, case, spy, vt)
            for t in range(ck.pick(40, 400)):
                shared_storage_case(ck, rng, vt)
            for t in range(ck.pick(40, 400)):
                check_multi(ck, d, gen_multi_case(rng), spy, vt)
            for t in range(ck.pick(130, 900)):
                check_shared(ck, d, gen_shared_case(rng, "serial", ck.pick(12, 30), malformed=(t % 6 == 5)), spy, vt)
        finally:
            spy.uninstall()
            vloop.VLoop._run_once = orig_once
            vloop.uninstall()
        spy.install()
        try:
            for name, case in _corpus():
                if case["backend"] != "serial":
                    (check_shared if case.get("shared") else check_case)(ck, d, case, spy, None, from_corpus=True)
            for t in range(n_thread):
                check_case(ck, d, gen_case(rng, "thread", min(maxlen, 16), malformed=(t % 6 == 5)), spy, None)
            for t in range(ck.pick(22, 150)):
                check_shared(ck, d, gen_shared_case(rng, "thread", ck.pick(10, 16), malformed=(t % 6 == 5)), spy, None)
            for t in range(n_proc):
                check_case(ck, d, gen_case(rng, "process", 8), spy, None)
            for t in range(n_loky):
                check_case(ck, d, gen_case(rng, "loky", 8), spy, None)
        finally:
            spy.uninstall()
            ck.extra_cov.pop("_fails", None)


def _replay(ck, case):
    if case.get("multi"):
        spy = WaitSpy()
        vt = vloop.install()
        spy.install()
        try:
            with ck.driver() as d:
                res = check_multi(ck, d, case, spy, vt)
        finally:
            spy.uninstall()
            vloop.uninstall()
        ck.extra_cov.pop("_fails", None)
        print("replay: per evaluator (oracle failure, model mismatch):", res)
        return
    if case.get("shared"):
        spy = WaitSpy()
        vt = vloop.install() if case["backend"] == "serial" else None
        spy.install()
        try:
            with ck.driver() as d:
                bad, mm = check_shared(ck, d, case, spy, vt, from_corpus=True)
        finally:
            spy.uninstall()
            vloop.uninstall()
        print("replay: oracle failures:", bad or "none", "| model mismatch:", mm or "none")
        return
    if case.get("shared_storage"):
        vt = vloop.install()
        try:
            shared_storage_case(ck, None, vt, seed=case["seed"])
        finally:
            vloop.uninstall()
        print("replay: oracle failures:", [f["what"] for f in ck.failures] or "none")
        return
    spy = WaitSpy()
    vt = vloop.install() if case["backend"] == "serial" else None
    spy.install()
    try:
        with ck.driver() as d:
            bad, mm = check_case(ck, d, case, spy, vt, from_corpus=True)
    finally:
        spy.uninstall()
        vloop.uninstall()
    ck.extra_cov.pop("_fails", None)
    print("replay: oracle failures:", bad or "none", "| model mismatch:", mm or "none")


def replay(ck, case):
    orig_once = _guard_vloop()
    try:
        _replay(ck, case)
    finally:
        vloop.VLoop._run_once = orig_once
