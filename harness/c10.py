"""C10 — sampling honours the declared support and prior of every hyperparameter.

Real code: deephyper.hpo.HpProblem.add_hyperparameter / check_hyperparameter / convert_to_skopt_space,
deephyper.skopt.space Dimension.rvs / Space.rvs, deephyper.skopt.Optimizer.ask (initial phase),
deephyper.hpo.RandomSearch.ask.  Lean: Model/Sampling.lean through Drivers/C10.lean.

L2 (correspondence)
  * structure: generated declaration sequences through the real `add_hyperparameter` (accepted or the kind of
    exception), the resulting ConfigSpace hyperparameters and their order, and the converted skopt dimensions
    (name, kind, bounds, prior, choices, transform, categorical prior, who samples) against the model, field by field;
  * samplers: the real `Dimension.rvs` driven by a scripted random stream (the uniform numbers / integers the
    generator hands out are chosen by the harness) against `sampleDim` on the same draws;
  * ConfigSpace path / RandomSearch: the point built from a sampled configuration against `pointOfConf`;
  * the stage between the sampler and the user (Model/Proposal.lean): histories of initial-phase asks on one Optimizer / CBO
    object, the rows handed out against `askMany` on the candidate lists the real `Space.rvs` drew (drawing order).
L3 (oracle on the real code)
  * conversion preserves names, order, bounds, log flags, choices (and weights);
  * with real seeded generators, on every sampling path (Space.rvs flat, Optimizer.ask with the GP-normalized space,
    Space.rvs through ConfigSpace, RandomSearch.ask): every value a member, every category / every value of a small
    integer range / both ends of every numeric range occur, chi-square / Kolmogorov-Smirnov statistics against the
    law of the path with thresholds at p < 1e-9 (fixed seeds: deterministic);
  * across seeds / optimizer objects, on small all-discrete problems (duplicate filter active): the law of the first, second,
    third configuration handed out by Optimizer.ask / CBO.ask / RandomSearch.ask, jointly and per hyperparameter.
"""
import json
import math
import os
import shutil
import tempfile
from fractions import Fraction

import numpy as np

from . import common
from .c09 import Out, dimsig, e_table, is_log, l_scalar, l_table, mk_dim, rt_tolerance, tag, untag, wire_dim
from .common import rat, unrat

RULE_BASED = ["RF", "ET", "GBRT", "HGBRT", "MF", "BT"]
_DRIVER = [None]  # the Lean driver of the running check (cells of the proved laws, checkPoint)
_CELLS = {}


def lean_cells(kind, lo, hi):
    """cells (c1, c2) of every value of lo..hi from the Lean definitions flatCell / csCell, to which
    C10_int_log_flat_law / C10_int_log_configspace_law refer; cross-checked with the closed forms"""
    key = (kind, lo, hi)
    if key not in _CELLS:
        if _DRIVER[0] is None:
            raise common.HarnessError("no Lean driver for the law cells")
        rep = _DRIVER[0].ask({"op": "cells", "kind": kind, "lo": lo, "hi": hi})
        cells = [(unrat(a), unrat(b)) for a, b in rep["cells"]]
        if kind == "flat":
            want = [(max(Fraction(k) - Fraction(1, 2), lo), min(Fraction(k) + Fraction(1, 2), hi)) for k in range(lo, hi + 1)]
        else:
            w = Fraction(hi - lo, hi - lo + 1)
            want = [(lo + j * w, lo + (j + 1) * w) for j in range(hi - lo + 1)]
        if cells != want:
            raise common.HarnessError(f"Lean cells {kind} {lo}..{hi} differ from the closed form")
        _CELLS[key] = cells
    return _CELLS[key]
P_TAIL = 1e-9


# --------------------------------------------------------------------------- encodings


def py_wire(v):
    if isinstance(v, bool):
        return {"t": "b", "v": v}
    if isinstance(v, int):
        return {"t": "i", "v": v}
    if isinstance(v, float):
        return {"t": "f", "v": rat(v)}
    if isinstance(v, str):
        return {"t": "s", "v": v}
    if v is None:
        return {"t": "n"}
    return {"t": "o"}


def cshp_wire(hp):
    """a real ConfigSpace hyperparameter -> the model's CsHp"""
    import ConfigSpace.hyperparameters as csh

    if isinstance(hp, csh.UniformIntegerHyperparameter):
        return {"k": "uint", "name": hp.name, "lo": int(hp.lower), "hi": int(hp.upper), "log": bool(hp.log)}
    if isinstance(hp, csh.UniformFloatHyperparameter):
        return {"k": "ufloat", "name": hp.name, "lo": rat(float(hp.lower)), "hi": rat(float(hp.upper)), "log": bool(hp.log)}
    if isinstance(hp, csh.CategoricalHyperparameter):
        w = None if hp.weights is None else [rat(float(p)) for p in hp.probabilities]
        return {"k": "cat", "name": hp.name, "choices": [tag(c) for c in hp.choices], "weights": w}
    if isinstance(hp, csh.OrdinalHyperparameter):
        return {"k": "ord", "name": hp.name, "seq": [tag(c) for c in hp.sequence]}
    if isinstance(hp, csh.Constant):
        return {"k": "const", "name": hp.name, "v": tag(hp.value)}
    return {"k": "other", "name": hp.name}


def shorthand_wire(v):
    import ConfigSpace.hyperparameters as csh

    if isinstance(v, csh.Hyperparameter):
        return {"k": "hp", "hp": cshp_wire(v)}
    if isinstance(v, tuple):
        return {"k": "tuple", "items": [py_wire(x) for x in v]}
    if isinstance(v, list):
        return {"k": "list", "items": [py_wire(x) for x in v]}
    if isinstance(v, dict):
        return {"k": "dict", "musigma": "mu" in v and "sigma" in v, "mu": py_wire(v.get("mu")), "bounds": "lower" in v and "upper" in v}
    if isinstance(v, np.ndarray):
        return {"k": "array"}
    return {"k": "scalar", "v": py_wire(v)}


def r_table(values):
    """ConfigSpace rounds float bounds: float(np.round(x, 13)); observed values for every number of the declarations"""
    tab = {}
    for v in values:
        items = v if isinstance(v, (tuple, list)) else [v]
        for x in items:
            if isinstance(x, (int, float)) and not isinstance(x, bool) and math.isfinite(x):
                tab[rat(float(x))] = rat(float(np.round(float(x), 13)))
    return [[k, v] for k, v in tab.items()]


def skdim_spec(d):
    """a real skopt dimension -> the spec dict of harness.c09 (+ name, categorical prior)"""
    from deephyper.skopt.space import Categorical, Integer, Real

    if isinstance(d, Real):
        s = {"k": "real", "lo": float(d.low), "hi": float(d.high), "prior": d.prior, "tr": d.transform_}
    elif isinstance(d, Integer):
        s = {"k": "int", "lo": int(d.low), "hi": int(d.high), "prior": d.prior, "tr": d.transform_}
    else:
        s = {"k": "cat", "cats": [untag(tag(c)) for c in d.categories], "tr": d.transform_}
    return s


def skdim_wire(d):
    from deephyper.skopt.space import Categorical

    prior = None
    if isinstance(d, Categorical) and d.prior is not None:
        prior = [rat(float(p)) for p in d.prior]
    return {"name": d.name, "dim": wire_dim(skdim_spec(d)), "prior": prior}


def err_kind(e):
    from ConfigSpace.exceptions import HyperparameterAlreadyExistsError

    for name, cls in (("HyperparameterAlreadyExistsError", HyperparameterAlreadyExistsError), ("UnboundLocalError", UnboundLocalError),
                      ("AssertionError", AssertionError), ("IndexError", IndexError), ("KeyError", KeyError),
                      ("ValueError", ValueError), ("TypeError", TypeError)):
        if isinstance(e, cls):
            return name
    return type(e).__name__


# --------------------------------------------------------------------------- declaration generator

_NAMES = ["lr", "units", "act", "opt", "dropout", "layers", "Batch", "x", "x1", "x10", "x2", "momentum", "zeta", "alpha", "A", "_p"]
_WORDS = ["relu", "tanh", "adam", "sgd", "a", "b", "c", "B", "aa", "zz"]


def gen_decl(rng, valid=True):
    """one `value` accepted by add_hyperparameter (valid) or a malformed one"""
    import ConfigSpace.hyperparameters as csh

    if valid:
        k = rng.choice(["iu", "il", "fu", "fl", "mix", "mix", "cat", "cat_mixed", "cat_mixed", "bool", "ord_i", "ord_f", "ord_m", "const", "cs_int", "cs_float", "cs_cat_w", "cs_ord_s", "cs_const"])
        if k in ("iu", "il"):
            lo = rng.choice([0, 1, 2, -5, 10, 100, 1]) if k == "iu" else rng.choice([1, 2, 8, 16])
            hi = lo + rng.choice([1, 2, 3, 7, 9, 30, 1000, 10 ** 6])
            return (lo, hi) + ((rng.choice(["uniform", "log-uniform"]) if k == "il" else "uniform",) if (k == "il" or rng.random() < 0.3) else ())
        if k in ("fu", "fl"):
            if k == "fu":
                lo = rng.choice([0.0, -1.0, 0.5, 1e-3, -2.5])
                hi = lo + rng.choice([1.0, 0.5, 10.0, 1e3])
                return (lo, hi) + (("uniform",) if rng.random() < 0.3 else ())
            lo = rng.choice([1e-5, 1e-3, 0.1, 1.0, 3e-5])
            hi = lo * rng.choice([10.0, 1e3, 1e6, 2.0]) if rng.random() < 0.8 else 7e3
            return (lo, hi, "log-uniform")
        if k == "mix":
            return rng.choice([(1, 4.0), (0.5, 3), (1, 100.0, "log-uniform"), (0, 1.5), (0.0, 4), (2, 2.5, "uniform"), (-3, 0.5)])
        if k == "cat":
            return rng.sample(_WORDS, rng.choice([1, 2, 3, 4, 6]))
        if k == "cat_mixed":  # accepted by add_hyperparameter: any list with a str/bool is a categorical
            return rng.choice([["sqrt", "log2", 0.5, 3], ["relu", 1, 2.5], ["a", True], ["auto", 0.1, 10], [False, "none", 2.0], ["x", 7]])
        if k == "bool":
            return rng.choice([[True, False], [False, True], [True], ["a", True]])
        if k == "ord_i":
            return sorted(rng.sample([1, 2, 4, 8, 16, 32, 3, 5], rng.choice([1, 2, 3, 5])), reverse=rng.random() < 0.2)
        if k == "ord_f":
            return rng.sample([0.1, 0.25, 0.5, 1.5, 2.5, 10.0], rng.choice([1, 2, 3, 4]))
        if k == "ord_m":
            return rng.choice([[1, 2.5], [0.5, 2, 3], [1, 2.5, 4]])
        if k == "const":
            return rng.choice([5, 2.5, "fixed", True, 0])
        nm = "__NAME__"
        if k == "cs_int":
            return csh.UniformIntegerHyperparameter(nm, 1, rng.choice([5, 64]), log=rng.random() < 0.5)
        if k == "cs_float":
            return csh.UniformFloatHyperparameter(nm, 1e-3, 1.0, log=rng.random() < 0.5)
        if k == "cs_cat_w":
            ch = rng.sample(_WORDS, rng.choice([2, 3]))
            w = rng.choice([[0.9, 0.1], [1, 3], [0.2, 0.8]]) if len(ch) == 2 else rng.choice([[0.6, 0.3, 0.1], [1, 1, 2]])
            return csh.CategoricalHyperparameter(nm, ch, weights=w)
        if k == "cs_ord_s":
            return csh.OrdinalHyperparameter(nm, rng.choice([["lo", "mid", "hi"], ["s", "m"]]))
        return csh.Constant(nm, rng.choice([1.5, "k", 3]))
    return rng.choice([
        (4, 1), (1, 1), (0, 4, "log-uniform"), (1.0, 1.0), (2.0, 1.0), (0.0, 1.0, "log-uniform"), (-1.0, 1.0, "log-uniform"),
        (1,), (1, 2, "log-uniform", 3), (1, 4, "normal"), ("a", "b"), (1, "b"), (None, 1),
        [None, 1], [], ["a", "a"], [1, 1], [True, 1], [1, 1.0],
        None, np.array([1, 2]), {"a": 1}, {"mu": 0.0, "sigma": 1.0}, {"mu": 0, "sigma": 1}, {"mu": "x", "sigma": 1}, np.int64(3),
        {"mu": 0.0, "sigma": 1.0, "lower": -1.0, "upper": 1.0},
    ])


def rename(value, name):
    import ConfigSpace.hyperparameters as csh

    if isinstance(value, csh.Hyperparameter):
        import copy

        v = copy.deepcopy(value)
        kw = {"name": name}
        # ConfigSpace hyperparameters are frozen dataclasses: rebuild with the wanted name
        if isinstance(v, csh.UniformIntegerHyperparameter):
            return csh.UniformIntegerHyperparameter(name, v.lower, v.upper, log=v.log)
        if isinstance(v, csh.UniformFloatHyperparameter):
            return csh.UniformFloatHyperparameter(name, v.lower, v.upper, log=v.log)
        if isinstance(v, csh.CategoricalHyperparameter):
            return csh.CategoricalHyperparameter(name, list(v.choices), weights=None if v.weights is None else list(v.weights))
        if isinstance(v, csh.OrdinalHyperparameter):
            return csh.OrdinalHyperparameter(name, list(v.sequence))
        if isinstance(v, csh.Constant):
            return csh.Constant(name, v.value)
        del kw
    return value


def describe(value):
    import ConfigSpace.hyperparameters as csh

    if isinstance(value, csh.Hyperparameter):
        return {"cs": cshp_wire(value)}
    if isinstance(value, np.ndarray):
        return {"ndarray": value.tolist()}
    if isinstance(value, np.generic):
        return {"npscalar": repr(value)}
    if isinstance(value, tuple):
        return {"tuple": list(value)}
    return {"value": value}


# --------------------------------------------------------------------------- L2/L3: structure


def structure_case(ck, d, seed):
    """derived from `seed` only, so that a stored case replays exactly"""
    import random

    from deephyper.hpo import HpProblem
    from deephyper.hpo._problem import convert_to_skopt_space

    rng = random.Random(seed)

    import ConfigSpace.hyperparameters as csh

    n = rng.choice([1, 2, 3, 4, 6])
    names = rng.sample(_NAMES, n)
    if rng.random() < 0.15 and n > 1:
        names[-1] = names[0]  # duplicate name
    adds = []
    raw_values = []
    problem = HpProblem()
    steps = []
    declared = {}         # name -> the shorthand as written (accepted ones)
    history = []          # the construction history: adds, conditions / forbidden clauses, reads - in this order
    cstate = {"children": set(), "parents": set()}
    surrogate = rng.choice(["RF", "ET", "GP", None, "GBRT", "DUMMY", "HGBRT", "MF"])
    case = {"kind": "structure", "seed": seed, "surrogate": surrogate}
    consistent = True

    def read_and_check(after):
        """reads of the problem between the construction steps (a search reads them at any time); whatever was read
        before, the names must be ConfigSpace's, in ConfigSpace's order"""
        nonlocal consistent
        for what in rng.sample(["len", "names", "default"], rng.choice([0, 1, 1, 2, 3])):
            history.append("read:" + what)
            Out(lambda: len(problem) if what == "len" else problem.hyperparameter_names if what == "names" else problem.default_configuration)
        o = Out(lambda: (list(problem.hyperparameter_names), len(problem)))
        truth = list(problem.space.keys())
        if consistent and (o.exc is not None or o.val[0] != truth or o.val[1] != len(truth)):
            consistent = False
            ck.fail("C10|convert-names-order|HpProblem.hyperparameter_names|" + after.split(":")[0],
                    "problem.hyperparameter_names / len(problem) differ from the ConfigSpace (names or order) after " + after,
                    {**case, "history": list(history)}, {"problem": repr(o.exc or o.val), "configspace": truth})

    for k, nm in enumerate(names):
        valid = rng.random() < 0.8
        value = rename(gen_decl(rng, valid), nm)
        name_arg = nm if rng.random() < 0.95 else None
        raw_values.append(value)
        plural = isinstance(value, csh.Hyperparameter) and rng.random() < 0.5
        out = Out(lambda: problem.add_hyperparameter(value, name_arg) if not isinstance(value, csh.Hyperparameter)
                  else (problem.add_hyperparameters([value]) if plural else problem.add_hyperparameter(value)))
        steps.append("ok" if out.exc is None else err_kind(out.exc))
        adds.append({"value": shorthand_wire(value), "name": name_arg, "py": describe(value)})
        if out.exc is None and not isinstance(value, csh.Hyperparameter):
            declared[name_arg] = value
        history.append("add:" + str(nm))
        ck.count("add:" + (shorthand_wire(value)["k"]) + ":" + steps[-1])
        read_and_check("add_hyperparameter:" + str(nm))
        if len(problem.space) >= 2 and k + 1 < len(names) and rng.random() < 0.3:
            # a condition / forbidden clause BETWEEN two adds
            nc0, nf0 = len(problem.space.conditions), len(problem.space.forbidden_clauses)
            add_conditions(problem, rng, cstate, at_most=1)
            if (len(problem.space.conditions), len(problem.space.forbidden_clauses)) != (nc0, nf0):
                history.append("conditions:%d,forbidden:%d" % (len(problem.space.conditions), len(problem.space.forbidden_clauses)))
                ck.count("structure:condition-between-adds")
                read_and_check("add_condition")
    case["adds"] = [{"name": a["name"], "py": a["py"]} for a in adds]
    ck.case(case, nontrivial=steps.count("ok") >= 1)
    rep = d.ask({"op": "adds", "adds": [{"value": a["value"], "name": a["name"]} for a in adds], "R": r_table(raw_values)})
    real_hps = [cshp_wire(h) for h in problem.space.values()]
    # a disagreement with the model is recorded (L2) but the oracles below still judge the REAL objects (L3)
    if rep["steps"] != steps:
        ck.mismatch(case, {"what": "add_hyperparameter accepted/raised", "impl": steps, "model": rep["steps"]})
    if problem.space.conditions:
        # ConfigSpace lists parents first: the model's alphabetical insertion only fixes the SET of hyperparameters
        same = sorted(rep["hps"], key=lambda h: h["name"]) == sorted(real_hps, key=lambda h: h["name"])
    else:
        same = rep["names"] == list(problem.space.keys()) and rep["hps"] == real_hps
    if not same and rep["steps"] == steps:
        ck.mismatch(case, {"what": "hyperparameters after the adds (ConfigSpace order)", "impl": real_hps, "model": rep["hps"]})
    if not real_hps:
        return
    # conditions / forbidden clauses between arbitrary (not alphabetically ordered) names: ConfigSpace then lists
    # parents before children; the converted space must follow problem.hyperparameter_names
    if len(real_hps) >= 2 and rng.random() < 0.5:
        add_conditions(problem, rng, cstate)
        history.append("conditions:%d,forbidden:%d" % (len(problem.space.conditions), len(problem.space.forbidden_clauses)))
        read_and_check("add_condition")
    ncond, nforb = len(problem.space.conditions), len(problem.space.forbidden_clauses)
    case["conditions"], case["forbidden"], case["history"] = ncond, nforb, history
    ck.count("structure:conditions=%d,forbidden=%d" % (ncond, nforb))
    real_hps = [cshp_wire(h) for h in problem.space.values()]
    if [h["name"] for h in real_hps] != list(problem.space.keys()):
        raise common.HarnessError("ConfigSpace keys() and values() disagree")  # ConfigSpace itself, not deephyper
    if [h["name"] for h in real_hps] != sorted(h["name"] for h in real_hps):
        ck.count("structure:non-alphabetical-order")
    conv = Out(lambda: convert_to_skopt_space(problem.space, surrogate_model=surrogate))
    rep2 = d.ask({"op": "convert", "hps": real_hps, "ncond": ncond, "nforb": nforb, "surrogate": surrogate or ""})
    sp = check_conversion(ck, case, problem, conv, rep2)
    if sp is not None:
        # a few sampled points, column i against the declaration of problem.hyperparameter_names[i]
        if sp.config_space is not None:
            sp.config_space.seed(seed)
        rows = Out(lambda: sp.rvs(12, random_state=np.random.RandomState(seed)))
        path = "Space.rvs:configspace" if sp.config_space is not None else "Space.rvs:flat"
        if rows.exc is not None:
            ck.fail(f"C10|raises:{err_kind(rows.exc)}|{path}|declared-problem", "Space.rvs raises on an accepted problem", case, repr(rows.exc))
        else:
            check_points_by_name(ck, case, problem, rows.val, path)
            problem_accessors(ck, case, problem, sp, rows.val)
            judge_declarations(ck, case, problem, sp, rows.val, declared)


def declared_spec(value):
    """what a shorthand DENOTES, read off the declaration itself (independently of the model and of the code):
    a range with a float bound is a real range, with only integer bounds an integer range, with exactly these bounds;
    a list with a str/bool is a categorical over exactly these objects, a numeric list an ordinal; a scalar a constant"""
    if isinstance(value, tuple):
        a, b = value[0], value[1]
        log = len(value) == 3 and value[2] == "log-uniform"
        if isinstance(a, float) or isinstance(b, float):
            return {"kind": "real", "lo": float(np.round(float(a), 13)), "hi": float(np.round(float(b), 13)), "log": log,
                    "sig": "tuple[%s,%s]" % (type(a).__name__, type(b).__name__)}
        return {"kind": "int", "lo": int(a), "hi": int(b), "log": log, "sig": "tuple[%s,%s]" % (type(a).__name__, type(b).__name__)}
    if isinstance(value, list):
        return {"kind": "choices", "choices": list(value), "sig": "list"}
    return {"kind": "choices", "choices": [value], "sig": "scalar"}


def judge_declarations(ck, case, problem, sp, rows, declared):
    """clause declaration-kind-bounds: hyperparameter, converted dimension and every sampled value against the declaration"""
    import ConfigSpace.hyperparameters as csh
    from deephyper.skopt.space import Categorical, Integer, Real

    names = list(problem.space.keys())
    for nm, value in declared.items():
        if nm not in names:
            continue
        spec = declared_spec(value)
        hp = problem.space[nm]
        dm = sp.dimensions[names.index(nm)] if len(sp.dimensions) == len(names) and sp.dimension_names == names else None
        col = [r[names.index(nm)] for r in rows if len(r) == len(names)]
        bad = None
        if spec["kind"] in ("real", "int"):
            want_hp = csh.UniformFloatHyperparameter if spec["kind"] == "real" else csh.UniformIntegerHyperparameter
            want_dm = Real if spec["kind"] == "real" else Integer
            pytype = float if spec["kind"] == "real" else int
            if type(hp) is not want_hp:
                bad = ("kind", f"declared a {spec['kind']} range, got {type(hp).__name__}")
            elif (hp.lower, hp.upper) != (spec["lo"], spec["hi"]) or type(hp.lower) is not pytype or bool(hp.log) != spec["log"]:
                bad = ("bounds", f"declared [{spec['lo']}, {spec['hi']}] log={spec['log']}, hyperparameter has [{hp.lower}, {hp.upper}] log={hp.log}")
            elif dm is not None and (type(dm) is not want_dm or (dm.low, dm.high) != (spec["lo"], spec["hi"]) or (dm.prior == "log-uniform") != spec["log"]):
                bad = ("dimension", f"declared [{spec['lo']}, {spec['hi']}], dimension is {dm!r}")
            else:
                for v in col:
                    t = tag(v)
                    ok = t["t"] == ("f" if spec["kind"] == "real" else "i") and spec["lo"] <= untag(t) <= spec["hi"]
                    if not ok:
                        bad = ("sample", f"sampled {v!r} ({type(v).__name__}) for the declared {spec['kind']} range [{spec['lo']}, {spec['hi']}]")
                        break
        else:
            have = list(hp.choices) if isinstance(hp, csh.CategoricalHyperparameter) else list(hp.sequence) if isinstance(hp, csh.OrdinalHyperparameter) \
                else [hp.value] if isinstance(hp, csh.Constant) else None
            if have is None or [tag(c) for c in have] != [tag(c) for c in spec["choices"]]:
                bad = ("choices", f"declared {spec['choices']!r}, hyperparameter is {hp!r}"[:300])
            elif dm is not None and (not isinstance(dm, Categorical) or [tag(c) for c in dm.categories] != [tag(c) for c in spec["choices"]]):
                bad = ("dimension", f"declared {spec['choices']!r}, dimension is {dm!r}"[:300])
            else:
                loose = sp.config_space is not None
                for v in col:
                    if not any(tag(v) == tag(c) or (loose and isinstance(c, (int, float)) and not isinstance(c, bool)
                                                    and isinstance(v, (int, float, np.integer, np.floating)) and not isinstance(v, (bool, np.bool_)) and v == c)
                               for c in spec["choices"]):
                        bad = ("sample", f"sampled {v!r} ({type(v).__name__}) for the declared choices {spec['choices']!r}"[:300])
                        break
        if bad:
            ck.fail(f"C10|declaration-kind-bounds|check_hyperparameter|{spec['sig']}:{bad[0]}",
                    "the hyperparameter / dimension / samples do not have the kind and bounds the shorthand declares: " + bad[1],
                    case, {"name": nm, "declaration": repr(value), "hyperparameter": repr(hp)[:200]})


def problem_accessors(ck, case, problem, sp, rows):
    """the rest of the declaration API, stated directly: len / [] / default_configuration / to_json, the code's own
    `point in space`, and (flat problems) ConfigSpace's own legality check of every sampled point"""
    names = list(problem.hyperparameter_names)
    o = Out(lambda: (len(problem), [problem[nm].name for nm in names], problem.default_configuration, json.loads(problem.to_json())))
    if o.exc is not None or o.val[0] != len(names) or o.val[1] != names or sorted(o.val[2]) != sorted(names) \
            or not all(legal_value(problem.space[nm], o.val[2][nm], loose=True) for nm in names):
        ck.mismatch(case, {"what": "HpProblem len / [] / default_configuration / to_json", "got": repr(o.exc or o.val[:3])[:300]})
    for row in rows:
        c = Out(lambda: row in sp)
        if c.exc is not None or not c.val:
            ck.fail("C10|support|Space.__contains__|sampled-point", "a point sampled by Space.rvs is not `in` the space", case,
                    {"row": repr(row)[:300], "result": repr(c.exc or c.val)})
            break
    if sp.config_space is None:
        for row in rows:
            c = Out(lambda: problem.check_configuration(dict(zip(names, row))))
            if c.exc is not None:
                ck.fail("C10|support|HpProblem.check_configuration|sampled-point", "ConfigSpace rejects a point sampled on the flat path", case,
                        {"row": repr(row)[:300], "error": repr(c.exc)[:200]})
                break


def legal_value(hp, v, loose):
    """is v (value AND Python type) what the declaration of hp allows?"""
    import ConfigSpace.hyperparameters as csh

    t = tag(v)
    if isinstance(hp, csh.UniformIntegerHyperparameter):
        return t["t"] == "i" and hp.lower <= t["v"] <= hp.upper
    if isinstance(hp, csh.UniformFloatHyperparameter):
        return t["t"] == "f" and hp.lower <= float(unrat(t["v"])) <= hp.upper
    if isinstance(hp, csh.CategoricalHyperparameter):
        return any(tag(c) == t for c in hp.choices)
    if isinstance(hp, csh.OrdinalHyperparameter):
        if loose and t["t"] in ("i", "f"):  # ConfigSpace's own array coercion of a numeric sequence
            return any(tag(c)["t"] in ("i", "f") and c == v for c in hp.sequence)
        return any(tag(c) == t for c in hp.sequence)
    if isinstance(hp, csh.Constant):
        return tag(hp.value) == t
    return True


def check_points_by_name(ck, case, problem, rows, path):
    names = list(problem.hyperparameter_names)
    loose = path != "Space.rvs:flat"  # ConfigSpace's own paths: numeric ordinals come back NumPy-coerced
    if _DRIVER[0] is not None and rows and all(len(r) == len(names) for r in rows):
        # the verified checker (C10_checker_point) on the sampled points; the Python statement below must agree
        hps = [cshp_wire(problem.space[nm]) for nm in names]
        if not any(h["k"] == "other" for h in hps):
            rep = _DRIVER[0].ask({"op": "check_point", "hps": hps, "loose": loose, "rows": [[tag(v) for v in r] for r in rows[:200]]})
            py = [all(legal_value(problem.space[nm], v, loose=loose) for nm, v in zip(names, r)) for r in rows[:200]]
            ck.count("lean-checkPoint")
            if rep["legal"] != py:
                k = [a == b for a, b in zip(rep["legal"], py)].index(False)
                ck.mismatch(case, {"what": "checkPoint (Lean) and the Python statement of support-by-name disagree", "row": repr(rows[k])[:300],
                                   "lean": rep["legal"][k], "python": py[k]})
    for row in rows:
        if len(row) != len(names):
            ck.fail(f"C10|support-by-name|{path}|row-length", "a point does not have one value per hyperparameter", case, {"row": repr(row)})
            return
        for nm, v in zip(names, row):
            hp = problem.space[nm]
            if not legal_value(hp, v, loose=loose):
                ck.fail(f"C10|support-by-name|{path}|{cshp_wire(hp)['k']}",
                        "a sampled value is not allowed by the declaration of the hyperparameter of that name (value and Python type)",
                        case, {"name": nm, "value": repr(v), "type": type(v).__name__, "declaration": repr(hp)[:200], "row": repr(row)[:300]})
                return


def add_conditions(problem, rng, cstate=None, at_most=2):
    """1-2 EqualsConditions (child, parent with a finite value set, legal parent value) and possibly a forbidden clause;
    whatever ConfigSpace refuses (cycles, forbidden default, ...) is skipped"""
    import ConfigSpace as cs
    import ConfigSpace.hyperparameters as csh

    def values_of(hp):
        if isinstance(hp, csh.CategoricalHyperparameter):
            return list(hp.choices)
        if isinstance(hp, csh.OrdinalHyperparameter):
            return list(hp.sequence)
        if isinstance(hp, csh.UniformIntegerHyperparameter) and hp.upper - hp.lower <= 1000:
            return [hp.lower, hp.upper, (hp.lower + hp.upper) // 2]
        return []

    hps = list(problem.space.values())
    ncond = nforb = 0
    cstate = cstate if cstate is not None else {"children": set(), "parents": set()}
    children, used_parents = cstate["children"], cstate["parents"]
    for _ in range(min(at_most, rng.choice([1, 1, 2]))):
        # no chains / cycles: a parent is never a child and a child never a parent (ConfigSpace does not roll a
        # rejected cyclic condition back, which would leave the problem corrupted)
        parents = [h for h in hps if len(values_of(h)) >= 2 and h.name not in children]
        if not parents:
            break
        parent = rng.choice(parents)
        used_parents.add(parent.name)
        cands = [h for h in hps if h.name != parent.name and h.name not in children and h.name not in used_parents]
        if not cands:
            break
        child = rng.choice(cands)
        cond = cs.EqualsCondition(child, parent, rng.choice(values_of(parent)))
        o = Out(lambda: problem.add_conditions([cond]) if rng.random() < 0.5 else problem.add_condition(cond))
        if o.exc is None:
            ncond += 1
            children.add(child.name)
    if rng.random() < 0.4:
        cands = [h for h in hps if len(values_of(h)) >= 2 and h.name not in children]
        if cands:
            h = rng.choice(cands)
            vals = [v for v in values_of(h) if v != h.default_value]
            if vals:
                o = Out(lambda: problem.add_forbidden_clause(cs.ForbiddenEqualsClause(h, rng.choice(vals))))
                if o.exc is None:
                    nforb += 1
    return len(problem.space.conditions), len(problem.space.forbidden_clauses)


def check_conversion(ck, case, problem, conv, rep):
    res = rep["res"]
    if conv.exc is not None:
        if res.get("err") != err_kind(conv.exc):
            ck.mismatch(case, {"what": "convert_to_skopt_space", "impl": "raises " + err_kind(conv.exc), "model": res})
        ck.count("convert:raises:" + err_kind(conv.exc))
        return None
    if "err" in res:
        ck.mismatch(case, {"what": "convert_to_skopt_space", "impl": "returns", "model": res})
        return None
    sp = conv.val
    real = [skdim_wire(dm) for dm in sp.dimensions]
    if real != res["dims"] or bool(sp.config_space is not None) != res["cs"]:
        ck.mismatch(case, {"what": "converted dimensions", "impl": real, "model": res["dims"], "cs": [sp.config_space is not None, res["cs"]]})
    ck.count("convert:ok")
    # L3: the property, stated directly on the implementation
    import ConfigSpace.hyperparameters as csh
    from deephyper.skopt.space import Categorical, Integer, Real

    hps = list(problem.space.values())
    truth = list(problem.space.keys())
    if list(problem.hyperparameter_names) != truth:
        ck.fail("C10|convert-names-order|HpProblem.hyperparameter_names|convert", "problem.hyperparameter_names differ from the ConfigSpace (names or order)",
                case, {"problem": list(problem.hyperparameter_names), "configspace": truth})
        return sp
    if sp.dimension_names != truth or len(sp.dimensions) != len(hps):
        ck.fail("C10|convert-names-order|convert_to_skopt_space|names", "names / order of the converted space differ from the problem's",
                case, {"space": sp.dimension_names, "problem": list(problem.hyperparameter_names)})
        return sp
    for hp, dm in zip(hps, sp.dimensions):
        bad = None
        if isinstance(hp, (csh.UniformIntegerHyperparameter, csh.UniformFloatHyperparameter)):
            want = Integer if isinstance(hp, csh.UniformIntegerHyperparameter) else Real
            if type(dm) is not want or dm.low != hp.lower or dm.high != hp.upper or type(dm.low) is not type(hp.lower):
                bad = ("bounds", "numeric")
            elif (dm.prior == "log-uniform") != bool(hp.log):
                bad = ("log-flag", "numeric")
        elif isinstance(hp, csh.CategoricalHyperparameter):
            if not isinstance(dm, Categorical) or [tag(c) for c in dm.categories] != [tag(c) for c in hp.choices]:
                bad = ("choices", "categorical")
            elif hp.weights is not None and (dm.prior is None or not np.allclose(dm.prior_, hp.probabilities)):
                bad = ("prior", "categorical,weights")
        elif isinstance(hp, csh.OrdinalHyperparameter):
            if not isinstance(dm, Categorical) or [tag(c) for c in dm.categories] != [tag(c) for c in hp.sequence]:
                bad = ("choices", "ordinal")
        elif isinstance(hp, csh.Constant):
            if not isinstance(dm, Categorical) or [tag(c) for c in dm.categories] != [tag(hp.value)]:
                bad = ("choices", "constant")
        if bad:
            ck.fail(f"C10|convert-{bad[0]}|convert_to_skopt_dim|{bad[1]}", f"the converted dimension does not keep the declared {bad[0]} ({bad[1]})",
                    {"hp": cshp_wire(hp), "surrogate": case.get("surrogate")}, {"dimension": repr(dm), "hyperparameter": repr(hp)})
    return sp


def malformed_case(ck, d, rng):
    from deephyper.hpo._problem import check_hyperparameter

    value = gen_decl(rng, valid=False)
    name = rng.choice(["x", "x", "x", None])
    out = Out(lambda: check_hyperparameter(value, name))
    kind = "ok" if out.exc is None else err_kind(out.exc)
    case = {"kind": "malformed", "py": describe(value), "name": name}
    ck.case(case, nontrivial=False)
    ck.count("check:" + kind)
    rep = d.ask({"op": "check", "value": shorthand_wire(value), "name": name, "R": r_table([value])})
    mk = rep["res"].get("err", "ok")
    if mk != kind:
        ck.mismatch(case, {"what": "check_hyperparameter", "impl": kind + (": " + repr(out.exc)[:120] if out.exc is not None else ""), "model": mk})
    elif kind == "ok" and rep["res"]["hp"] != cshp_wire(out.val):
        ck.mismatch(case, {"what": "check_hyperparameter value", "impl": cshp_wire(out.val), "model": rep["res"]["hp"]})


# --------------------------------------------------------------------------- L2: samplers under a scripted stream


def scripted_state(us=None, ks=None):
    """a RandomState whose `uniform` / `randint` hand out the scripted draws"""

    class Scripted(np.random.RandomState):
        def uniform(self, low=0.0, high=1.0, size=None):
            n = int(np.prod(size)) if size is not None else 1
            assert us is not None and len(us) >= n, "stream exhausted"
            return low + (high - low) * np.asarray(us[:n], dtype=float).reshape(size if size is not None else ())

        def random_sample(self, size=None):
            return self.uniform(size=size)

        def randint(self, low, high=None, size=None, dtype=int):
            n = int(np.prod(size)) if size is not None else 1
            assert ks is not None and len(ks) >= n, "stream exhausted"
            return np.asarray(ks[:n], dtype=np.int64).reshape(size if size is not None else ())

    return Scripted(0)


def sampler_case(ck, d, rng):
    from .c09 import gen_dim

    base = 2 if rng.random() < 0.15 else 10
    s = gen_dim(rng, base)
    if s["k"] == "cat" and rng.random() < 0.4:
        s["tr"] = rng.choice(["label", "onehot", "normalize"])
    if s["k"] == "cat" and s["tr"] != "identity" and rng.random() < 0.25:
        # mixed-type category lists are accepted declarations: the sampler must hand out the declared objects
        s["cats"] = rng.choice([["sqrt", "log2", 0.5, 3], ["relu", 1, 2.5], ["a", True], ["auto", 0.1, 10], [False, "none", 2.0]])
    prior = None
    if s["k"] == "cat" and len(s["cats"]) >= 2 and rng.random() < 0.4:
        w = [rng.randint(1, 5) for _ in s["cats"]]
        prior = [x / sum(w) for x in w]
    from deephyper.skopt.space import Categorical

    # half of the time the dimension object has a history: built with another transformer and switched 1-3 times,
    # ending at s["tr"] (what normalize_dimensions / the samplers' save-restore do); it must sample like a fresh one
    from .c09 import allowed_transforms

    path = [s["tr"]]
    if rng.random() < 0.5:
        path = [rng.choice(allowed_transforms(s)) for _ in range(rng.choice([1, 2, 3]))] + [s["tr"]]
    s0 = dict(s, tr=path[0])
    dim = (mk_dim(s0) if s0["tr"] != "string" else Categorical(list(s["cats"]), transform="string")) if prior is None \
        else Categorical(list(s["cats"]), prior=prior, transform=path[0])
    for t in path[1:]:
        dim.set_transformer(t)
    ck.count("sampler-history-len=%d" % (len(path) - 1))
    m = rng.choice([1, 3, 8])
    n_cat = len(s["cats"]) if s["k"] == "cat" else 0
    pool = [0.0, float(np.nextafter(1.0, 0.0)), 0.5, 1 / 3, 0.25, 0.75]
    if n_cat:
        cum = np.cumsum(prior if prior is not None else [1.0 / n_cat] * n_cat)
        pool += [float(c) - 1e-9 for c in cum if c - 1e-9 > 0] + [float(c) + 1e-9 for c in cum[:-1]]
    us = [rng.choice(pool) if rng.random() < 0.4 else rng.random() for _ in range(m)]
    if n_cat:
        # exactly on a cumulative weight the float cumsum (rounded) and the exact one may disagree: a null set, moved aside
        us = [u + 1e-9 if any(abs(u - float(c)) < 1e-12 for c in cum) and u + 1e-9 < 1.0 else u for u in us]
        us = [u for u in us if not any(abs(u - float(c)) < 1e-12 for c in cum)] or [0.123456789]
        m = len(us)
    uses_int = s["k"] == "int" and s["prior"] == "uniform"
    ks = [rng.choice([s["lo"], s["hi"], rng.randint(s["lo"], s["hi"])]) for _ in range(m)] if uses_int else None
    out = Out(lambda: dim.rvs(n_samples=m, random_state=scripted_state(us, ks)))
    case = {"kind": "sampler", "dim": s, "prior": prior, "us": us, "ks": ks, "transform_history": path}
    ck.case(case)
    ck.count("sampler:" + dimsig(s))
    # the draws as the model sees them
    if uses_int:
        draws = [{"r": int(k)} for k in ks]
        tvals = None
    else:
        if s["k"] == "cat":
            scale, loc = 1.0, 0.0
        elif s["tr"] == "normalize":
            scale, loc = float(np.nextafter(1.0, 2.0)), 0.0
        elif s["prior"] == "uniform":
            sc = s["hi"] - s["lo"]
            scale, loc = float(np.nextafter(sc, sc + 1.0)), s["lo"]
        else:
            a, b = l_scalar(s["lo"], base), l_scalar(s["hi"], base)
            scale, loc = float(np.nextafter(b - a, b - a + 1.0)), a
        draws = [{"u": rat(u), "s": rat(scale)} for u in us]
        tvals = np.asarray(us, dtype=float) * scale + loc  # scipy: vals * scale + loc
    req = {"op": "sample", "dim": wire_dim(s), "prior": None if prior is None else [rat(float(p)) for p in prior], "draws": draws}
    etab = None
    if is_log(s):
        req["L"] = l_table([s], [])
        etab = e_table([s], np.asarray(tvals).reshape((-1, 1)))
        req["E"] = etab
    rep = d.ask(req)
    if out.exc is not None:
        ck.mismatch(case, {"what": "Dimension.rvs under a scripted stream", "impl": "raises " + repr(out.exc)[:200], "model": rep["vals"][:3]})
        return
    real = list(out.val)
    if len(real) != m:
        ck.mismatch(case, {"what": "Dimension.rvs count", "impl": len(real), "model": m})
        return
    for i, (rv, mv) in enumerate(zip(real, rep["vals"])):
        tv = tag(rv)
        if "err" in mv:
            ck.mismatch(case, {"what": "sampler", "i": i, "impl": tv, "model": mv})
            return
        if s["k"] == "real":
            good = tv["t"] == "f" and mv["t"] == "f"
            if good:
                x, y = unrat(tv["v"]), unrat(mv["v"])
                if s["prior"] == "uniform":
                    good = abs(x - y) <= 4 * Fraction(math.ulp(max(abs(s["lo"]), abs(s["hi"]))))
                else:
                    good = x == y or abs(x - y) <= Fraction(rt_tolerance(s, float(y)))
        elif s["k"] == "int" and s["prior"] == "log-uniform":
            good = tv == mv or (tv["t"] == "i" and mv["t"] == "i" and abs(tv["v"] - mv["v"]) <= 1 and _near_half(s, etab, tv["v"], mv["v"]))
        else:
            good = tv == mv
        if not good:
            ck.mismatch(case, {"what": "sampler value", "i": i, "impl": tv, "model": mv})
            return
        if not rep["mem"][i]:
            ck.mismatch(case, "the model's sample is not a member (theorem C10_support out of sync)")
            return


def _near_half(s, etab, a, b):
    """the exact and the float argument of base**x may round to neighbouring integers when base**x is within
    rounding of a half-integer"""
    for _, v in etab or []:
        x = float(unrat(v))
        if min(a, b) <= x <= max(a, b) + 1 and abs((x % 1.0) - 0.5) < 1e-6:
            return True
    return False


# --------------------------------------------------------------------------- L3: laws with real generators


def chi2_threshold(df):
    from scipy.stats import chi2

    return float(chi2.isf(P_TAIL, df))


def ks_threshold(n):
    # P(D > d) <= 2 exp(-2 n d^2)  (Dvoretzky-Kiefer-Wolfowitz)
    return math.sqrt(-math.log(P_TAIL / 2) / (2 * n))


def end_fraction(n):
    """q with (1-q)^n = 1e-12: n uniform samples all miss the first (last) fraction q of the range with that probability"""
    return 1.0 - math.exp(math.log(1e-12) / n)


def law_int_log_flat(lo, hi):
    """P(k) = (L c2 - L c1) / (L hi - L lo) over the cells (c1, c2) = flatCell lo hi k (theorem C10_int_log_flat_law)"""
    span = math.log(hi) - math.log(lo)
    return [(math.log(c2) - math.log(c1)) / span for c1, c2 in lean_cells("flat", lo, hi)]


def law_int_log_configspace(lo, hi):
    """ConfigSpace: exp(U[ln lo, ln hi]) quantized into hi-lo+1 equal bins of [lo, hi]:
    P(lo + j) = (L c2 - L c1) / (L hi - L lo), (c1, c2) = csCell lo hi j (theorem C10_int_log_configspace_law)"""
    span = math.log(hi) - math.log(lo)
    return [(math.log(c2) - math.log(c1)) / span for c1, c2 in lean_cells("cs", lo, hi)]


def judge_column(ck, path, hp_desc, col, case):
    """support + law of one column of samples.  hp_desc: dict(kind=…, lo, hi, log, choices, probs)"""
    n = len(col)
    kind = hp_desc["kind"]
    sig = hp_desc["sig"]
    if n == 0:
        return

    def fail(clause, what, detail):
        ck.fail(f"C10|{clause}|{path}|{sig}", f"{what} ({sig}, {path})", case, detail)

    if kind in ("cat",):
        choices = hp_desc["choices"]
        probs = hp_desc["probs"]
        def key(v):
            t = tag(v)
            if hp_desc.get("loose_numeric") and t["t"] in ("i", "f"):
                # ConfigSpace keeps a numeric ordinal sequence in one NumPy array: 1 comes back as 1.0 on its paths
                return "num:" + str(unrat(t["v"]) if t["t"] == "f" else Fraction(t["v"]))
            return json.dumps(t, sort_keys=True)

        keys = [key(c) for c in choices]
        cnt = {k: 0 for k in keys}
        for v in col:
            k = key(v)
            if k not in cnt:
                return fail("support", "a sampled value is not a declared choice (value and Python type)",
                            {"value": repr(v), "type": type(v).__name__, "declared": repr(choices)})
            cnt[k] += 1
        missing = [c for c, k in zip(choices, keys) if cnt[k] == 0 and probs[keys.index(k)] * n > 50]
        if missing:
            return fail("coverage", "a declared choice never occurs", {"missing": repr(missing), "n": n})
        if len(choices) > 1:
            stat = sum((cnt[k] - n * p) ** 2 / (n * p) for k, p in zip(keys, probs) if p > 0)
            if stat > chi2_threshold(len(choices) - 1):
                return fail("law-chi2", "category frequencies are not consistent with the declared prior",
                            {"counts": [cnt[k] for k in keys], "expected": [round(n * p, 1) for p in probs], "chi2": stat})
        return
    lo, hi = hp_desc["lo"], hp_desc["hi"]
    if kind == "int":
        if any(not isinstance(v, (int, np.integer)) or isinstance(v, (bool, np.bool_)) or not (lo <= v <= hi) for v in col):
            bad = [v for v in col if not isinstance(v, (int, np.integer)) or not (lo <= v <= hi)][:3]
            return fail("support", "a sampled value is outside the declared integer range", {"values": repr(bad)})
        size = hi - lo + 1
        law = hp_desc["law"]
        if size <= 64:
            probs = law(lo, hi) if law else [1.0 / size] * size
            cnt = [0] * size
            for v in col:
                cnt[int(v) - lo] += 1
            missing = [lo + j for j in range(size) if cnt[j] == 0 and probs[j] * n > 50]
            if missing:
                return fail("coverage", "a value of a small integer range never occurs", {"missing": missing, "n": n})
            stat = sum((c - n * p) ** 2 / (n * p) for c, p in zip(cnt, probs))
            if stat > chi2_threshold(size - 1):
                return fail("law-chi2", "integer frequencies are not consistent with the declared prior",
                            {"counts": cnt, "expected": [round(n * p, 1) for p in probs], "chi2": stat})
            return
        xs = np.sort(np.asarray(col, dtype=float))
        if hp_desc["log"]:
            cdf = (np.log(np.clip(xs + 0.5, lo, hi)) - math.log(lo)) / (math.log(hi) - math.log(lo))
            slack = 2.0 / (math.log(hi) - math.log(lo)) * math.log((lo + 1.0) / lo)  # discretisation of the first cells
        else:
            cdf = (xs - lo + 1) / size
            slack = 1.0 / size
        emp = np.arange(1, n + 1) / n
        dstat = float(np.max(np.abs(emp - cdf)))
        if dstat > ks_threshold(n) + slack:
            return fail("law-ks", "integer sample is not consistent with the declared prior", {"D": dstat, "threshold": ks_threshold(n) + slack})
        q = end_fraction(n)
        if xs[0] > lo + q * (hi - lo) and not hp_desc["log"] or xs[-1] < hi - q * (hi - lo) and not hp_desc["log"]:
            return fail("coverage", "the ends of the integer range are not reached", {"min": xs[0], "max": xs[-1]})
        return
    # real
    if any(not isinstance(v, (float, np.floating)) or not (lo <= v <= hi) for v in col):
        bad = [v for v in col if not isinstance(v, (float, np.floating)) or not (lo <= v <= hi)][:3]
        return fail("support", "a sampled value is outside the declared real range", {"values": repr(bad)})
    xs = np.sort(np.asarray(col, dtype=float))
    t = (np.log(xs) - math.log(lo)) / (math.log(hi) - math.log(lo)) if hp_desc["log"] else (xs - lo) / (hi - lo)
    emp_hi = np.arange(1, n + 1) / n
    emp_lo = np.arange(0, n) / n
    dstat = float(max(np.max(np.abs(emp_hi - t)), np.max(np.abs(emp_lo - t))))
    if dstat > ks_threshold(n):
        return fail("law-ks", "real sample is not consistent with the declared prior", {"D": dstat, "threshold": ks_threshold(n)})
    if t[0] > end_fraction(n) or t[-1] < 1 - end_fraction(n):
        return fail("coverage", "the ends of the real range are not reached", {"min": float(xs[0]), "max": float(xs[-1])})


def law_problem(rng, weighted=True):
    """a problem with every kind of hyperparameter (and a real one, so that points are almost surely distinct)"""
    import ConfigSpace.hyperparameters as csh
    from deephyper.hpo import HpProblem

    p = HpProblem()
    descs = {}

    def add(name, value, desc):
        p.add_hyperparameter(value, name) if not isinstance(value, csh.Hyperparameter) else p.add_hyperparameter(value)
        descs[name] = desc

    lo = rng.choice([0, 1, -3])
    hi = lo + rng.choice([1, 2, 3, 5, 9])
    add("i_small", (lo, hi), {"kind": "int", "lo": lo, "hi": hi, "log": False, "sig": "int/uniform"})
    add("i_big", (10, 10 ** 6), {"kind": "int", "lo": 10, "hi": 10 ** 6, "log": False, "sig": "int/uniform,large"})
    a = rng.choice([1, 2])
    b = a + rng.choice([3, 7, 14])
    add("i_log", (a, b, "log-uniform"), {"kind": "int", "lo": a, "hi": b, "log": True, "sig": "int/log-uniform"})
    add("i_log_big", (1, 10 ** 5, "log-uniform"), {"kind": "int", "lo": 1, "hi": 10 ** 5, "log": True, "sig": "int/log-uniform,large"})
    flo = rng.choice([0.0, -2.5, 1.0])
    fhi = flo + rng.choice([1.0, 7.5])
    add("r_uni", (flo, fhi), {"kind": "real", "lo": flo, "hi": fhi, "log": False, "sig": "real/uniform"})
    llo, lhi = rng.choice([(1e-4, 1e2), (3e-5, 7e3), (1.0, 32.0)])
    add("r_log", (llo, lhi, "log-uniform"), {"kind": "real", "lo": llo, "hi": lhi, "log": True, "sig": "real/log-uniform"})
    ch = rng.sample(_WORDS, rng.choice([2, 3, 5]))
    add("c_str", ch, {"kind": "cat", "choices": ch, "probs": [1.0 / len(ch)] * len(ch), "sig": "cat"})
    add("c_bool", [True, False], {"kind": "cat", "choices": [True, False], "probs": [0.5, 0.5], "sig": "cat[bool]"})
    oi = rng.choice([[1, 2, 4], [8, 4, 2, 1], [3, 5]])
    add("o_int", oi, {"kind": "cat", "choices": oi, "probs": [1.0 / len(oi)] * len(oi), "sig": "ordinal[int]"})
    of = [0.1, 0.5, 2.5]
    add("o_float", of, {"kind": "cat", "choices": of, "probs": [1 / 3] * 3, "sig": "ordinal[float]"})
    add("k_const", 7, {"kind": "cat", "choices": [7], "probs": [1.0], "sig": "constant"})
    mx = rng.choice([["sqrt", "log2", 0.5, 3], ["relu", 1, 2.5], ["auto", 0.1, 10]])
    add("c_mixed", mx, {"kind": "cat", "choices": mx, "probs": [1.0 / len(mx)] * len(mx), "sig": "cat[mixed str+float+int]"})
    add("c_strbool", ["a", True], {"kind": "cat", "choices": ["a", True], "probs": [0.5, 0.5], "sig": "cat[mixed str+bool]"})
    om = rng.choice([[1, 2.5, 4], [0.5, 2, 3]])
    add("o_mixed", om, {"kind": "cat", "choices": om, "probs": [1.0 / len(om)] * len(om), "sig": "ordinal[mixed int+float]", "cs_loose": True})
    if weighted:
        wch = ["p", "q", "r"]
        w = rng.choice([[0.7, 0.2, 0.1], [0.1, 0.1, 0.8]])
        add("c_weighted", csh.CategoricalHyperparameter("c_weighted", wch, weights=w),
            {"kind": "cat", "choices": wch, "probs": [x / sum(w) for x in w], "sig": "cat,weights"})
    return p, descs


CS_PATHS = ("Space.rvs:configspace", "RandomSearch.ask", "Optimizer.ask:RF:configspace", "CBO.ask:configspace")


def judge_rows(ck, path, problem, descs, rows, base_case, child=None):
    """rows: points (lists in the order of problem.hyperparameter_names - what CBO._to_dict assumes - or dicts by name).
    Column i is judged against the declaration of the hyperparameter OF THAT NAME (value and Python type)."""
    names = list(problem.hyperparameter_names)
    on_cs = any(path.startswith(p) for p in CS_PATHS)
    check_points_by_name(ck, {**base_case, "path": path}, problem,
                         [[r[nm] for nm in names] if isinstance(r, dict) else r for r in rows[:200]],
                         "Space.rvs:configspace" if on_cs else "Space.rvs:flat")
    cols = {}
    for i, nm in enumerate(names):
        cols[nm] = [r[nm] if isinstance(r, dict) else r[i] for r in rows]
    for nm in names:
        if nm not in descs:
            continue
        desc = dict(descs[nm])
        desc["law"] = (law_int_log_configspace if on_cs else law_int_log_flat) if desc["kind"] == "int" and desc.get("log") else None
        desc["loose_numeric"] = bool(on_cs and desc.get("cs_loose"))
        judge_column(ck, path, desc, cols[nm], {**base_case, "path": path, "hyperparameter": nm})
        ck.count(f"law:{path}:{desc['sig']}")
    if child is not None:
        # the conditional child: active (uniform on its range) when the parent has the value, else ITS lower bound
        cname, pname, pval, lo, hi = child
        act = [c for c, b in zip(cols[cname], cols[pname]) if tag(b) == tag(pval)]
        inact = [c for c, b in zip(cols[cname], cols[pname]) if tag(b) != tag(pval)]
        if any(tag(v) != tag(lo) for v in inact):
            ck.fail(f"C10|inactive-value|{path}|int", "an inactive hyperparameter is not given its own lower bound", {**base_case, "path": path},
                    {"values": sorted({repr(v) for v in inact})[:5], "lower": lo})
        if not act and len(rows) >= 200:
            ck.fail(f"C10|coverage|{path}|int/uniform,conditional", "the conditional hyperparameter is never active", {**base_case, "path": path},
                    {"rows": len(rows)})
        judge_column(ck, path, {"kind": "int", "lo": lo, "hi": hi, "log": False, "law": None, "sig": "int/uniform,conditional"},
                     act, {**base_case, "path": path, "hyperparameter": cname})
    ck.case({**base_case, "path": path})


def conditional_problem(seed):
    """the law problem plus a conditional child whose name sorts BEFORE its parent (ConfigSpace lists parents first)
    and whose lower bound differs from every other one"""
    import random

    import ConfigSpace as cs

    problem, descs = law_problem(random.Random(seed), weighted=True)
    child = problem.add_hyperparameter((2, 5), "a_child")
    problem.add_condition(cs.EqualsCondition(child, problem.space["c_bool"], True))
    return problem, descs, ("a_child", "c_bool", True, 2, 5)


def check_dimension_order(ck, problem, sp, base_case):
    if sp.dimension_names != list(problem.hyperparameter_names):
        ck.fail("C10|convert-names-order|convert_to_skopt_space|names", "names / order of the converted space differ from the problem's",
                base_case, {"space": sp.dimension_names, "problem": list(problem.hyperparameter_names)})
        return False
    return True


def law_case(ck, d, seed, n):
    """everything (problem, generators) is derived from `seed`: a stored case replays exactly"""
    import random

    from deephyper.hpo._problem import convert_to_skopt_space
    from deephyper.skopt import Optimizer

    problem, descs = law_problem(random.Random(seed))
    base_case = {"kind": "law", "seed": seed, "n": n, "descs": {k: {kk: vv for kk, vv in v.items() if kk != "law"} for k, v in descs.items()}}

    # (1) flat Space.rvs
    sp = convert_to_skopt_space(problem.space, surrogate_model="RF")
    check_dimension_order(ck, problem, sp, base_case)
    nj = random.Random(seed).choice([1, 2, 4])
    ck.count("law:Space.rvs:flat:n_jobs=%d" % nj)
    rows = sp.rvs(n, random_state=np.random.RandomState(seed), n_jobs=nj)
    judge_rows(ck, "Space.rvs:flat", problem, descs, rows, {**base_case, "n_jobs": nj})
    # (2) Optimizer.ask in the initial phase with the GP surrogate (every dimension normalized)
    sp = convert_to_skopt_space(problem.space, surrogate_model="GP")
    out = Out(lambda: Optimizer(sp, base_estimator="GP", n_initial_points=10 ** 9, random_state=seed,
                                acq_optimizer_kwargs={"n_points": n}))
    if out.exc is not None:
        ck.count("law:Optimizer-GP-unavailable:" + type(out.exc).__name__)
    else:
        opt = out.val
        tr = {dm.transform_ for dm in opt.space.dimensions}
        ck.count("law:Optimizer.ask:GP transforms=" + ",".join(sorted(tr)))
        rows = opt.ask(n_points=n)
        if len(rows) >= n // 2:
            judge_rows(ck, "Optimizer.ask:GP", problem, descs, rows, base_case)
    # (3) Space.rvs through ConfigSpace
    problem2, descs2, child = conditional_problem(seed)
    sp2 = convert_to_skopt_space(problem2.space, surrogate_model="RF")
    if sp2.config_space is None:
        ck.fail("C10|configspace-path|convert_to_skopt_space|conditions", "a space with a condition is not sampled through ConfigSpace", base_case)
    else:
        check_dimension_order(ck, problem2, sp2, base_case)
        sp2.config_space.seed(seed)
        rows2 = sp2.rvs(n, random_state=np.random.RandomState(seed))
        judge_rows(ck, "Space.rvs:configspace", problem2, descs2, rows2, base_case, child=child)
        # L2: the same ConfigSpace stream twice: the configurations it samples, and the points Space.rvs builds from them
        sp2.config_space.seed(seed + 1)
        confs = sp2.config_space.sample_configuration(8)
        sp2.config_space.seed(seed + 1)
        real_rows = sp2.rvs(8, random_state=np.random.RandomState(seed))
        dims_w = [skdim_wire(dm) for dm in sp2.dimensions]
        for conf, row in zip(confs, real_rows):
            cd = dict(conf)
            rep = d.ask({"op": "point", "dims": dims_w, "conf": [[k, tag(v)] for k, v in cd.items()]})
            if rep["res"].get("row") != [tag(v) for v in row]:
                ck.mismatch({"kind": "point", "seed": seed, "conf": {k: repr(v) for k, v in cd.items()}},
                            {"what": "Space.rvs (ConfigSpace path) vs pointOfConf of the configuration ConfigSpace sampled",
                             "impl": [tag(v) for v in row], "model": rep["res"]})
            ck.count("point:" + ("inactive-filled" if len(cd) < len(dims_w) else "all-active"))
    # (4) RandomSearch.ask, (5) CBO.ask (the rows of Optimizer.ask turned into dicts by name)
    tmp = tempfile.mkdtemp(prefix="c10_")
    try:
        from deephyper.hpo import CBO, RandomSearch

        cond = seed % 2 == 1
        pb, ds, ch = (problem2, descs2, child) if cond else (problem, descs, None)
        sm = random.Random(seed + 1).choice(["RF", "ET", "GP", "DUMMY"])

        n_cbo = max(2000, n // 3)  # the stage under test here is the conversion to dicts by name: a third of the sample is enough

        def cbo_ask():
            search = CBO(pb, _zero, random_state=seed, log_dir=os.path.join(tmp, "cbo"), surrogate_model=sm, n_points=n_cbo, verbose=0)
            search._setup_optimizer()  # what CBO.search() does first
            return search.ask(n_cbo)

        out = Out(cbo_ask)
        if out.exc is not None:
            ck.fail(f"C10|raises:{err_kind(out.exc)}|CBO.ask|declared-problem", "CBO.ask raises in the initial phase on an accepted problem",
                    {**base_case, "surrogate": sm}, repr(out.exc)[:300])
        else:
            confs = out.val
            names_all = list(pb.hyperparameter_names)
            ck.count("law:CBO.ask:surrogate=" + sm)
            if any(sorted(c.keys()) != sorted(names_all) for c in confs[:50]):
                ck.fail("C10|names|CBO.ask|keys", "a configuration does not have exactly the problem's hyperparameters", base_case, {"keys": list(confs[0].keys())})
            elif len(confs) >= n_cbo // 2:
                judge_rows(ck, "CBO.ask:configspace" if cond else "CBO.ask", pb, ds, confs, {**base_case, "surrogate": sm}, child=ch)

        out = Out(lambda: RandomSearch(problem2, _zero, random_state=seed, log_dir=tmp))
        if out.exc is not None:
            ck.count("law:RandomSearch-unavailable:" + type(out.exc).__name__)
        else:
            confs = out.val.ask(n)
            names_all = list(problem2.hyperparameter_names)
            if any(sorted(c.keys()) != sorted(names_all) for c in confs[:50]):
                ck.fail("C10|names|RandomSearch.ask|keys", "a configuration does not have exactly the problem's hyperparameters", base_case, {"keys": list(confs[0].keys())})
            else:
                judge_rows(ck, "RandomSearch.ask", problem2, descs2, confs, base_case, child=child)
    finally:
        shutil.rmtree(tmp, ignore_errors=True)


def _zero(job):
    return 0.0


def small_calls_case(ck, seed, calls):
    """the laws over MANY SMALL CALLS on one object sharing one random state (what a search does), aggregated,
    and successive batches must differ; flat and ConfigSpace (conditional) problems"""
    import random

    from deephyper.hpo._problem import convert_to_skopt_space
    from deephyper.skopt import Optimizer

    base_case = {"kind": "small-calls", "seed": seed, "calls": calls}
    rng = random.Random(seed)

    def aggregate(path, problem, descs, batches, child=None):
        same = sum(1 for a, b in zip(batches, batches[1:]) if repr(a) == repr(b))
        ck.count("small-calls:" + path)
        if same:
            ck.fail(f"C10|batches-identical|{path}|shared-random-state",
                    f"successive calls sharing one random state return identical batches ({same} of {len(batches) - 1})",
                    {**base_case, "path": path}, {"first": repr(batches[0])[:300]})
            if same > len(batches) // 2:
                return  # the aggregated frequencies only repeat this finding
        rows = [r for b in batches for r in b]
        judge_rows(ck, path + ":small-calls", problem, descs, rows, base_case, child=child)

    flat, fdescs = law_problem(random.Random(seed))
    cond, cdescs, child = conditional_problem(seed)
    # Space.rvs, one shared RandomState
    for path, problem, descs, ch in (("Space.rvs:flat", flat, fdescs, None), ("Space.rvs:configspace", cond, cdescs, child)):
        sp = convert_to_skopt_space(problem.space, surrogate_model=rng.choice(["RF", "GP"]))
        if sp.config_space is not None:
            sp.config_space.seed(seed)
        rs = np.random.RandomState(seed)
        aggregate(path, problem, descs, [sp.rvs(5, random_state=rs) for _ in range(calls)], ch)
    # Optimizer.ask in the initial phase: ask() and ask(n) repeated on one optimizer
    for path, problem, descs, ch, sm in (("Optimizer.ask:RF", flat, fdescs, None, "RF"), ("Optimizer.ask:GP", flat, fdescs, None, "GP"),
                                         ("Optimizer.ask:RF:configspace", cond, cdescs, child, "RF")):
        sp = convert_to_skopt_space(problem.space, surrogate_model=sm)
        # the duplicate filter as a user has it (on by default) for most objects, explicitly off for the others: with a real
        # hyperparameter no candidate is a duplicate, so what is handed out must follow the prior either way
        filt = rng.random() < 0.7
        ck.count("small-calls:%s:filter_duplicated=%s" % (path, "default" if filt else "False"))
        out = Out(lambda: Optimizer(sp, base_estimator=sm, n_initial_points=10 ** 9, random_state=seed,
                                    acq_optimizer_kwargs={"n_points": 16, **({} if filt else {"filter_duplicated": False})}))
        if out.exc is not None:
            ck.count("small-calls:Optimizer-unavailable:" + type(out.exc).__name__)
            continue
        opt = out.val
        batches = []
        for k in range(calls):
            batches.append([opt.ask()] if k % 3 else opt.ask(n_points=4))
        aggregate(path, problem, descs, batches, ch)
    # CBO.ask(1) / ask(4) repeated on one search object (every option at its default but the number of candidates)
    tmp = tempfile.mkdtemp(prefix="c10_")
    try:
        from deephyper.hpo import CBO

        use_cond = rng.random() < 0.5
        pb, ds, ch = (cond, cdescs, child) if use_cond else (flat, fdescs, None)
        sm = rng.choice(["RF", "ET", "GP", "DUMMY"])

        def build():
            search = CBO(pb, _zero, random_state=seed, log_dir=tmp, surrogate_model=sm, n_points=16, n_initial_points=10 ** 6, verbose=0)
            search._setup_optimizer()  # what CBO.search() does first
            return search

        out = Out(build)
        if out.exc is not None:
            ck.count("small-calls:CBO-unavailable:" + type(out.exc).__name__)
        else:
            o2 = Out(lambda: [out.val.ask(1 if k % 3 else 4) for k in range(max(100, calls // 2))])
            if o2.exc is not None:
                ck.fail(f"C10|raises:{err_kind(o2.exc)}|CBO.ask|small-calls", "CBO.ask raises in the initial phase", {**base_case, "surrogate": sm}, repr(o2.exc)[:300])
            elif any(not isinstance(c, dict) or sorted(c) != sorted(pb.hyperparameter_names) for b in o2.val for c in b):
                ck.fail("C10|names|CBO.ask|keys", "a configuration does not have exactly the problem's hyperparameters", {**base_case, "surrogate": sm})
            else:
                aggregate("CBO.ask:configspace" if use_cond else "CBO.ask", pb, ds, o2.val, ch)
    finally:
        shutil.rmtree(tmp, ignore_errors=True)
    # RandomSearch.ask
    tmp = tempfile.mkdtemp(prefix="c10_")
    try:
        from deephyper.hpo import RandomSearch

        out = Out(lambda: RandomSearch(cond, _zero, random_state=seed, log_dir=tmp))
        if out.exc is None:
            batches = [out.val.ask(1 if k % 3 else 4) for k in range(calls)]
            aggregate("RandomSearch.ask", cond, cdescs, batches, child)
    finally:
        shutil.rmtree(tmp, ignore_errors=True)


# --------------------------------------------------------------------------- the stage between the sampler and the user


class RvsSpy:
    """stands in for `Space.rvs` (class attribute) while one case runs and records every candidate list that is drawn,
    in order; observation only, the real method does the work"""

    def __init__(self):
        self.draws = []

    def __enter__(self):
        from deephyper.skopt.space import space as space_mod

        spy = self
        self._cls = space_mod.Space
        self._orig = self._cls.rvs

        def rvs(self_, *a, **kw):
            out = spy._orig(self_, *a, **kw)
            spy.draws.append([list(r) for r in out])
            return out

        self._cls.rvs = rvs
        return self

    def __exit__(self, *a):
        self._cls.rvs = self._orig

    def take(self):
        d, self.draws = self.draws, []
        return d


def discrete_problem(seed, conditional):
    """a problem made ONLY of discrete hyperparameters (small integer ranges uniform / log-uniform, categories of every
    kind, weighted categories, ordinals, a constant) with 4..24 configurations, randomly named; `conditional` adds an
    integer child that is active for one value of a parent.  Returns (make_problem, hps, child) where hps is the list of
    (name, kind signature, values, flat-path probabilities, ConfigSpace-path probabilities); everything derived from `seed`."""
    import random

    rng = random.Random(seed)
    for _ in range(200):
        kinds = rng.sample(["iu", "iu", "il", "cat", "bool", "ord", "catw", "mixed", "const"], rng.choice([2, 2, 3]))
        names = rng.sample(_NAMES, len(kinds) + 1)
        hps = []
        for nm, k in zip(names, kinds):
            if k == "iu":
                lo = rng.choice([0, 1, -2, 5])
                vals = list(range(lo, lo + rng.choice([2, 3, 4, 5])))
                hps.append((nm, "int/uniform", (vals[0], vals[-1]), vals, None, None))
            elif k == "il":
                lo = rng.choice([1, 2])
                vals = list(range(lo, lo + rng.choice([3, 4, 5])))
                hps.append((nm, "int/log-uniform", (vals[0], vals[-1], "log-uniform"), vals, "flat", "cs"))
            elif k == "cat":
                vals = rng.sample(_WORDS, rng.choice([2, 3, 4]))
                hps.append((nm, "cat", vals, vals, None, None))
            elif k == "bool":
                vals = rng.choice([[True, False], [False, True]])
                hps.append((nm, "cat[bool]", vals, vals, None, None))
            elif k == "ord":
                vals = rng.choice([[1, 2, 4], [8, 4, 2, 1], [3, 5], [0.1, 0.5, 2.5]])
                hps.append((nm, "ordinal[%s]" % type(vals[0]).__name__, vals, vals, None, None))
            elif k == "catw":
                vals = rng.sample(_WORDS, 3)
                w = rng.choice([[0.6, 0.3, 0.1], [0.2, 0.3, 0.5], [1, 1, 2]])
                hps.append((nm, "cat,weights", ("weights", vals, w), vals, [x / sum(w) for x in w], [x / sum(w) for x in w]))
            elif k == "mixed":
                vals = rng.choice([["relu", 1, 2.5], ["sqrt", "log2", 0.5, 3], ["a", True]])
                hps.append((nm, "cat[mixed]", vals, vals, None, None))
            else:
                hps.append((nm, "constant", rng.choice([7, "fixed", 2.5]), None, None, None))
        hps = [(nm, sig, decl, vals if vals is not None else [decl], pf, pc) for nm, sig, decl, vals, pf, pc in hps]
        child = None
        if conditional:
            parents = [h for h in hps if len(h[3]) >= 2 and h[1] != "int/log-uniform"]
            if not parents:
                continue
            par = rng.choice(parents)
            lo = rng.choice([2, 3])
            cvals = list(range(lo, lo + rng.choice([2, 3])))
            child = (names[-1], par[0], rng.choice(par[3]), cvals)
        m = 1
        for h in hps:
            m *= len(h[3])
        if child:
            m = m // len([h for h in hps if h[0] == child[1]][0][3]) * (len([h for h in hps if h[0] == child[1]][0][3]) - 1 + len(child[3]))
        if 5 <= m <= 24:
            break
    else:
        raise common.HarnessError("discrete_problem: no problem of 5..24 configurations")

    def make():
        import ConfigSpace as cs
        import ConfigSpace.hyperparameters as csh
        from deephyper.hpo import HpProblem

        p = HpProblem()
        for nm, sig, decl, vals, pf, pc in hps:
            if isinstance(decl, tuple) and decl and decl[0] == "weights":
                p.add_hyperparameter(csh.CategoricalHyperparameter(nm, list(decl[1]), weights=list(decl[2])))
            else:
                p.add_hyperparameter(decl if not isinstance(decl, list) else list(decl), nm)
        if child:
            c = p.add_hyperparameter((child[3][0], child[3][-1]), child[0])
            p.add_condition(cs.EqualsCondition(c, p.space[child[1]], child[2]))
        return p

    return make, hps, child


def point_law(problem, hps, child, on_cs):
    """the law of ONE configuration drawn from the declared prior, over the points a user can receive (in the order of
    problem.hyperparameter_names; an inactive child has its own lower bound): list of (row, probability)"""
    import itertools

    names = list(problem.hyperparameter_names)
    cols = {}
    for nm, sig, decl, vals, pf, pc in hps:
        pr = pc if on_cs else pf
        if pr in ("flat", "cs"):
            pr = (law_int_log_configspace if pr == "cs" else law_int_log_flat)(vals[0], vals[-1])
        cols[nm] = list(zip(vals, pr if pr is not None else [1.0 / len(vals)] * len(vals)))
    if child:
        cols[child[0]] = [(v, 1.0 / len(child[3])) for v in child[3]]
    law = {}
    for combo in itertools.product(*[cols[nm] for nm in names]):
        row = [v for v, _ in combo]
        pr = 1.0
        for _, q in combo:
            pr *= q
        if child and tag(row[names.index(child[1])]) != tag(child[2]):
            row[names.index(child[0])] = child[3][0]
        key = json.dumps([tag(v) for v in row], sort_keys=True)
        if key in law:
            law[key] = (law[key][0], law[key][1] + pr)
        else:
            law[key] = (row, pr)
    return list(law.values())


def successive_laws(p, K, n_points, geom=None):
    """law of the k-th configuration handed out (k < K) when each one is the first candidate, in drawing order, that was
    not handed out before (C10_handout_drawing_order) and candidates are independent draws from p: by
    C10_first_proposal_law the conditional law given the history H is p(v) * geom(q_H, 1, n_points), q_H = p(H)."""
    m = len(p)
    g = geom or (lambda q: (1.0 - q ** n_points) / (1.0 - q))
    states = {frozenset(): 1.0}
    laws = []
    for _ in range(K):
        law = [0.0] * m
        nxt = {}
        for hist, ph in states.items():
            f = ph * g(sum(p[i] for i in hist))
            for v in range(m):
                if v not in hist:
                    law[v] += f * p[v]
                    h2 = hist | {v}
                    nxt[h2] = nxt.get(h2, 0.0) + f * p[v]
        laws.append(law)
        states = nxt
    return laws


def proposal_law_case(ck, d, seed, n_seeds, conditional, apis=("Optimizer.ask", "CBO.ask", "RandomSearch.ask"), pool=None):
    """ACROSS SEEDS / optimizer objects: the law of the first, second, third configuration a user receives from
    Optimizer.ask / CBO.ask (initial phase, duplicate filter on as by default) and RandomSearch.ask on a small
    all-discrete problem whose configurations are all among the n_points candidates - per hyperparameter (every value
    occurs, chi-square against the law) and jointly."""
    import random

    rng = random.Random(seed)
    make, hps, child = discrete_problem(seed, conditional)
    K = 3
    shape = rng.choice([[None, None, None], [None, 2], [3], [2, None], [1, None, 1]])
    sm = rng.choice(["DUMMY", "RF", "ET", "GP"])
    n_points = rng.choice([256, 256, 512])
    base = rng.randrange(0, 2 ** 20)
    base_case = {"kind": "proposal-law", "seed": seed, "n_seeds": n_seeds, "conditional": conditional, "surrogate": sm, "n_points": n_points,
                 "asks": shape, "hyperparameters": [{"name": h[0], "kind": h[1], "declaration": repr(h[2])} for h in hps],
                 "child": None if child is None else {"name": child[0], "parent": child[1], "active_when": repr(child[2]), "range": [child[3][0], child[3][-1]]}}
    o = Out(lambda: (lambda pb: (pb, list(pb.hyperparameter_names)))(make()))
    want = sorted([h[0] for h in hps] + ([child[0]] if child else []))
    if o.exc is not None or sorted(o.val[1]) != want:
        # the declarations are accepted ones (the structure cases judge that in detail): nothing to sample from here
        ck.fail("C10|declared-problem|HpProblem|all-discrete", "an all-discrete problem of accepted declarations cannot be built, or does not have the declared names",
                base_case, repr(o.exc or o.val[1])[:300])
        return
    problem0, names = o.val

    for api in apis:
        on_cs = conditional or api == "RandomSearch.ask"
        law1 = point_law(problem0, hps, child, on_cs)
        p = [q for _, q in law1]
        top = sorted(p, reverse=True)[:K + 1]
        if api != "RandomSearch.ask" and sum(top) > 0.95:
            ck.count("proposal-law:skipped-concentrated")
            continue
        if api == "RandomSearch.ask":
            laws = [p] * K  # no duplicate filter: independent draws
        else:
            # the factor of the proved law, from the Lean definition for the histories of length <= 1, cross-checked
            # (exact rationals of small denominator next to the masses of the single configurations)
            qs = sorted({Fraction(0)} | {Fraction(q).limit_denominator(500) for q in p})
            rep = d.ask({"op": "geom", "qs": ["%d/%d" % (q.numerator, q.denominator) for q in qs], "T": "1/1", "n": n_points})
            for q, x in zip(qs, rep["g"]):
                if abs(float(unrat(x)) - (1.0 - float(q) ** n_points) / (1.0 - float(q))) > 1e-9:
                    raise common.HarnessError("geom (Lean) and its closed form differ")
            ck.count("lean-geom")
            laws = successive_laws(p, K, n_points)
        path = api + ":across-seeds"
        case = {**base_case, "path": path}
        per_pos = [[] for _ in range(K)]
        err = None
        seeds = [base + i for i in range(n_seeds)]
        chunks = [seeds[i:i + 40] for i in range(0, n_seeds, 40)]
        jobs = [(seed, conditional, api, sm, n_points, shape, ch, K) for ch in chunks]
        try:
            results = list(pool.map(_proposal_rows, jobs)) if pool is not None else [_proposal_rows(j) for j in jobs]
        except Exception as e:  # noqa: BLE001 - a broken pool / unpicklable result is the machinery's trouble, not a finding
            raise common.HarnessError("proposal-law workers: %r" % e)
        short = None
        for res in results:
            for s_, status, val in res:
                if status == "err" and err is None:
                    err = val
                elif status == "short" and short is None:
                    short = (s_, val)
                elif status == "ok":
                    for k in range(K):
                        per_pos[k].append(val[k])
        if short is not None and err is None:
            ck.fail(f"C10|too-few|{path}|all-discrete", "fewer configurations than asked for although the space is not exhausted",
                    {**case, "generator_seed": short[0]}, {"got": repr(short[1])[:300]})
            continue
        if err is not None:
            if err[0] == "KeyError" and api != "Optimizer.ask":
                ck.fail(f"C10|names|{api}|keys", "a configuration does not have exactly the problem's hyperparameters", case, err[1])
            else:
                ck.fail(f"C10|raises:{err[0]}|{path}|all-discrete", f"{api} raises in the initial phase on an accepted all-discrete problem", case, err[1])
            continue
        if len(per_pos[K - 1]) < n_seeds:
            continue
        ck.count("proposal-law:" + path + (":configspace" if conditional else ":flat"))
        ck.case(case)
        check_points_by_name(ck, case, problem0, [r for k in range(K) for r in per_pos[k][:60]], "Space.rvs:configspace" if on_cs else "Space.rvs:flat")
        for k in range(K):
            rows = per_pos[k]
            pos_case = {**case, "position": k + 1}
            law = laws[k]
            tot = sum(law)
            law = [x / tot for x in law]
            # jointly: every configuration handed out is a point of the support ...
            observed = [json.dumps([loose_tag(v, on_cs) for v in r], sort_keys=True) for r in rows]
            loose_keys = [json.dumps([loose_tag(v, on_cs) for v in row], sort_keys=True) for row, _ in law1]
            outside = [r for r, o_ in zip(rows, observed) if o_ not in set(loose_keys)]
            if outside:
                ck.fail(f"C10|support|{path}|configuration", "a configuration handed out is not a point of the declared support "
                        "(an inactive hyperparameter has its own lower bound)", pos_case, {"configuration": repr(outside[0])[:300]})
                break
            # ... and when every configuration is expected often enough, the joint frequencies follow the law
            if min(law) * len(rows) >= 25:
                judge_column(ck, path, {"kind": "cat", "choices": loose_keys, "probs": law, "sig": "configuration"}, observed, pos_case)
            # per hyperparameter: every value occurs, frequencies follow the marginal of the law
            for j, nm in enumerate(names):
                vals, marg, seen = [], [], {}
                for (row, _), q in zip(law1, law):
                    t = json.dumps(tag(row[j]), sort_keys=True)
                    if t in seen:
                        marg[seen[t]] += q
                    else:
                        seen[t] = len(vals)
                        vals.append(row[j])
                        marg.append(q)
                sig = next((h[1] for h in hps if h[0] == nm), "int/uniform,conditional")
                judge_column(ck, path, {"kind": "cat", "choices": vals, "probs": marg, "sig": sig, "loose_numeric": on_cs},
                             [r[j] for r in rows], {**pos_case, "hyperparameter": nm})


def _worker_init(repo):
    """a spawned worker (a fresh interpreter: nothing of the parent's threads or locks): the real code of the tree under test"""
    import warnings

    os.environ["VERIF_REPO"] = repo
    for k in ("OMP_NUM_THREADS", "OPENBLAS_NUM_THREADS", "MKL_NUM_THREADS"):
        os.environ[k] = "1"
    common.use_repo_sources()
    warnings.filterwarnings("ignore")
    import deephyper.hpo  # noqa: F401
    import deephyper.skopt  # noqa: F401


def _noop(_=None):
    return os.getpid()


def make_pool(workers):
    """the seeds of a proposal-law case are independent optimizer objects: spread over a few worker processes, started now
    so that they import the real code while the other cases run"""
    import concurrent.futures as cf
    import multiprocessing

    pool = cf.ProcessPoolExecutor(max_workers=workers, mp_context=multiprocessing.get_context("spawn"),
                                  initializer=_worker_init, initargs=(str(common.REPO),))
    for _ in range(workers):
        pool.submit(_noop)
    return pool


def _proposal_rows(job):
    """worker: for every generator seed a NEW problem / space / optimizer object, the history of initial-phase asks,
    the first K configurations handed out (rows in the order of problem.hyperparameter_names)"""
    import warnings

    from deephyper.hpo._problem import convert_to_skopt_space
    from deephyper.skopt import Optimizer

    warnings.filterwarnings("ignore")
    pseed, conditional, api, sm, n_points, shape, seeds, K = job
    make, hps, child = discrete_problem(pseed, conditional)
    out = []
    tmp = tempfile.mkdtemp(prefix="c10_")
    try:
        for s in seeds:
            o = Out(lambda: (lambda pb: (pb, list(pb.hyperparameter_names)))(make()))
            if o.exc is not None:
                out.append((s, "err", (err_kind(o.exc), repr(o.exc)[:300])))
                break
            problem, names = o.val

            def history(ask):
                rows = []
                for nreq in shape:
                    rows.extend(ask(nreq))
                return rows[:K]

            if api == "Optimizer.ask":
                def run_one():
                    sp = convert_to_skopt_space(problem.space, surrogate_model=sm)
                    opt = Optimizer(sp, base_estimator=sm, n_initial_points=10 ** 9, random_state=s, acq_optimizer_kwargs={"n_points": n_points})
                    return [list(r) for r in history(lambda nreq: [opt.ask()] if nreq is None else opt.ask(n_points=nreq))]
            elif api == "CBO.ask":
                def run_one():
                    from deephyper.hpo import CBO

                    search = CBO(problem, _zero, random_state=s, log_dir=tmp, surrogate_model=sm, n_points=n_points, verbose=0)
                    search._setup_optimizer()  # what CBO.search() does first
                    return [[c[nm] for nm in names] for c in history(lambda nreq: search.ask(nreq or 1))]
            else:
                def run_one():
                    from deephyper.hpo import RandomSearch

                    search = RandomSearch(problem, _zero, random_state=s, log_dir=tmp, verbose=0)
                    return [[c[nm] for nm in names] for c in history(lambda nreq: search.ask(nreq or 1))]
            o = Out(run_one)
            if o.exc is not None:
                out.append((s, "err", (err_kind(o.exc), repr(o.exc)[:300])))
                break
            if len(o.val) < K:
                out.append((s, "short", o.val))
                break
            out.append((s, "ok", o.val))
    finally:
        shutil.rmtree(tmp, ignore_errors=True)
    return out


def loose_tag(v, on_cs):
    """on ConfigSpace's own paths a numeric ordinal value comes back NumPy-coerced (1 -> 1.0): compared numerically there"""
    t = tag(v)
    if on_cs and t["t"] in ("i", "f"):
        return {"t": "num", "v": str(unrat(t["v"]) if t["t"] == "f" else Fraction(t["v"]))}
    return t


def handout_case(ck, d, seed):
    """ONE optimizer (Optimizer / CBO), a history of initial-phase asks (ask(), ask(n), tells in between): the rows each
    ask hands out against the model (`askMany`: the first candidates, in DRAWING order, that were not handed out before;
    the candidates unfiltered when nothing is new or the filter is off), given the candidates the real `Space.rvs` drew"""
    import random

    from deephyper.hpo._problem import convert_to_skopt_space
    from deephyper.skopt import Optimizer

    rng = random.Random(seed)
    kind = rng.choice(["discrete", "discrete", "discrete-conditional", "mixed"])
    if kind == "mixed":
        o = Out(lambda: law_problem(random.Random(seed), weighted=True)[0])
    else:
        make, hps, child = discrete_problem(seed, kind == "discrete-conditional")
        o = Out(make)
    if o.exc is not None:
        ck.fail("C10|declared-problem|HpProblem|" + kind, "a problem of accepted declarations cannot be built", {"kind": "handout", "seed": seed}, repr(o.exc)[:300])
        return
    problem = o.val
    names = list(problem.hyperparameter_names)
    on = rng.random() < 0.8
    explicit = (not on) or rng.random() < 0.5
    n_points = rng.choice([2, 4, 8, 16, 64])
    sm = rng.choice(["DUMMY", "RF", "ET", "GP"])
    api = rng.choice(["Optimizer", "Optimizer", "CBO"])
    shape = [rng.choice([None, None, 1, 2, 3, 5]) for _ in range(rng.choice([2, 3, 5, 8]))]
    tells = [rng.random() < 0.25 for _ in shape]
    case = {"kind": "handout", "seed": seed, "problem": kind, "api": api, "surrogate": sm, "n_points": n_points, "filter_duplicated": on,
            "asks": shape, "hyperparameters": names}
    ck.case(case)
    ck.count("handout:%s:%s:filter=%s" % (api, kind, on))
    tmp = tempfile.mkdtemp(prefix="c10_")
    try:
        with RvsSpy() as spy:
            if api == "Optimizer":
                kw = {"n_points": n_points}
                if explicit:
                    kw["filter_duplicated"] = on
                o = Out(lambda: Optimizer(convert_to_skopt_space(problem.space, surrogate_model=sm), base_estimator=sm, n_initial_points=10 ** 9,
                                          random_state=seed, acq_optimizer_kwargs=kw))
            else:
                from deephyper.hpo import CBO

                kw = {"filter_duplicated": on} if explicit else {}

                def build():
                    search = CBO(problem, _zero, random_state=seed, log_dir=tmp, surrogate_model=sm, n_points=n_points, n_initial_points=10 ** 6, verbose=0, **kw)
                    search._setup_optimizer()  # what CBO.search() does first
                    return search
                o = Out(build)
            if o.exc is not None:
                ck.fail(f"C10|raises:{err_kind(o.exc)}|{api}|construct", "the optimizer cannot be built on an accepted problem", case, repr(o.exc)[:300])
                return
            obj = o.val
            spy.take()
            asks, real = [], []
            for nreq, tl in zip(shape, tells):
                if api == "Optimizer":
                    r = Out(lambda: [obj.ask()] if nreq is None else obj.ask(n_points=nreq))
                else:
                    r = Out(lambda: [[c[nm] for nm in names] for c in obj.ask(nreq or 1)])
                draws = spy.take()
                if r.exc is not None:
                    real.append({"err": err_kind(r.exc)})
                    asks.append({"cands": draws[0] if draws else [], "n": nreq})
                    break
                if len(draws) != 1:
                    ck.mismatch(case, {"what": "an initial-phase ask draws exactly one list of candidates (Space.rvs) in the model", "impl_draws": len(draws)})
                    return
                ck.count("handout:candidates-all-seen" if all(any(tagrow(c) == tagrow(x) for x in [y for q in real for y in q.get("rows", [])]) for c in draws[0]) else "handout:some-new")
                if not isinstance(r.val, list) or not all(isinstance(x, (list, tuple)) for x in r.val):
                    ck.fail(f"C10|support-by-name|{api}.ask|row-shape", "ask does not return a list of points", case, repr(r.val)[:300])
                    return
                asks.append({"cands": draws[0], "n": nreq})
                real.append({"rows": [list(x) for x in r.val]})
                if tl and api == "Optimizer" and r.val:
                    t = Out(lambda: obj.tell(list(r.val[0]), float(rng.random())))
                    if t.exc is not None:
                        ck.count("handout:tell-raises:" + err_kind(t.exc))
                    if spy.take():
                        ck.mismatch(case, {"what": "tell in the initial phase draws candidates"})
                        return
    finally:
        shutil.rmtree(tmp, ignore_errors=True)
    rep = d.ask({"op": "handout", "on": on, "sampled": [],
                 "asks": [{"cands": [tagrow(c) for c in a["cands"]], "n": a["n"]} for a in asks]})
    model = rep["out"]
    impl = [{"err": x["err"]} if "err" in x else {"rows": [tagrow(r) for r in x["rows"]]} for x in real]
    if impl != model:
        k = next((i for i, (a, b) in enumerate(zip(impl, model)) if a != b), min(len(impl), len(model)))
        ck.mismatch(case, {"what": "the rows handed out by ask #%d differ from the model (first candidates in drawing order that were not handed out before)" % (k + 1),
                           "impl": impl[k] if k < len(impl) else None, "model": model[k] if k < len(model) else None,
                           "candidates": [repr(c) for c in asks[k]["cands"][:12]] if k < len(asks) else None})
    rows = [r for x in real for r in x.get("rows", [])]
    if rows:
        check_points_by_name(ck, case, problem, rows, "Space.rvs:configspace" if problem.space.conditions else "Space.rvs:flat")


def tagrow(r):
    return [tag(v) for v in r]


def rvs_history_case(ck, seed):
    """ONE converted Space object: seeded Space.rvs must not depend on earlier calls (seeded or not) nor on
    set_transformer switches that were undone, and after a switch it must equal a fresh space built with that
    transformer; every sample a member"""
    import random

    from deephyper.hpo._problem import convert_to_skopt_space
    from deephyper.skopt.space import Categorical, Integer, Real, Space

    rng = random.Random(seed)
    problem, descs = law_problem(rng)
    surrogate = rng.choice(["RF", "GP"])
    sp = convert_to_skopt_space(problem.space, surrogate_model=surrogate)
    n = 200
    case = {"kind": "rvs-history", "seed": seed, "surrogate": surrogate}
    ck.case(case)

    def fresh(transforms):
        dims = []
        for dm, t in zip(convert_to_skopt_space(problem.space, surrogate_model=surrogate).dimensions, transforms):
            if isinstance(dm, Categorical):
                dims.append(Categorical(dm.categories, prior=dm.prior, transform=t, name=dm.name))
            else:
                dims.append(type(dm)(dm.low, dm.high, prior=dm.prior, transform=t, name=dm.name))
        return Space(dims)

    def draw(space):
        o = Out(lambda: space.rvs(n, random_state=seed))
        return ("raises " + err_kind(o.exc)) if o.exc is not None else [[tag(v) for v in row] for row in o.val]

    def fail(clause, what, detail=None):
        ck.fail(f"C10|reuse-independent|Space.rvs|{clause}", what, case, detail)

    initial = sp.get_transformer()
    r0 = draw(sp)
    if r0 != draw(fresh(initial)):
        fail("fresh", "two spaces converted from the same problem sample differently with the same seed")
    Out(lambda: sp.rvs(rng.choice([1, 5])))  # an unseeded call in between
    if draw(sp) != r0:
        fail("repeat", "a seeded Space.rvs depends on earlier calls")
    steps = rng.choice([1, 2, 3])
    for _ in range(steps):
        kind = rng.choice(["normalize", "list", "dim"])
        trs = sp.get_transformer()
        if kind == "normalize":
            trs = ["normalize"] * len(trs)
            sp.set_transformer("normalize")
        elif kind == "list":
            trs = [rng.choice(["normalize", t]) for t in initial]
            sp.set_transformer(list(trs))
        else:
            j = rng.randrange(len(trs))
            trs[j] = "normalize" if trs[j] != "normalize" else initial[j]
            sp.dimensions[j].set_transformer(trs[j])
        ck.count("rvs-history:" + kind)
        got = draw(sp)
        want = draw(fresh(trs))
        if got != want:
            fail("switch:" + kind, "after set_transformer a seeded Space.rvs differs from a fresh space with these transformers",
                 {"transforms": trs})
        if isinstance(got, list):
            names = sp.dimension_names
            for row in got[:50]:
                for nm, tv in zip(names, row):
                    dsc = descs[nm]
                    v = untag(tv)
                    ok = (tv in [tag(c) for c in dsc["choices"]]) if dsc["kind"] == "cat" else dsc["lo"] <= v <= dsc["hi"]
                    if not ok:
                        fail("support", "a sample drawn after a set_transformer switch is not a member", {"name": nm, "value": tv})
                        break
    sp.set_transformer(list(initial))
    if draw(sp) != r0:
        fail("restore", "after restoring the saved transformers a seeded Space.rvs differs from the first call")


def cs_int_log_case(ck, d, rng):
    """ConfigSpace's UniformIntegerHyperparameter(log=True).sample_value under a scripted stream vs its model csIntLogSample
    (the function C10_int_log_configspace_law is about)"""
    import ConfigSpace.hyperparameters as csh

    lo = rng.choice([1, 1, 2, 3, 8, 10, 100])
    hi = lo + rng.choice([1, 2, 3, 7, 14, 63, 1000, 10 ** 5])
    m = rng.choice([1, 4, 16])
    us = [rng.choice([0.0, float(np.nextafter(1.0, 0.0)), 0.5]) if rng.random() < 0.15 else rng.random() for _ in range(m)]
    hp = csh.UniformIntegerHyperparameter("q", lo, hi, log=True)
    out = Out(lambda: hp.sample_value(m, seed=scripted_state(us)))
    case = {"kind": "configspace-int-log", "lo": lo, "hi": hi, "us": us}
    ck.case(case)
    ck.count("cs-int-log")
    if out.exc is not None:
        raise common.HarnessError("ConfigSpace sample_value under the scripted stream: %r" % out.exc)
    llo, lhi = float(np.log(lo)), float(np.log(hi))
    keys = np.asarray(us, dtype=float) * (lhi - llo) + llo
    rep = d.ask({"op": "cs_int_log", "lo": lo, "hi": hi, "us": [rat(u) for u in us],
                 "L": [[rat(lo), rat(llo)], [rat(hi), rat(lhi)]],
                 "E": [[rat(float(k)), rat(float(v))] for k, v in zip(keys, np.exp(keys))]})
    real = [int(v) for v in np.asarray(out.val).tolist()]
    if real != rep["vals"]:
        # a draw within float rounding of a bin edge may fall on either side
        w = (hi - lo) / (hi - lo + 1)
        edge = any(abs(((float(np.exp(k)) - lo) / w) % 1.0 - 0.5) > 0.5 - 1e-9 for k in keys)
        if not (edge and all(abs(a - b) <= 1 for a, b in zip(real, rep["vals"]))):
            ck.mismatch(case, {"what": "ConfigSpace integer log-uniform sampler vs its model (csIntLogSample)", "impl": real, "model": rep["vals"]})


def njobs_case(ck, seed):
    """flat path with n_jobs in {1, 2, 4}: Space.rvs, Optimizer.ask (initial phase) and CBO.ask must give, for the same seed,
    the design n_jobs=1 gives (that is what the code does: one child stream per dimension, shared-memory workers), all
    points legal by name"""
    import random

    from deephyper.hpo._problem import convert_to_skopt_space
    from deephyper.skopt import Optimizer

    problem, descs = law_problem(random.Random(seed))
    base_case = {"kind": "n_jobs", "seed": seed}
    ck.case(base_case)
    n = 120
    ref = None
    for nj in (1, 2, 4):
        sp = convert_to_skopt_space(problem.space, surrogate_model="RF")
        o = Out(lambda: sp.rvs(n, random_state=seed, n_jobs=nj))
        ck.count("n_jobs:Space.rvs:%d" % nj)
        if o.exc is not None:
            ck.fail(f"C10|raises:{err_kind(o.exc)}|Space.rvs:flat|n_jobs={nj}", "Space.rvs raises", {**base_case, "n_jobs": nj}, repr(o.exc))
            continue
        check_points_by_name(ck, {**base_case, "n_jobs": nj, "path": "Space.rvs:flat"}, problem, o.val, "Space.rvs:flat")
        rows = [[tag(v) for v in r] for r in o.val]
        if nj == 1:
            ref = rows
        elif rows != ref:
            ck.fail(f"C10|n_jobs-independent|Space.rvs:flat|n_jobs>1", "Space.rvs with n_jobs > 1 does not return the design of n_jobs=1 for the same seed",
                    {**base_case, "n_jobs": nj}, {"n_jobs=1": repr(ref[:2])[:300], f"n_jobs={nj}": repr(rows[:2])[:300]})
    ref = None
    for nj in (1, 2):
        sp = convert_to_skopt_space(problem.space, surrogate_model="RF")
        o = Out(lambda: Optimizer(sp, base_estimator="RF", n_initial_points=10 ** 9, random_state=seed,
                                  acq_optimizer_kwargs={"n_points": 40, "filter_duplicated": False, "n_jobs": nj}))
        if o.exc is not None:
            ck.count("n_jobs:Optimizer-unavailable:" + type(o.exc).__name__)
            break
        pts = Out(lambda: [o.val.ask() for _ in range(3)] + o.val.ask(n_points=20))
        ck.count("n_jobs:Optimizer.ask:%d" % nj)
        if pts.exc is not None:
            ck.fail(f"C10|raises:{err_kind(pts.exc)}|Optimizer.ask:RF|n_jobs={nj}", "Optimizer.ask raises", {**base_case, "n_jobs": nj}, repr(pts.exc))
            continue
        check_points_by_name(ck, {**base_case, "n_jobs": nj, "path": "Optimizer.ask:RF"}, problem, pts.val, "Space.rvs:flat")
        rows = [[tag(v) for v in r] for r in pts.val]
        if nj == 1:
            ref = rows
        elif rows != ref:
            ck.fail("C10|n_jobs-independent|Optimizer.ask:RF|n_jobs>1", "Optimizer.ask with n_jobs > 1 does not return the points of n_jobs=1 for the same seed",
                    {**base_case, "n_jobs": nj}, {"n_jobs=1": repr(ref[:2])[:300], f"n_jobs={nj}": repr(rows[:2])[:300]})
    tmp = tempfile.mkdtemp(prefix="c10_")
    try:
        from deephyper.hpo import CBO

        names = list(problem.hyperparameter_names)
        ref = None
        for nj in (1, 2):
            seen = []

            def run(job):  # what CBO hands to the evaluator: the configurations of its initial design, as Python objects
                seen.append(dict(job.parameters))
                return 0.0

            o = Out(lambda: CBO(problem, run, random_state=seed, log_dir=os.path.join(tmp, "nj%d" % nj), surrogate_model="RF", n_jobs=nj, n_points=40,
                                n_initial_points=40, verbose=0).search(max_evals=12))
            ck.count("n_jobs:CBO.search:%d" % nj)
            if o.exc is not None:
                ck.count("n_jobs:CBO-unavailable:" + type(o.exc).__name__)
                break
            if any(sorted(c) != sorted(names) for c in seen):
                ck.fail("C10|names|CBO.search|keys", "a configuration handed to the evaluator does not have exactly the problem's hyperparameters",
                        {**base_case, "n_jobs": nj}, {"keys": sorted(seen[0]) if seen else None})
                continue
            check_points_by_name(ck, {**base_case, "n_jobs": nj, "path": "CBO.search"}, problem, [[c[nm] for nm in names] for c in seen], "Space.rvs:flat")
            rows = [[tag(c[nm]) for nm in names] for c in seen]
            if nj == 1:
                ref = rows
            elif rows != ref:
                ck.fail("C10|n_jobs-independent|CBO.search|n_jobs>1", "CBO with n_jobs > 1 does not evaluate the initial design of n_jobs=1 for the same seed",
                        {**base_case, "n_jobs": nj}, {"n_jobs=1": repr(ref[:2])[:300], f"n_jobs={nj}": repr(rows[:2])[:300]})
    finally:
        shutil.rmtree(tmp, ignore_errors=True)


def corpus_cases():
    dd = common.VERIF / "corpus" / "C10"
    for f in sorted(dd.glob("*.json")):
        data = json.loads(f.read_text())
        yield f.name, data.get("case", data)


def run_corpus_case(ck, d, case):
    """corpus entries: {"kind":"normalized-law","dim":spec,"n":…,"seed":…} or {"kind":"weights",…}"""
    from deephyper.skopt.space import Space

    if case.get("kind") == "normalized-law":
        s = case["dim"]
        dim = mk_dim(s)
        rows = Space([dim]).rvs(case["n"], random_state=np.random.RandomState(case["seed"]))
        if s["k"] == "cat":
            desc = {"kind": "cat", "choices": s["cats"], "probs": [1.0 / len(s["cats"])] * len(s["cats"]), "sig": "cat/normalize"}
        else:
            desc = {"kind": "int", "lo": s["lo"], "hi": s["hi"], "log": False, "law": None, "sig": "int/uniform/normalize"}
        judge_column(ck, "Space.rvs:flat", desc, [r[0] for r in rows], case)
        ck.case(case)
    elif case.get("kind") == "declared-problem":
        # an explicit problem: order of the converted space, every sampled point by name (value and type), over many
        # small calls sharing one random state (successive batches differ)
        import ConfigSpace as cs
        from deephyper.hpo import HpProblem
        from deephyper.hpo._problem import convert_to_skopt_space

        problem = HpProblem()
        for h in case["hps"]:
            v = h["value"]
            problem.add_hyperparameter(tuple(v["tuple"]) if isinstance(v, dict) else v, h["name"])
        for c in case.get("conditions", []):
            problem.add_condition(cs.EqualsCondition(problem.space[c["child"]], problem.space[c["parent"]], c["value"]))
        ck.case(case)
        for sm in ("RF", "GP"):
            sp = convert_to_skopt_space(problem.space, surrogate_model=sm)
            path = "Space.rvs:configspace" if sp.config_space is not None else "Space.rvs:flat"
            check_dimension_order(ck, problem, sp, case)
            if sp.config_space is not None:
                sp.config_space.seed(case["seed"])
            rs = np.random.RandomState(case["seed"])
            batches = [sp.rvs(5, random_state=rs) for _ in range(case.get("calls", 40))]
            if any(repr(a) == repr(b) for a, b in zip(batches, batches[1:])):
                ck.fail(f"C10|batches-identical|{path}|shared-random-state", "successive calls sharing one random state return identical batches", case)
            check_points_by_name(ck, case, problem, [r for b in batches for r in b], path)
    elif case.get("kind") == "weights":
        import ConfigSpace as cs
        import ConfigSpace.hyperparameters as csh
        from deephyper.hpo._problem import convert_to_skopt_space

        space = cs.ConfigurationSpace()
        space.add(csh.CategoricalHyperparameter("c", case["choices"], weights=case["weights"]))
        sp = convert_to_skopt_space(space, "RF")
        rows = sp.rvs(case["n"], random_state=np.random.RandomState(case["seed"]))
        tot = sum(case["weights"])
        judge_column(ck, "Space.rvs:flat", {"kind": "cat", "choices": case["choices"], "probs": [w / tot for w in case["weights"]], "sig": "cat,weights"},
                     [r[0] for r in rows], case)
        ck.case(case)


def run(ck):
    ck.rule = ("declaration sequences (tuples int/float x uniform/log-uniform, mixed, lists str/bool/int/float/mixed, constants, "
               "ConfigSpace objects incl. weighted categoricals; duplicate names, malformed shorthands) x surrogate family; "
               "samplers of generated dimensions (every kind x transform, categorical priors; half of them after 1-3 set_transformer "
               "switches on the same object) under scripted streams; seeded Space.rvs on one object across repeated calls and "
               "set_transformer switches vs fresh objects; "
               "law problems with every hyperparameter kind x 5 sampling paths (incl. CBO.ask) x seeds, N samples per path; "
               "histories of ask() / ask(n) / tell on one Optimizer / CBO object (all-discrete, conditional, mixed problems; duplicate filter "
               "default / off; 2..64 candidates) vs the model of the hand-out stage on the observed candidate lists; "
               "small all-discrete problems (5..24 configurations, all among the candidates) x Optimizer.ask / CBO.ask / RandomSearch.ask x "
               "hundreds of seeds (one new optimizer object each): law of the 1st, 2nd, 3rd configuration handed out; "
               "non-trivial = at least one accepted declaration / any sampler or law case")
    ck.assumptions = [
        "NumPy / SciPy generators are uniform (the draws are scripted in L2 and judged statistically in L3)",
        "ConfigSpace's own samplers (ConfigSpace path, RandomSearch) are judged against ConfigSpace's law (integer log-uniform: "
        "exp(U[ln lo, ln hi]) quantized into hi-lo+1 equal bins), not against the flat path's",
        "statistical thresholds at p < 1e-9 with fixed seeds: a correct sampler fails with probability < 1e-9 per statistic, deterministically reproducible",
        "ConfigSpace constructor contracts (illegal bounds, duplicates, ordering by name / topological with conditions) are modelled as observed",
        "across-seeds law of the k-th configuration handed out: successive sampling from the prior restricted to the configurations not handed "
        "out before (C10_first_proposal_law); the event that the n_points >= 256 candidates contain fewer than 3 new configurations is ignored (< 0.95^256)",
    ]
    ck.trusted_extra = ["SciPy/NumPy random generators", "ConfigSpace 1.2 constructors and samplers", "the Space.rvs observation shim",
                        "CBO._setup_optimizer() called directly by the harness", "pandas duplicated / merge (row equality)"]
    rng = ck.rng
    n = ck.pick(15000, 60000)
    pool = make_pool(ck.pick(6, 12))
    try:
        _run(ck, rng, n, pool)
    finally:
        pool.shutdown(wait=False, cancel_futures=True)


def _run(ck, rng, n, pool):
    with ck.driver() as d:
        _DRIVER[0] = d
        _CELLS.clear()
        for name, case in corpus_cases():
            ck.count("corpus")
            run_corpus_case(ck, d, case)
        for _ in range(ck.pick(150, 1500)):
            cs_int_log_case(ck, d, rng)
        for _ in range(ck.pick(300, 3000)):
            structure_case(ck, d, rng.randint(0, 2 ** 30))
        for _ in range(ck.pick(150, 1200)):
            malformed_case(ck, d, rng)
        for _ in range(ck.pick(500, 6000)):
            sampler_case(ck, d, rng)
        for _ in range(ck.pick(25, 200)):
            rvs_history_case(ck, rng.randint(0, 2 ** 20))
        for _ in range(ck.pick(2, 12)):
            njobs_case(ck, rng.randint(0, 2 ** 20))
        for _ in range(ck.pick(2, 7)):
            law_case(ck, d, rng.randint(0, 2 ** 20), n)
        for _ in range(ck.pick(1, 3)):
            small_calls_case(ck, rng.randint(0, 2 ** 20), ck.pick(300, 800))
        for _ in range(ck.pick(50, 200)):
            handout_case(ck, d, rng.randint(0, 2 ** 30))
        for i in range(ck.pick(2, 4)):
            proposal_law_case(ck, d, rng.randint(0, 2 ** 30), ck.pick(300, 1000), conditional=i % 2 == 1, pool=pool)


def replay(ck, case):
    with ck.driver() as d:
        _DRIVER[0] = d
        _CELLS.clear()
        if case.get("kind") in ("normalized-law", "weights", "declared-problem"):
            run_corpus_case(ck, d, case)
        elif case.get("kind") == "rvs-history":
            rvs_history_case(ck, case["seed"])
        elif case.get("kind") == "n_jobs":
            njobs_case(ck, case["seed"])
        elif case.get("kind") == "small-calls":
            small_calls_case(ck, case["seed"], case.get("calls", 400))
        elif case.get("kind") == "handout":
            handout_case(ck, d, case["seed"])
        elif case.get("kind") == "proposal-law":
            pool = make_pool(6)
            try:
                proposal_law_case(ck, d, case["seed"], case.get("n_seeds", 400), case.get("conditional", False),
                                  apis=(case["path"].split(":")[0],) if "path" in case else ("Optimizer.ask", "CBO.ask", "RandomSearch.ask"), pool=pool)
            finally:
                pool.shutdown(wait=False, cancel_futures=True)
        elif case.get("kind") == "structure" and "seed" in case:
            structure_case(ck, d, case["seed"])
        elif case.get("kind") == "law" or "hyperparameter" in case:
            law_case(ck, d, case.get("seed", 0), case.get("n", 20000))
        elif "hp" in case:
            # a conversion failure: rebuild the hyperparameter and convert it
            import ConfigSpace as cs
            import ConfigSpace.hyperparameters as csh
            from deephyper.hpo._problem import convert_to_skopt_space

            h = case["hp"]
            if h["k"] == "cat":
                hp = csh.CategoricalHyperparameter(h["name"], [untag(c) for c in h["choices"]],
                                                   weights=None if h["weights"] is None else [float(unrat(w)) for w in h["weights"]])
                space = cs.ConfigurationSpace()
                space.add(hp)
                sp = convert_to_skopt_space(space, case.get("surrogate"))
                dm = sp.dimensions[0]
                print("replay:", repr(dm), "prior_", getattr(dm, "prior_", None))
                ck.case(case)
                if hp.weights is not None and (dm.prior is None or not np.allclose(dm.prior_, hp.probabilities)):
                    ck.fail("C10|convert-prior|convert_to_skopt_dim|categorical,weights", "the converted dimension does not keep the declared prior", case)
