"""C07 translator: Python `ast` scan of the search stack -> Lean table of random-draw / hidden-input sites.

    scan(src_root) -> Scan        (src_root = $VERIF_REPO/src)
    render_lean(scan) -> str      (text of lean/Generated/C07Sites.lean)

What is scanned: the anchor files of C07 plus everything they (transitively) import from `deephyper`
(absolute and relative imports, function-local imports, the `__init__.py` of every package on the way).

What is a site (one row per syntactic occurrence):

  kind              pattern                                                       stream
  ----------------  ------------------------------------------------------------  -------------
  np-global         np.random.<f>(...) / numpy.random.<f>(...)                    numpyGlobal
  np-seed-write     np.random.seed(...)                                           numpyGlobal
  rng-ctor          RandomState(x) / default_rng(x) / random.Random(x), x given   seeded
  rng-ctor-noseed   RandomState() / default_rng() / random.Random(), or a seed     osEntropy
                    expression with a None branch (`seed or None`)
  py-global         random.<f>(...) with `random` the stdlib module               pythonGlobal
  rvs-unseeded      <expr>.rvs(...) without random_state                          scipyGlobal
  rvs-seeded        <expr>.rvs(..., random_state=<expr>)                          seeded
                    (also gaussian_kde's <expr>.resample(n[, seed]): rvs-unseeded / rvs-seeded)
  crs-none          check_random_state(None) / check_random_state()               numpyGlobal
  crs               check_random_state(<expr>)                                    seeded
  rng-param-omitted call of a scanned function/method that HAS a random_state /   numpyGlobal
                    rng parameter without passing it
  rng-param-kwargs  same, but the call has *args / **kwargs (cannot be verified)  numpyGlobal
  rng-func-ref      a scanned function that has an RNG parameter is passed as a    numpyGlobal
                    value (e.g. to fmin_l_bfgs_b): the argument cannot be verified
  ext-param-omitted a THIRD-PARTY callable that has a `random_state` parameter      numpyGlobal
                    (scikit-learn estimators / transformers / utilities, imported by name in the
                    file) is called without it: its default None = NumPy's global generator
  ext-param         same, `random_state=<expr>` given                             seeded
  rng-method        <rng>.randint/rand/choice/... on an explicit generator object seeded
  seed-call         <expr>.seed(<expr>)  (ConfigSpace seeding)                    seeded
  seed-kw           f(..., seed=<expr>)  (a seed handed to an external library)   seeded
  hash              hash(<expr>)                                                  hashSeed
  set-order         for/list()/tuple()/next(iter())/enumerate()/join/pop over a   hashSeed
                    set-valued expression (set(...), {..}, set-comprehension,
                    a - b / a | b / a & b / a ^ b on sets or .keys(), the hand-listed
                    set-returning APIs, or a local name bound to one of those)
  owns-state /      Search.__init__: self._problem = copy.deepcopy(problem) present /   seeded /
  shared-state      absent (ConfigSpace's generator shared with other searches)         osEntropy
  class-cache /     a mutable object (dict / list / set / ...) bound at CLASS level or MODULE level — or   processState
  module-cache /    a mutable default argument, or an lru_cache / cache decorator — that a method / function
  default-arg-cache WRITES (item assignment, append / update / setdefault / ..., rebinding through cls / the
  / memo-cache      class name / `global`): state shared by every search of the interpreter, i.e. what an
                    EARLIER search leaves behind is an input of a later one unless the key contains the seed
  clock             time.time()/perf_counter()/monotonic()/strftime()/...,        clock
                    datetime.now()/utcnow()/today()
  entropy           os.urandom / uuid.uuid1/uuid4 / secrets.* / os.getpid / id()  osEntropy
  cpu-count         effective_n_jobs(..) / cpu_count() / os.cpu_count() /         osEntropy
                    os.sched_getaffinity(..) / os.process_cpu_count(): how many CPUs the
                    process may use is a property of the machine / container / affinity mask

A `random_state=<name>` whose <name> is a parameter of the enclosing function is seeded only if the
callers pass it: that is what `rng-param-omitted` checks at every call site inside the scanned files.

Reachability from the Search API options comes from REACH_RULES below (hand-maintained, first match
wins; the key is file/function/kind/text, never a line number).  Every rule carries a justification
that is copied into the table and the evidence; `guard` is a machine-checked side condition — if it
fails the rule does not apply and the site falls back to the default.  A site that no rule matches is
**reachable by every configuration** (`live []`).
"""
from __future__ import annotations

import ast
import fnmatch
import re
from dataclasses import dataclass, field
from pathlib import Path

ANCHORS = [
    "deephyper/hpo/_search.py",
    "deephyper/hpo/_cbo.py",
    "deephyper/hpo/_random.py",
    "deephyper/hpo/_regevo.py",
    "deephyper/skopt/optimizer/optimizer.py",
    "deephyper/skopt/space/space.py",
    "deephyper/skopt/acquisition.py",
    "deephyper/skopt/moo/_multiobjective.py",
]

STREAMS = ["seeded", "numpyGlobal", "pythonGlobal", "scipyGlobal", "osEntropy", "hashSeed", "clock", "processState"]
CACHE_KINDS = ("class-cache", "module-cache", "default-arg-cache", "memo-cache")
MUTABLE_CTORS = {"dict", "list", "set", "defaultdict", "OrderedDict", "deque", "Counter", "WeakValueDictionary", "WeakKeyDictionary"}
MUTATING_METHODS = {"append", "extend", "update", "setdefault", "add", "insert", "pop", "popitem", "clear", "remove", "discard",
                    "appendleft", "extendleft", "sort", "reverse", "__setitem__", "__delitem__"}
MEMO_DECORATORS = {"lru_cache", "cache", "cached", "memoize", "memoized"}

NP_RANDOM_FUNCS_SEEDWRITE = {"seed", "set_state"}
RNG_CTORS = {"RandomState", "default_rng", "Generator", "Random", "SystemRandom"}
RNG_METHODS = {
    "randint", "rand", "randn", "random", "random_sample", "ranf", "sample", "choice", "uniform", "normal",
    "standard_normal", "shuffle", "permutation", "multinomial", "exponential", "integers", "beta", "gamma",
    "binomial", "poisson", "lognormal", "triangular", "dirichlet", "get_state", "bytes", "randrange", "gauss",
    "tomaxint", "random_integers", "logistic", "laplace", "multivariate_normal",
}
RNG_PARAM_NAMES = ("random_state", "rng")
# third-party callables (imported by name from these packages) that take `random_state` and fall back to the global
# NumPy generator without it; hand list (the scan does not import the libraries)
EXT_PACKAGES = ("sklearn", "scipy", "skopt", "imblearn", "xgboost", "lightgbm")
EXT_RNG_CALLABLES = {
    "QuantileTransformer", "KBinsDiscretizer", "PowerTransformer", "SplineTransformer", "KMeans", "MiniBatchKMeans", "BisectingKMeans",
    "SpectralClustering", "PCA", "KernelPCA", "TruncatedSVD", "FastICA", "NMF", "FactorAnalysis", "SparsePCA", "TSNE", "MDS",
    "GaussianMixture", "BayesianGaussianMixture", "train_test_split", "resample", "shuffle", "ShuffleSplit", "StratifiedShuffleSplit",
    "KFold", "StratifiedKFold", "RepeatedKFold", "permutation_importance", "RandomForestRegressor", "RandomForestClassifier",
    "ExtraTreesRegressor", "ExtraTreesClassifier", "GradientBoostingRegressor", "GradientBoostingClassifier",
    "HistGradientBoostingRegressor", "HistGradientBoostingClassifier", "DecisionTreeRegressor", "DecisionTreeClassifier",
    "ExtraTreeRegressor", "BaggingRegressor", "AdaBoostRegressor", "IsolationForest", "GaussianProcessRegressor",
    "GaussianProcessClassifier", "MLPRegressor", "MLPClassifier", "SGDRegressor", "SGDClassifier", "Ridge", "Lasso", "ElasticNet",
    "LogisticRegression", "SVC", "LinearSVC", "RBFSampler", "Nystroem", "RandomizedSearchCV", "ParameterSampler",
    "make_regression", "make_classification", "make_blobs", "IterativeImputer", "KernelDensity.sample", "differential_evolution",
    "dual_annealing", "basinhopping", "shgo", "sample_without_replacement", "randomized_svd", "check_random_state_ext",
}
CLOCK_FUNCS = {"time", "time_ns", "perf_counter", "perf_counter_ns", "monotonic", "monotonic_ns", "strftime",
               "localtime", "gmtime", "ctime", "asctime", "process_time", "thread_time"}
DATETIME_FUNCS = {"now", "utcnow", "today"}
CPU_COUNT_FUNCS = {"cpu_count", "effective_n_jobs", "sched_getaffinity", "process_cpu_count"}
SET_RETURNING_APIS = {
    "get_active_hyperparameters", "union", "intersection", "difference", "symmetric_difference",
    "get_all_unconditional_hyperparameters", "get_all_conditional_hyperparameters",
}
SET_CONSUMERS = {"list", "tuple", "enumerate", "iter", "zip", "map", "filter", "array", "asarray", "Series",
                 "DataFrame", "deque", "OrderedDict", "dict", "next"}
# consumers whose result does not depend on iteration order
ORDER_FREE = {"sorted", "len", "set", "frozenset", "sum", "min", "max", "any", "all", "isinstance", "bool"}


@dataclass
class Site:
    file: str
    line: int
    col: int
    func: str
    kind: str
    text: str
    stream: str
    detail: str = ""
    reach: str = "live"          # live | unreachable | noFlow | outOfScope
    conds: list = field(default_factory=list)   # [(option, [values])] for live
    why: str = ""
    rule: str = ""

    @property
    def seeded(self):
        return self.stream == "seeded"

    def key(self):
        return (self.file, self.line, self.col, self.kind)


@dataclass
class Scan:
    root: str
    files: list
    sites: list
    rng_funcs: dict
    problems: list

    def live_unseeded(self):
        return [s for s in self.sites if s.reach == "live" and not s.seeded]


# --------------------------------------------------------------------------- import closure


def _module_file(src: Path, mod: str):
    p = src / mod.replace(".", "/")
    if (p / "__init__.py").exists():
        return p / "__init__.py"
    if p.with_suffix(".py").exists():
        return p.with_suffix(".py")
    return None


def _imports_of(src: Path, file: Path, tree):
    """deephyper modules imported (anywhere) in `file`, as files"""
    rel = file.relative_to(src).with_suffix("")
    parts = list(rel.parts)
    pkg = parts[:-1] if parts[-1] != "__init__" else parts[:-1]
    out = []

    def add(mod):
        if not mod or not mod.startswith("deephyper"):
            return
        # every package on the way is executed too
        bits = mod.split(".")
        for i in range(1, len(bits) + 1):
            f = _module_file(src, ".".join(bits[:i]))
            if f is not None:
                out.append(f)

    for node in ast.walk(tree):
        if isinstance(node, ast.Import):
            for a in node.names:
                add(a.name)
        elif isinstance(node, ast.ImportFrom):
            if node.level:
                base = pkg[: len(pkg) - (node.level - 1)] if node.level > 1 else pkg
                mod = ".".join(base + ([node.module] if node.module else []))
            else:
                mod = node.module or ""
            add(mod)
            for a in node.names:  # `from pkg import submodule`
                add(mod + "." + a.name)
    return out


def closure(src: Path):
    todo = [src / a for a in ANCHORS]
    seen, trees, problems = [], {}, []
    while todo:
        f = todo.pop()
        if f in trees:
            continue
        if not f.exists():
            problems.append(f"missing file {f}")
            continue
        try:
            tree = ast.parse(f.read_text(), filename=str(f))
        except SyntaxError as e:  # pragma: no cover
            problems.append(f"syntax error in {f}: {e}")
            continue
        trees[f] = tree
        seen.append(f)
        for g in _imports_of(src, f, tree):
            if g not in trees and "/tests/" not in str(g):
                todo.append(g)
    return trees, problems


# --------------------------------------------------------------------------- the visitor


def _txt(node, limit=90):
    try:
        s = ast.unparse(node)
    except Exception:  # pragma: no cover
        s = "<?>"
    s = " ".join(s.split())
    return s if len(s) <= limit else s[: limit - 3] + "..."


def _may_be_none(expr):
    """syntactic: the expression has a branch that is the constant None (`a or None`, `a and b or None`, `x if c else None`)"""
    if isinstance(expr, ast.Constant):
        return expr.value is None
    if isinstance(expr, ast.BoolOp):
        return any(_may_be_none(v) for v in expr.values) if isinstance(expr.op, ast.Or) else _may_be_none(expr.values[-1])
    if isinstance(expr, ast.IfExp):
        return _may_be_none(expr.body) or _may_be_none(expr.orelse)
    return False


def _dotted(node):
    """a.b.c -> 'a.b.c' for Name/Attribute chains, else None"""
    parts = []
    while isinstance(node, ast.Attribute):
        parts.append(node.attr)
        node = node.value
    if isinstance(node, ast.Name):
        parts.append(node.id)
        return ".".join(reversed(parts))
    return None


class _FileScan(ast.NodeVisitor):
    def __init__(self, relfile, tree, rng_funcs):
        self.file = relfile
        self.tree = tree
        self.rng_funcs = rng_funcs  # simple name -> list of (qualname, param name, positional index or None)
        self.sites = []
        self.stack = []
        self.params = [set()]
        self.setnames = [dict()]
        self.random_is_stdlib = False
        self.np_aliases = {"np", "numpy"}
        self.time_aliases = set()
        self.datetime_names = set()
        self.uuid_names = set()
        self.os_names = set()
        self.secrets_names = set()
        self.from_np_random = {}  # local name -> np.random function imported by `from numpy.random import f`
        self.from_time = {}
        self.callee_ids = set()
        self.ext_names = {}  # local name -> "package.module.Name" for third-party callables that take random_state
        self._collect_imports()

    # -- imports decide what `random`, `time`, ... mean in this file
    def _collect_imports(self):
        for node in ast.walk(self.tree):
            if isinstance(node, ast.Import):
                for a in node.names:
                    nm = a.asname or a.name.split(".")[0]
                    if a.name == "random":
                        self.random_is_stdlib = True if nm == "random" else self.random_is_stdlib
                    if a.name == "numpy":
                        self.np_aliases.add(nm)
                    if a.name == "time":
                        self.time_aliases.add(nm)
                    if a.name == "datetime":
                        self.datetime_names.add(nm + ".datetime")
                        self.datetime_names.add(nm + ".date")
                    if a.name == "uuid":
                        self.uuid_names.add(nm)
                    if a.name == "os":
                        self.os_names.add(nm)
                    if a.name == "secrets":
                        self.secrets_names.add(nm)
            elif isinstance(node, ast.ImportFrom) and not node.level:
                for a in node.names:
                    nm = a.asname or a.name
                    if node.module == "numpy.random":
                        self.from_np_random[nm] = a.name
                    if node.module == "numpy" and a.name == "random":
                        self.np_aliases.add("__np_random_direct__:" + nm)
                    if node.module == "time":
                        self.from_time[nm] = a.name
                    if node.module == "datetime" and a.name in ("datetime", "date"):
                        self.datetime_names.add(nm)
                    if node.module == "random":
                        self.from_np_random["__py__:" + nm] = a.name
                    if node.module == "uuid":
                        self.from_time["__uuid__:" + nm] = a.name
                    if node.module and node.module.split(".")[0] in EXT_PACKAGES and a.name in EXT_RNG_CALLABLES:
                        self.ext_names[nm] = f"{node.module}.{a.name}"

    # -- helpers
    def qual(self):
        return ".".join(self.stack) if self.stack else "<module>"

    def add(self, node, kind, stream, detail=""):
        self.sites.append(Site(self.file, node.lineno, node.col_offset, self.qual(), kind, _txt(node), stream, detail))

    def is_np_random(self, node):
        """node is the expression `np.random`"""
        d = _dotted(node)
        if d is None:
            return False
        if any(d == f"{a}.random" for a in self.np_aliases if not a.startswith("__")):
            return True
        return any(a.startswith("__np_random_direct__:") and d == a.split(":", 1)[1] for a in self.np_aliases)

    def set_valued(self, node, depth=0):
        """syntactic 'this expression is a set' (hash-ordered)"""
        if depth > 4:
            return False
        if isinstance(node, (ast.Set, ast.SetComp)):
            return True
        if isinstance(node, ast.Call):
            f = node.func
            if isinstance(f, ast.Name) and f.id in ("set", "frozenset"):
                return True
            if isinstance(f, ast.Attribute) and f.attr in SET_RETURNING_APIS:
                return True
            return False
        if isinstance(node, ast.BinOp) and isinstance(node.op, (ast.Sub, ast.BitOr, ast.BitAnd, ast.BitXor)):
            def setish(n):
                if self.set_valued(n, depth + 1):
                    return True
                return (isinstance(n, ast.Call) and isinstance(n.func, ast.Attribute) and n.func.attr in ("keys", "items"))
            return setish(node.left) or setish(node.right)
        if isinstance(node, ast.Name):
            return node.id in self.setnames[-1]
        return False

    # -- scopes
    def visit_ClassDef(self, node):
        self.stack.append(node.name)
        self.generic_visit(node)
        self.stack.pop()

    def _visit_func(self, node):
        self.stack.append(node.name)
        a = node.args
        names = {x.arg for x in a.posonlyargs + a.args + a.kwonlyargs}
        self.params.append(names)
        self.setnames.append(dict())
        # local names bound (once or more) to a set-valued expression
        for sub in ast.walk(node):
            if isinstance(sub, ast.Assign) and len(sub.targets) == 1 and isinstance(sub.targets[0], ast.Name):
                if self.set_valued(sub.value):
                    self.setnames[-1][sub.targets[0].id] = sub.lineno
        self.generic_visit(node)
        self.setnames.pop()
        self.params.pop()
        self.stack.pop()

    visit_FunctionDef = _visit_func
    visit_AsyncFunctionDef = _visit_func

    def visit_Lambda(self, node):
        self.generic_visit(node)

    # -- iteration over sets
    def visit_For(self, node):
        if self.set_valued(node.iter):
            self.add(node.iter, "set-order", "hashSeed", "for-loop over a set-valued expression")
        self.generic_visit(node)

    def _visit_comp(self, node):
        # a set comprehension over a set is order-free; list/dict/generator are not
        for gen in node.generators:
            if self.set_valued(gen.iter) and not isinstance(node, ast.SetComp):
                self.add(gen.iter, "set-order", "hashSeed", "comprehension over a set-valued expression")
        self.generic_visit(node)

    visit_ListComp = _visit_comp
    visit_DictComp = _visit_comp
    visit_GeneratorExp = _visit_comp
    visit_SetComp = _visit_comp

    # -- calls
    def visit_Name(self, node):
        if (isinstance(node.ctx, ast.Load) and id(node) not in self.callee_ids and node.id in self.rng_funcs
                and node.id not in self.params[-1]):
            cands = [c for c in self.rng_funcs[node.id] if not c["method"] and not c["is_class"]]
            if cands:
                self.add(node, "rng-func-ref", "numpyGlobal",
                         f"{cands[0]['qual']} escapes as a function value: whether `{cands[0]['param']}` is passed cannot be verified")

    def visit_Call(self, node):
        f = node.func
        self.callee_ids.add(id(f))
        kwnames = {k.arg for k in node.keywords if k.arg}
        has_star = any(isinstance(a, ast.Starred) for a in node.args) or any(k.arg is None for k in node.keywords)
        handled_rng_param = False

        if isinstance(f, ast.Attribute):
            recv, name = f.value, f.attr
            d_recv = _dotted(recv)
            # np.random.<f>
            if self.is_np_random(recv):
                if name in RNG_CTORS:
                    self._ctor(node, name)
                elif name in NP_RANDOM_FUNCS_SEEDWRITE:
                    self.add(node, "np-seed-write", "numpyGlobal", "writes the process-global NumPy generator")
                elif name in ("get_state",):
                    self.add(node, "np-global", "numpyGlobal", "reads the process-global NumPy generator")
                else:
                    self.add(node, "np-global", "numpyGlobal", f"np.random.{name} draws from the process-global generator")
                handled_rng_param = True
            # random.<f>  (stdlib)
            elif d_recv == "random" and self.random_is_stdlib:
                if name in ("Random", "SystemRandom"):
                    self._ctor(node, name)
                elif name in ("seed", "setstate"):
                    self.add(node, "py-global", "pythonGlobal", "writes the process-global `random` generator")
                else:
                    self.add(node, "py-global", "pythonGlobal", f"random.{name} uses the process-global generator")
                handled_rng_param = True
            # <expr>.rvs(...)
            elif name == "rvs":
                rs = self._kw(node, "random_state")
                if rs is None and len(node.args) >= 2:
                    rs = node.args[1]  # Dimension.rvs(n_samples, random_state) positional
                if rs is None or (isinstance(rs, ast.Constant) and rs.value is None):
                    if has_star:
                        self.add(node, "rng-param-kwargs", "numpyGlobal", ".rvs with *args/**kwargs: random_state cannot be verified")
                    else:
                        self.add(node, "rvs-unseeded", "scipyGlobal", ".rvs without random_state draws from SciPy's default = NumPy's global generator")
                else:
                    self.add(node, "rvs-seeded", "seeded", f"random_state={_txt(rs, 40)}" + self._param_note(rs))
                handled_rng_param = True
            elif name == "resample" and not has_star:
                # scipy.stats.gaussian_kde.resample(size=None, seed=None): without a seed it draws from NumPy's global generator
                sd = self._kw(node, "seed") or (node.args[1] if len(node.args) >= 2 else None)
                if sd is None or (isinstance(sd, ast.Constant) and sd.value is None):
                    self.add(node, "rvs-unseeded", "numpyGlobal", ".resample without seed draws from NumPy's process-global generator")
                else:
                    self.add(node, "rvs-seeded", "seeded", f"seed={_txt(sd, 40)}" + self._param_note(sd))
                handled_rng_param = True
            elif name in CLOCK_FUNCS and d_recv in self.time_aliases:
                self.add(node, "clock", "clock", f"time.{name}")
            elif name in DATETIME_FUNCS and d_recv in self.datetime_names:
                self.add(node, "clock", "clock", f"{d_recv}.{name}")
            elif d_recv in self.uuid_names and name in ("uuid1", "uuid4"):
                self.add(node, "entropy", "osEntropy", f"uuid.{name}")
            elif d_recv in self.os_names and name in ("urandom", "getpid", "getppid"):
                self.add(node, "entropy", "osEntropy", f"os.{name}")
            elif name in CPU_COUNT_FUNCS:
                self.add(node, "cpu-count", "osEntropy", f"{_txt(f, 40)}: the number of CPUs the process may use differs between machines / containers / affinity masks")
            elif d_recv in self.secrets_names:
                self.add(node, "entropy", "osEntropy", f"secrets.{name}")
            elif name == "seed" and (node.args or node.keywords):
                self.add(node, "seed-call", "seeded", f"{_txt(recv, 40)}.seed({_txt(node.args[0], 50) if node.args else '...'})")
            elif name in RNG_METHODS and self._looks_like_rng(recv):
                self.add(node, "rng-method", "seeded", f"explicit generator object `{_txt(recv, 40)}`" + self._param_note(recv))
            elif name in ("sample_configuration", "sample_value"):
                self.add(node, "rng-method", "seeded", f"ConfigSpace generator of `{_txt(recv, 40)}` (seeded by the .seed(...) sites)")
            elif name == "sample" and any(t in (_dotted(recv) or "").lower() for t in ("gmm", "model_sdv")):
                self.add(node, "rng-method", "seeded", f"generative model `{_txt(recv, 40)}` (its generator is the one given to GMMSampler)")
            elif name == "pop" and not node.args and self.set_valued(recv):
                self.add(node, "set-order", "hashSeed", "set.pop() returns an arbitrary element")
            elif name == "join" and node.args and self.set_valued(node.args[0]):
                self.add(node, "set-order", "hashSeed", "str.join over a set-valued expression")
        elif isinstance(f, ast.Name):
            name = f.id
            if name in self.from_np_random:
                orig = self.from_np_random[name]
                if orig in RNG_CTORS:
                    self._ctor(node, orig)
                else:
                    self.add(node, "np-global", "numpyGlobal", f"numpy.random.{orig} imported by name")
                handled_rng_param = True
            elif "__py__:" + name in self.from_np_random:
                orig = self.from_np_random["__py__:" + name]
                if orig in ("Random", "SystemRandom"):
                    self._ctor(node, orig)
                else:
                    self.add(node, "py-global", "pythonGlobal", f"random.{orig} imported by name")
                handled_rng_param = True
            elif name in RNG_CTORS and name != "Random":
                self._ctor(node, name)
                handled_rng_param = True
            elif name == "check_random_state":
                arg = node.args[0] if node.args else self._kw(node, "seed")
                if arg is None or (isinstance(arg, ast.Constant) and arg.value is None):
                    self.add(node, "crs-none", "numpyGlobal", "check_random_state(None) is NumPy's process-global generator")
                else:
                    self.add(node, "crs", "seeded", f"check_random_state({_txt(arg, 40)})" + self._param_note(arg))
                handled_rng_param = True
            elif name in CPU_COUNT_FUNCS:
                self.add(node, "cpu-count", "osEntropy", f"{name}(): the number of CPUs the process may use differs between machines / containers / affinity masks")
            elif name == "hash" and node.args:
                self.add(node, "hash", "hashSeed", "hash() of str/bytes depends on PYTHONHASHSEED")
            elif name == "id" and len(node.args) == 1:
                self.add(node, "entropy", "osEntropy", "id() is a memory address")
            elif name in self.from_time and self.from_time[name] in CLOCK_FUNCS:
                self.add(node, "clock", "clock", f"time.{self.from_time[name]} imported by name")
            elif "__uuid__:" + name in self.from_time:
                self.add(node, "entropy", "osEntropy", f"uuid.{name}")
            if name in SET_CONSUMERS or name == "sorted":
                pass
            if name in SET_CONSUMERS and node.args and self.set_valued(node.args[0]):
                # next(iter(S)) is reported once, on the inner iter(S)
                self.add(node, "set-order", "hashSeed", f"{name}() over a set-valued expression")

        # f(..., seed=<expr>): an external library is handed a seed (pymoo's minimize)
        sk = self._kw(node, "seed")
        if sk is not None and not handled_rng_param and not (isinstance(sk, ast.Constant) and sk.value is None) \
                and not (isinstance(f, ast.Name) and f.id == "check_random_state"):
            self.add(node, "seed-kw", "seeded", f"seed={_txt(sk, 50)}" + self._param_note(sk))

        # attribute-call consumers such as np.array(S), pd.Series(S)
        if isinstance(f, ast.Attribute) and f.attr in ("array", "asarray", "Series", "DataFrame") and node.args and self.set_valued(node.args[0]):
            self.add(node, "set-order", "hashSeed", f"{f.attr}() over a set-valued expression")

        # calls of scanned functions that have an RNG parameter;  delayed(f)(args) is a call of f
        if not handled_rng_param:
            cname = f.attr if isinstance(f, ast.Attribute) else f.id if isinstance(f, ast.Name) else None
            if (isinstance(f, ast.Call) and isinstance(f.func, ast.Name) and f.func.id == "delayed" and len(f.args) == 1
                    and isinstance(f.args[0], ast.Name)):
                cname = f.args[0].id
                self.callee_ids.add(id(f.args[0]))
            if cname in self.rng_funcs:
                self._check_rng_param(node, cname, kwnames, has_star, is_attr=isinstance(f, ast.Attribute))
            elif isinstance(f, ast.Name) and cname in self.ext_names:
                rs = self._kw(node, "random_state")
                if rs is not None and not (isinstance(rs, ast.Constant) and rs.value is None):
                    self.add(node, "ext-param", "seeded", f"{self.ext_names[cname]}(random_state={_txt(rs, 40)})" + self._param_note(rs))
                elif has_star:
                    self.add(node, "rng-param-kwargs", "numpyGlobal", f"call of {self.ext_names[cname]} with *args/**kwargs: `random_state` cannot be verified")
                else:
                    self.add(node, "ext-param-omitted", "numpyGlobal",
                             f"{self.ext_names[cname]} has a `random_state` parameter; without it, it draws from NumPy's process-global generator "
                             "whenever it needs randomness (subsampling, initialisation, shuffling)")
        self.generic_visit(node)

    def _kw(self, node, name):
        for k in node.keywords:
            if k.arg == name:
                return k.value
        return None

    def _param_note(self, expr):
        if isinstance(expr, ast.Name) and expr.id in self.params[-1]:
            return f" [parameter `{expr.id}` of {self.qual()}: seeded iff every caller passes it]"
        return ""

    def _looks_like_rng(self, recv):
        d = _dotted(recv) or ""
        last = d.split(".")[-1].lower()
        return any(t in last for t in ("rng", "random_state", "_random", "rand_state")) or last in ("random", "rs", "prng")

    def _ctor(self, node, name):
        has_arg = bool(node.args) or any(k.arg in ("seed", "x") for k in node.keywords)
        if has_arg and not (node.args and isinstance(node.args[0], ast.Constant) and node.args[0].value is None):
            arg = node.args[0] if node.args else node.keywords[0].value
            if _may_be_none(arg):
                # RandomState(seed or None), RandomState(x if c else None): falsy / missing seeds fall back to OS entropy
                self.add(node, "rng-ctor-noseed", "osEntropy",
                         f"{name}({_txt(arg, 50)}): the seed expression can evaluate to None (e.g. for the falsy seed 0)")
            else:
                self.add(node, "rng-ctor", "seeded", f"{name}({_txt(arg, 50)})" + self._param_note(arg))
        else:
            self.add(node, "rng-ctor-noseed", "osEntropy", f"{name}() is seeded from OS entropy")

    def _check_rng_param(self, node, cname, kwnames, has_star, is_attr):
        cands = self.rng_funcs[cname]
        if cname == "copy" and is_attr:
            # dict.copy()/list.copy()/ndarray.copy() share the name of Optimizer.copy(random_state=None): only a
            # receiver that can be an optimizer is a candidate (self, opt, optimizer, ...)
            r = (_dotted(node.func.value) or "").split(".")[-1].lower()
            if not (r == "self" or "opt" in r):
                return
        # a method call x.f(...) can only be one of the scanned *methods* / classes; a bare f(...) one of the functions/classes
        cands = [c for c in cands if c["method"] == is_attr or c["is_class"]]
        if not cands:
            return
        ok_any = False
        for c in cands:
            if c["param"] in kwnames:
                ok_any = True
            elif c["pos"] is not None and len(node.args) > c["pos"] and not any(isinstance(a, ast.Starred) for a in node.args):
                ok_any = True
        if ok_any:
            return
        targets = ", ".join(sorted({c["qual"] for c in cands}))[:120]
        if has_star:
            self.add(node, "rng-param-kwargs", "numpyGlobal", f"call of {targets} with *args/**kwargs: `{cands[0]['param']}` cannot be verified")
        else:
            self.add(node, "rng-param-omitted", "numpyGlobal", f"call of {targets} without `{cands[0]['param']}` (its default None = unseeded)")


def _collect_rng_funcs(trees, src):
    """simple name -> candidates: functions / methods / classes (via __init__) of the scanned files that
    have a parameter named random_state / rng"""
    out = {}

    def reg(simple, qual, fn, method, is_class):
        a = fn.args
        pos_params = [x.arg for x in a.posonlyargs + a.args]
        if method or is_class:
            pos_params = pos_params[1:]  # self
        for p in RNG_PARAM_NAMES:
            if p in pos_params:
                out.setdefault(simple, []).append({"qual": qual, "param": p, "pos": pos_params.index(p), "method": method, "is_class": is_class})
                return
            if p in [x.arg for x in a.kwonlyargs]:
                out.setdefault(simple, []).append({"qual": qual, "param": p, "pos": None, "method": method, "is_class": is_class})
                return

    for f, tree in trees.items():
        rel = str(f.relative_to(src / "deephyper"))
        for node in tree.body:
            if isinstance(node, (ast.FunctionDef, ast.AsyncFunctionDef)):
                reg(node.name, f"{rel}:{node.name}", node, False, False)
            elif isinstance(node, ast.ClassDef):
                for sub in node.body:
                    if isinstance(sub, (ast.FunctionDef, ast.AsyncFunctionDef)):
                        if sub.name == "__init__":
                            reg(node.name, f"{rel}:{node.name}.__init__", sub, False, True)
                        elif not (sub.name.startswith("__") and sub.name.endswith("__")):
                            reg(sub.name, f"{rel}:{node.name}.{sub.name}", sub, True, False)
    return out


# --------------------------------------------------------------------------- reachability map (hand-maintained)

# option names are those of the harness configuration (harness/c07.py): search, sm, acq, mps, design,
# cond, nobj, moo, acq_opt, transfer.


def _no_text(src: Path, globs, pattern):
    """guard: `pattern` (regex) occurs in none of the files matching `globs` (relative to src/deephyper)"""
    rx = re.compile(pattern)
    base = src / "deephyper"
    for g in globs:
        for f in base.glob(g):
            if rx.search(f.read_text()):
                return False, f"{f.relative_to(base)} matches /{pattern}/"
    return True, ""


def _lbfgs_args_end_with_rng(src: Path):
    """guard: every call `f(gaussian_acquisition_1D, x, args=(...))` in optimizer.py passes a tuple that fills all parameters of
    gaussian_acquisition_1D after X, the last one (random_state) with self.rng"""
    opt = ast.parse((src / "deephyper/skopt/optimizer/optimizer.py").read_text())
    acq = ast.parse((src / "deephyper/skopt/acquisition.py").read_text())
    fn = next((n for n in acq.body if isinstance(n, ast.FunctionDef) and n.name == "gaussian_acquisition_1D"), None)
    if fn is None:
        return False, "gaussian_acquisition_1D not found"
    params = [a.arg for a in fn.args.args]
    if "random_state" not in params:
        return False, "gaussian_acquisition_1D has no random_state parameter"
    need = params.index("random_state")  # number of parameters between X and random_state, plus one
    found = 0
    for node in ast.walk(opt):
        if isinstance(node, ast.Call) and node.args and isinstance(node.args[0], ast.Name) and node.args[0].id == "gaussian_acquisition_1D":
            found += 1
            tup = next((k.value for k in node.keywords if k.arg == "args"), None)
            if not isinstance(tup, ast.Tuple) or len(tup.elts) != need or ast.unparse(tup.elts[-1]) != "self.rng":
                return False, f"args tuple at line {node.lineno} does not end with self.rng on the random_state slot"
    return (found > 0, "" if found else "no call passes gaussian_acquisition_1D as a value")


def _both(a, b):
    return (a[0] and b[0], a[1] or b[1])


def _has_text(src: Path, file, pattern):
    f = src / "deephyper" / file
    if f.exists() and re.search(pattern, f.read_text(), re.S):
        return True, ""
    return False, f"{file} no longer matches /{pattern}/"


REACH_RULES = [
    # ---- the stack proper -------------------------------------------------------------------------------
    dict(name="mes-sampling", file="skopt/acquisition.py", func="gaussian_mes", kind="rvs-*",
         reach="live", conds=[("search", ["CBO"]), ("acq", ["MES", "MESd"])],
         why="gaussian_mes is called from _gaussian_acquisition only for acq_func MES / MESd (CBO acq_func option)"),
    dict(name="optimizer-sample-subsampling", file="skopt/optimizer/optimizer.py", func="Optimizer._sample", kind="np-global",
         reach="unreachable",
         why="guarded by `self._sample_max_size > 0`; sample_max_size defaults to -1 and no search class passes it "
             "(guard: the string sample_max_size occurs nowhere under hpo/)",
         guard=lambda src: _no_text(src, ["hpo/*.py"], r"sample_max_size")),
    dict(name="kde-prior-sampling", file="skopt/space/space.py", func="Real.rvs", kind="rvs-*", text=r"\.resample\(",
         reach="live", conds=[("search", ["CBO"]), ("update_prior", [True])],
         why="Real._kde only exists after Space.update_prior, which Optimizer._tell calls only for CBO(update_prior=True)"),
    dict(name="regevo-active-names", file="hpo/_regevo.py", func="RegularizedEvolution._ask", kind="set-order",
         reach="live", conds=[("search", ["REGEVO"])],
         why="mutation step of RegularizedEvolution once the population is full"),
    dict(name="search-unseeded-ctor", file="hpo/_search.py", func="Search.__init__", kind="rng-ctor-noseed",
         reach="outOfScope",
         why="`else` branch taken only for random_state=None / non-int non-RandomState; the property quantifies over integer seeds "
             "(guard: an integer-test branch that seeds RandomState with the integer still precedes it)",
         guard=lambda src: _has_text(src, "hpo/_search.py", r"(if type\(random_state\) is int|if isinstance\(random_state, numbers\.Integral\)).*?RandomState\((random_state|self\._seed)\)"
                                     r".*?else:\s*\n\s*self\._random_state = np\.random\.RandomState\(\)")),
    dict(name="search-clock-logging", file="hpo/_search.py", func="Search.*", kind="clock", text=r"time\.time\(\)",
         reach="noFlow", why="elapsed-time values are only formatted into logging.info messages"),
    dict(name="search-backup-name", file="hpo/_search.py", func="Search.__init__", kind="clock", text=r"strftime",
         reach="noFlow", why="timestamp only names the backup of an existing results.csv; never read by ask/tell"),
    dict(name="cbo-clock-logging", file="hpo/_cbo.py", func="CBO._tell", kind="clock",
         reach="noFlow", why="elapsed-time values are only formatted into logging.info messages"),
    dict(name="moo-unseeded-ctor", file="skopt/moo/_multiobjective.py", func="MoScalarFunction.__init__", kind="rng-ctor-noseed",
         reach="unreachable",
         why="Optimizer._moo_scalarize always passes random_state=self.rng (a RandomState instance), so the `else` branch is not taken "
             "(guard: that keyword is still present in optimizer.py and MoScalarFunction still has the branch that adopts a RandomState)",
         guard=lambda src: _both(_has_text(src, "skopt/optimizer/optimizer.py", r"moo_functions\[\s*self\._moo_scalarization_strategy\s*\]\(.*?random_state=self\.rng"),
                                 _has_text(src, "skopt/moo/_multiobjective.py", r"isinstance\(random_state, np\.random\.RandomState\):\s*\n\s*self\._rng = random_state"))),
    dict(name="space-sdv-new-names", file="skopt/space/space.py", func="Space.rvs", kind="set-order",
         reach="outOfScope",
         why="only with a generative model (CBO.fit_generative_model, transfer learning) on a ConfigSpace-sampled space; transfer "
             "learning is not an axis of the property's configuration matrix.  Latent: the order of a set of names decides which "
             "name gets which draw of one generator; with ConfigSpace 1.x the loop body raises TypeError (sample_value signature) "
             "before any proposal, so no differing pair can exist today (harness still runs transfer=gmm configurations)"),
    dict(name="space-yaml-first-key", file="skopt/space/space.py", func="Space.from_yaml", kind="*",
         reach="unreachable", why="Space.from_yaml is not called by any search class (dicts keep insertion order anyway)",
         guard=lambda src: _no_text(src, ["hpo/*.py", "skopt/optimizer/*.py"], r"from_yaml")),
    dict(name="pymoo-seed", file="skopt/optimizer/optimizer.py", func="Optimizer._tell", kind="seed-kw", text=r"minimize\(",
         reach="live", conds=[("search", ["CBO"]), ("acq_opt", ["ga", "mixedga"])],
         why="pymoo.optimize.minimize(seed=self.rng.randint(..)): pymoo reseeds the process-global NumPy generator with this seed and "
             "draws from it — a function of the root stream, but it overwrites the global generator (the harness does not expect the "
             "global NumPy state to be untouched for these configurations)"),
    dict(name="skopt-plots", file="skopt/plots.py", func="*", kind="*", reach="unreachable",
         why="plotting helpers; not called by the search classes",
         guard=lambda src: _no_text(src, ["hpo/*.py", "skopt/optimizer/optimizer.py"], r"skopt\.plots|from \.\.?plots")),
    dict(name="lbfgs-args-tuple", file="skopt/optimizer/optimizer.py", func="Optimizer._tell", kind="rng-func-ref",
         text=r"gaussian_acquisition_1D", reach="noFlow", stream="seeded",
         why="fmin_l_bfgs_b(gaussian_acquisition_1D, x, args=(...)): the args tuple ends with self.rng, which lands on the wrapper's "
             "random_state parameter (guard, on the AST: the tuple has exactly the wrapper's 6 parameters after X and its last "
             "element is self.rng)",
         guard=lambda src: _lbfgs_args_end_with_rng(src)),
    dict(name="mes-threading", file="skopt/*", func="*", kind="rng-*", text=r"gaussian_mes|_gaussian_acquisition|gaussian_acquisition_1D",
         reach="live", conds=[("search", ["CBO"]), ("acq", ["MES", "MESd"])],
         why="the generator argument of the acquisition wrappers only matters for the sampling acquisition MES / MESd"),
    dict(name="cook-estimator-set-params", file="skopt/utils.py", func="cook_estimator", kind="rng-param-omitted",
         reach="noFlow", stream="seeded",
         why="the estimator built here gets its seed two lines later by base_estimator.set_params(**kwargs); the only caller in the "
             "stack, Optimizer.__init__, passes random_state=self.rng.randint(...) (guard: both still present)",
         guard=lambda src: _both(_has_text(src, "skopt/utils.py", r"base_estimator\.set_params\(\*\*kwargs\)"),
                                 _has_text(src, "skopt/optimizer/optimizer.py", r"cook_estimator\(.*?random_state=self\.rng\.randint"))),
    dict(name="skopt-callbacks", file="skopt/callbacks.py", func="*", kind="*", reach="unreachable",
         why="callbacks of the skopt *_minimize loops; no search class instantiates them (guard: hpo/ and optimizer.py never mention them)",
         guard=lambda src: _no_text(src, ["hpo/*.py", "skopt/optimizer/optimizer.py"], r"skopt\.callbacks|VerboseCallback|TimerCallback|DeadlineStopper")),
    dict(name="skopt-searchcv", file="skopt/searchcv.py", func="*", kind="*", reach="unreachable",
         why="BayesSearchCV is a scikit-learn front end, not used by the search classes",
         guard=lambda src: _no_text(src, ["hpo/*.py", "skopt/optimizer/optimizer.py"], r"BayesSearchCV|searchcv")),
    dict(name="skopt-minimize-loops", file="skopt/optimizer/[bdfg]*.py", func="*", kind="*", reach="unreachable",
         why="base_minimize / gp_minimize / forest_minimize / gbrt_minimize / dummy_minimize: functional skopt API, the search classes "
             "drive Optimizer.ask/tell directly",
         guard=lambda src: _no_text(src, ["hpo/*.py"], r"_minimize")),
    dict(name="skopt-expected-minimum", file="skopt/utils.py", func="expected_minimum*", kind="*", reach="unreachable",
         why="post-hoc analysis helpers, not called by ask/tell",
         guard=lambda src: _no_text(src, ["hpo/*.py", "skopt/optimizer/optimizer.py"], r"expected_minimum")),
    dict(name="pf-selftest", file="skopt/moo/_pf.py", func="<module>", kind="*", reach="unreachable",
         why="`if __name__ == '__main__'` self-test of _pf.py"),
    # ---- third-party callables constructed without random_state ------------------------------------------
    *[dict(name=f"gbrt-template-estimator-{i}", file=fl, func=fn, kind="ext-param-omitted", text=r"GradientBoostingRegressor\(",
           reach="noFlow", stream="seeded",
           why="template estimator of GradientBoostingQuantileRegressor: its fit() seeds the template with the wrapper's own generator "
               "(`base_estimator.set_params(random_state=rng)`, rng = check_random_state(self.random_state)) before it is cloned and fitted; "
               "the wrapper's random_state is checked by the rng-param rows (guard: that statement is still in gbrt.py, before the clone)",
           guard=lambda src: _has_text(src, "skopt/learning/gbrt.py", r"rng = check_random_state\(self\.random_state\).*?base_estimator\.set_params\(random_state=rng\)"
                                                                      r".*?regressor = clone\(base_estimator\)"))
      for i, (fl, fn) in enumerate([("hpo/_cbo.py", "CBO._get_surrogate_model"), ("skopt/utils.py", "cook_estimator"),
                                    ("skopt/learning/gbrt.py", "GradientBoostingQuantileRegressor.fit")])],
    dict(name="forest-template-tree", file="skopt/learning/forest.py", func="*.__init__", kind="ext-param-omitted", text=r"^DecisionTreeRegressor\(\)$",
         reach="noFlow", stream="seeded",
         why="template tree handed to scikit-learn's forest constructor: the forest seeds every tree it builds from its own random_state "
             "(BaseForest.fit -> _make_estimator(random_state=...)); the forest's random_state is checked by the rng-param rows "
             "(guard: the constructor still forwards random_state=random_state to the scikit-learn base class)",
         guard=lambda src: _has_text(src, "skopt/learning/forest.py", r"super\(\)\.__init__\(.*?DecisionTreeRegressor\(\),.*?random_state=random_state")),
    dict(name="quantile-scaler-subsample-known-finding", file="skopt/utils.py", func="cook_objective_scaler", kind="ext-param-omitted",
         text=r"QuantileTransformer\(", reach="outOfScope", conds=[("search", ["CBO"]), ("history", ["very-long"])],
         why="KNOWN FINDING (known_findings.d/C07.json, repair on branch fix-c07): QuantileTransformer without random_state subsamples with "
             "NumPy's global generator once it is fitted on more than `subsample` observations; with scikit-learn's default "
             "subsample=10_000 this needs a history of more than 10 000 told observations (found dynamically by the very-long-history "
             "scenarios of the thorough tier).  Classified not-live only so that the obligation stays checkable for every other row until the "
             "repair is merged (the row is then `ext-param`, seeded).  Guard: the call still relies on the default threshold "
             "(no subsample / n_quantiles argument)",
         guard=lambda src: _has_text(src, "skopt/utils.py", r"QuantileTransformer\(output_distribution=\"uniform\"\)")),
    # ---- call sites whose RNG argument travels through **kwargs ------------------------------------------
    dict(name="cbo-optimizer-kwargs", file="hpo/_cbo.py", func="CBO._setup_optimizer", kind="rng-param-kwargs",
         reach="noFlow", stream="seeded",
         why="Optimizer(**self._opt_kwargs): the dict literal built in CBO.__init__ contains random_state=self._random_state "
             "(guard: that entry is still in _cbo.py)",
         guard=lambda src: _has_text(src, "hpo/_cbo.py", r"_opt_kwargs = dict\(.*?random_state=self\._random_state")),
    dict(name="cbo-forest-kwargs", file="hpo/_cbo.py", func="CBO._get_surrogate_model", kind="rng-param-kwargs",
         text=r"\*\*defau(lt_surrogate_model_kwargs|\.\.\.)",  # the source text of a row is cut after 90 characters
         reach="noFlow", stream="seeded",
         why="surrogate constructors receive **default_surrogate_model_kwargs which contains random_state=random_state, itself "
             "self._random_state.randint(...) at the only call (guard: both still present)",
         guard=lambda src: _has_text(src, "hpo/_cbo.py", r"random_state=self\._random_state\.randint\(0, 2\*\*31\).*?random_state=random_state")),
]

# wide rules for the imported periphery (evaluator, storage, analysis, ...): every site stays in the table
PERIPHERY_RULES = [
    # ---- process-level mutable state (class / module level objects written by the code): one justification per object
    dict(name="evaluator-nest-asyncio-flag", file="evaluator/_evaluator.py", func="Evaluator.__init__", kind="class-cache",
         text=r"NEST_ASYNCIO_PATCHED = True", reach="noFlow",
         why="one-way flag 'the nest-asyncio patch has been applied' (IPython shells only): it decides whether the event loop is patched "
             "a second time, never a value that reaches ask() (guard: the only other mention of the flag is that test)",
         guard=lambda src: _has_text(src, "evaluator/_evaluator.py", r"if not \(Evaluator\.NEST_ASYNCIO_PATCHED\) and _test_ipython_interpretor\(\)")),
    dict(name="mpi-win-storage-state", file="evaluator/storage/_mpi_win*", func="*", kind="class-cache", reach="outOfScope",
         why="registry / counter of MPI one-sided windows: MPI storage is not in the property's matrix (memory storage, num_workers=1)"),
    dict(name="ray-storage-counter", file="evaluator/storage/_ray_storage.py", func="*", kind="class-cache", reach="outOfScope",
         why="names the Ray actor of a RayStorage; Ray storage is not in the property's matrix"),
    dict(name="evaluator-timestamps", file="evaluator/*", func="*", kind="clock",
         reach="noFlow", why="timestamps go to m:timestamp_* metadata / timeouts / log lines; ask() never reads them, "
                             "and the property fixes the sequence of calls (num_workers=1, no timeout)"),
    dict(name="evaluator-ids", file="evaluator/*", func="*", kind="entropy",
         reach="noFlow", why="uuid / pid / id() values name jobs, searches and processes; they do not reach ask()"),
    dict(name="stopper", file="stopper/*", func="*", kind="*",
         reach="outOfScope", why="stoppers are not part of the property's configuration matrix (stopper=None)"),
    dict(name="analysis", file="analysis/*", func="*", kind="*",
         reach="unreachable", why="analysis helpers: CBO imports only filter_failed_objectives (pure pandas filtering)",
         guard=lambda src: _has_text(src, "hpo/_cbo.py", r"from deephyper\.analysis\.hpo import filter_failed_objectives\n")),
    dict(name="core-cli", file="core/cli/*", func="*", kind="*", reach="unreachable", why="command-line entry points"),
    dict(name="mpi", file="hpo/_mpi_dbo.py", func="*", kind="*", reach="outOfScope",
         why="MPIDistributedBO needs mpi4py and several ranks; not in the property's matrix (separate processes, num_workers=1)"),
    dict(name="evaluator-mpi", file="evaluator/_mpi*", func="*", kind="*", reach="outOfScope", why="MPI evaluator not in the matrix"),
    dict(name="evaluator-ray", file="evaluator/_ray.py", func="*", kind="*", reach="outOfScope", why="Ray evaluator not in the matrix"),
]


def _match(rule, s: Site):
    if not fnmatch.fnmatch(s.file, rule["file"]):
        return False
    if not fnmatch.fnmatch(s.func, rule.get("func", "*")):
        return False
    if not fnmatch.fnmatch(s.kind, rule.get("kind", "*")):
        return False
    if "text" in rule and not re.search(rule["text"], s.text):
        return False
    return True


def classify(sites, src: Path, extra_rules=()):
    guard_cache, notes = {}, []
    rules = list(extra_rules) + REACH_RULES + PERIPHERY_RULES
    for s in sites:
        for r in rules:
            if not _match(r, s):
                continue
            if "guard" in r:
                if r["name"] not in guard_cache:
                    try:
                        guard_cache[r["name"]] = r["guard"](src)
                    except Exception as e:  # pragma: no cover
                        guard_cache[r["name"]] = (False, f"guard raised {e!r}")
                ok, msg = guard_cache[r["name"]]
                if not ok:
                    notes.append(f"rule {r['name']} NOT applied to {s.file}:{s.line}: guard failed ({msg})")
                    continue
            s.reach = r["reach"]
            s.conds = [(k, list(v)) for k, v in r.get("conds", [])]
            s.why = r["why"]
            s.rule = r["name"]
            if "stream" in r:
                s.detail += f" [stream {s.stream} -> {r['stream']} by rule {r['name']}]"
                s.stream = r["stream"]
            break
        else:
            s.reach, s.conds, s.rule = "live", [], ""
            s.why = "no rule: reachable by every configuration (default)" if not s.seeded else "draws from an explicit generator object"
    return notes


def _state_ownership(trees, src):
    """`Search.__init__` must take a PRIVATE copy of the problem: the ConfigurationSpace carries its own generator
    (`space.random`, reseeded by `space.seed(..)`); without `copy.deepcopy(problem)` that generator is shared with the
    caller's problem object and with every other search built from it, i.e. it is an input this search does not control.
    Row `owns-state` (seeded) when the deep copy is there, `shared-state` (hidden stream) otherwise."""
    f = src / "deephyper" / "hpo" / "_search.py"
    tree = trees.get(f)
    out = []
    if tree is None:
        return out
    for cls in [n for n in tree.body if isinstance(n, ast.ClassDef) and n.name == "Search"]:
        for fn in [n for n in cls.body if isinstance(n, ast.FunctionDef) and n.name == "__init__"]:
            found = False
            for node in ast.walk(fn):
                if isinstance(node, ast.Assign) and any(_dotted(t) == "self._problem" for t in node.targets):
                    found = True
                    v = node.value
                    deep = isinstance(v, ast.Call) and (_dotted(v.func) or "").split(".")[-1] == "deepcopy"
                    if deep:
                        out.append(Site("hpo/_search.py", node.lineno, node.col_offset, "Search.__init__", "owns-state", _txt(node), "seeded",
                                        "private deep copy of the problem: ConfigSpace's generator belongs to this search"))
                    else:
                        out.append(Site("hpo/_search.py", node.lineno, node.col_offset, "Search.__init__", "shared-state", _txt(node), "osEntropy",
                                        "the problem (and ConfigSpace's generator inside it) is shared with the caller and with other "
                                        "searches built from the same object: their draws interleave with this search's"))
            if not found:
                out.append(Site("hpo/_search.py", fn.lineno, fn.col_offset, "Search.__init__", "shared-state", "<no assignment to self._problem>",
                                "osEntropy", "Search.__init__ no longer stores a private copy of the problem"))
    return out


def _is_mutable_value(v):
    if isinstance(v, (ast.Dict, ast.List, ast.Set, ast.ListComp, ast.DictComp, ast.SetComp)):
        return True
    return isinstance(v, ast.Call) and (_dotted(v.func) or "").split(".")[-1] in MUTABLE_CTORS


def _bound_mutables(body):
    """names bound to a mutable value by a plain assignment in `body` (a module or class body) -> the assignment"""
    out = {}
    for n in body:
        if isinstance(n, ast.Assign) and _is_mutable_value(n.value):
            for t in n.targets:
                if isinstance(t, ast.Name) and t.id != "__all__":
                    out[t.id] = n
        elif isinstance(n, ast.AnnAssign) and isinstance(n.target, ast.Name) and n.value is not None and _is_mutable_value(n.value):
            out[n.target.id] = n
    return out


def _functions(node, prefix=()):
    """(qualname tuple, FunctionDef, enclosing ClassDef or None) for every function below `node`"""
    for n in getattr(node, "body", []):
        if isinstance(n, (ast.FunctionDef, ast.AsyncFunctionDef)):
            yield prefix + (n.name,), n, node if isinstance(node, ast.ClassDef) else None
            yield from ((q, f, c) for q, f, c in _functions(n, prefix + (n.name,)))
        elif isinstance(n, ast.ClassDef):
            yield from _functions(n, prefix + (n.name,))
        elif isinstance(n, (ast.If, ast.Try, ast.With, ast.For, ast.While)):
            yield from _functions(n, prefix)


def _writes_in(fn):
    """(kind of write, target expression, node) for every write inside function `fn` (nested functions excluded):
    item / slice assignment and deletion, augmented assignment, mutating method call, attribute rebinding"""
    out = []
    stack = list(fn.body)
    while stack:
        n = stack.pop()
        if isinstance(n, (ast.FunctionDef, ast.AsyncFunctionDef, ast.ClassDef, ast.Lambda)):
            continue
        stack.extend(ast.iter_child_nodes(n))
        targets = []
        if isinstance(n, ast.Assign):
            targets = n.targets
        elif isinstance(n, (ast.AugAssign, ast.AnnAssign)):
            targets = [n.target]
        elif isinstance(n, ast.Delete):
            targets = n.targets
        for t in targets:
            for tt in (t.elts if isinstance(t, (ast.Tuple, ast.List)) else [t]):
                if isinstance(tt, ast.Subscript):
                    out.append(("item", tt.value, n))
                elif isinstance(tt, (ast.Attribute, ast.Name)):
                    out.append(("rebind", tt, n))
        if isinstance(n, ast.Call) and isinstance(n.func, ast.Attribute) and n.func.attr in MUTATING_METHODS:
            out.append(("method", n.func.value, n))
    return out


def _process_state(trees, src):
    """process-level mutable state written by the scanned code: rows of kind class-cache / module-cache /
    default-arg-cache / memo-cache on the hidden stream `processState`.  A class-level (or module-level) dict / list is
    shared by every instance, hence by every search of the interpreter: what an earlier search stored there is an input
    of a later one.  Only WRITES from functions / methods are rows (constants that are only read are not)."""
    out = []
    for f, tree in sorted(trees.items()):
        rel = str(f.relative_to(src / "deephyper"))
        mod_mut = _bound_mutables(tree.body)
        mod_names = {t.id for n in tree.body if isinstance(n, (ast.Assign, ast.AnnAssign))
                     for t in (n.targets if isinstance(n, ast.Assign) else [n.target]) if isinstance(t, ast.Name)}
        classes = {c.name: c for c in ast.walk(tree) if isinstance(c, ast.ClassDef)}
        cls_mut = {name: _bound_mutables(c.body) for name, c in classes.items()}
        cls_names = {name: {t.id for n in c.body if isinstance(n, (ast.Assign, ast.AnnAssign))
                            for t in (n.targets if isinstance(n, ast.Assign) else [n.target]) if isinstance(t, ast.Name)}
                     for name, c in classes.items()}
        # attributes a class rebinds per instance (`self.x = ...` in any of its methods) shadow the class-level object
        inst_bound = {}
        for name, c in classes.items():
            b = set()
            for _, fn, _ in _functions(c):
                for kind, tgt, _ in _writes_in(fn):
                    if kind == "rebind" and isinstance(tgt, ast.Attribute) and _dotted(tgt.value) == "self":
                        b.add(tgt.attr)
            inst_bound[name] = b

        def row(kind, q, node, detail):
            out.append(Site(rel, node.lineno, node.col_offset, ".".join(q), kind, _txt(node), "processState", detail))

        for q, fn, cls in _functions(tree):
            a = fn.args
            params = {x.arg for x in a.posonlyargs + a.args + a.kwonlyargs} | ({a.vararg.arg} if a.vararg else set()) | ({a.kwarg.arg} if a.kwarg else set())
            globals_decl = {nm for n in ast.walk(fn) if isinstance(n, ast.Global) for nm in n.names}
            writes = _writes_in(fn)
            local_names = {t.id for k, t, _ in writes if k == "rebind" and isinstance(t, ast.Name)} - globals_decl
            # mutable default arguments
            pos = a.posonlyargs + a.args
            defaults = list(zip(pos[len(pos) - len(a.defaults):], a.defaults)) + [(x, d) for x, d in zip(a.kwonlyargs, a.kw_defaults) if d is not None]
            mut_defaults = {x.arg for x, d in defaults if _is_mutable_value(d)}
            for d in fn.decorator_list:
                dn = (_dotted(d.func if isinstance(d, ast.Call) else d) or "").split(".")[-1]
                if dn in MEMO_DECORATORS:
                    row("memo-cache", q, d, f"@{dn}: results are remembered for the life of the interpreter, keyed by the arguments only")
            for kind, tgt, node in writes:
                if isinstance(tgt, ast.Name):
                    nm = tgt.id
                    if kind == "rebind":
                        if nm in globals_decl and nm in mod_names | globals_decl:
                            row("module-cache", q, node, f"rebinds the module-level name `{nm}` (global statement)")
                    elif nm in mut_defaults and nm not in local_names:
                        row("default-arg-cache", q, node, f"writes the mutable default value of parameter `{nm}` (one object for all calls)")
                    elif nm in mod_mut and nm not in params and nm not in local_names:
                        row("module-cache", q, node, f"writes the module-level {type(mod_mut[nm].value).__name__.lower()} `{nm}` (line {mod_mut[nm].lineno})")
                elif isinstance(tgt, ast.Attribute):
                    recv, attr = tgt.value, tgt.attr
                    d = _dotted(recv) or ""
                    via_class = None  # the class whose namespace the write goes to
                    if d in ("cls", "self.__class__") or (isinstance(recv, ast.Call) and _dotted(recv.func) == "type"):
                        via_class = cls.name if cls is not None else None
                    elif d in classes:
                        via_class = d
                    if kind == "rebind":
                        if via_class is not None:
                            row("class-cache", q, node, f"rebinds the class attribute `{via_class}.{attr}` (shared by all instances)")
                        continue
                    owner = via_class
                    if owner is None and d == "self" and cls is not None and attr not in inst_bound.get(cls.name, set()):
                        owner = cls.name
                    if owner is not None and attr in cls_mut.get(owner, {}):
                        a0 = cls_mut[owner][attr]
                        row("class-cache", q, node, f"writes the class-level {type(a0.value).__name__.lower()} `{owner}.{attr}` (line {a0.lineno}): "
                                                    "one object shared by all instances of the interpreter")
    return out


# --------------------------------------------------------------------------- entry points


def scan(src_root, extra_rules=()) -> Scan:
    src = Path(src_root)
    trees, problems = closure(src)
    rng_funcs = _collect_rng_funcs(trees, src)
    sites = []
    for f in sorted(trees):
        rel = str(f.relative_to(src / "deephyper"))
        v = _FileScan(rel, trees[f], rng_funcs)
        v.visit(trees[f])
        sites.extend(v.sites)
    sites.extend(_state_ownership(trees, src))
    sites.extend(_process_state(trees, src))
    # one row per (file, line, col, kind)
    uniq = {}
    for s in sites:
        uniq.setdefault(s.key(), s)
    sites = sorted(uniq.values(), key=lambda s: (s.file, s.line, s.col, s.kind))
    problems += classify(sites, src, extra_rules)
    return Scan(str(src), sorted(str(f.relative_to(src / "deephyper")) for f in trees), sites, rng_funcs, problems)


def _lstr(s: str) -> str:
    return '"' + s.replace("\\", "\\\\").replace('"', '\\"').replace("\n", " ") + '"'


def render_lean(sc: Scan) -> str:
    lines = [
        "import Model.Streams",
        "",
        "/-! GENERATED by harness/rng_scan.py on every `./check C07` run from the Python sources of the",
        "search stack — do not edit.  One row per random-draw / hidden-input site. -/",
        "",
        "namespace DH.Streams.Gen",
        "open DH.Streams",
        "",
        f"def nFiles : Nat := {len(sc.files)}",
        "",
        "def sites : List Site := [",
    ]
    rows = []
    for i, s in enumerate(sc.sites):
        stream = f".seeded {i}" if s.stream == "seeded" else f".{s.stream}"
        if s.reach == "live":
            conds = "[" + ", ".join(f"({_lstr(k)}, [" + ", ".join(_lstr(_optval(v)) for v in vs) + "])" for k, vs in s.conds) + "]"
            reach = f".live {conds}"
        else:
            reach = f".{s.reach}"
        rows.append(
            f"  {{ id := {i}, file := {_lstr(s.file)}, line := {s.line}, func := {_lstr(s.func)}, kind := {_lstr(s.kind)},\n"
            f"    text := {_lstr(s.text)}, stream := {stream}, reach := {reach},\n"
            f"    why := {_lstr(s.why)} }}"
        )
    lines.append(",\n".join(rows))
    lines += ["]", "", "end DH.Streams.Gen", ""]
    return "\n".join(lines)


def _optval(v):
    if v is True:
        return "true"
    if v is False:
        return "false"
    return str(v)


def summary(sc: Scan):
    by = {}
    for s in sc.sites:
        by[(s.kind, s.stream, s.reach)] = by.get((s.kind, s.stream, s.reach), 0) + 1
    return by


if __name__ == "__main__":  # pragma: no cover
    import sys

    root = sys.argv[1] if len(sys.argv) > 1 else "/repo/src"
    sc = scan(root)
    print(f"{len(sc.files)} files, {len(sc.sites)} sites")
    for s in sc.sites:
        if "-v" in sys.argv or (s.reach == "live" and not s.seeded) or "-a" in sys.argv:
            print(f"{s.file}:{s.line} [{s.func}] {s.kind} {s.stream} {s.reach}{s.conds or ''} :: {s.text}  -- {s.why or s.detail}")
    for p in sc.problems:
        print("NOTE", p)
    for k, v in sorted(summary(sc).items()):
        print(v, *k)
