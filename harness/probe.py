"""Line-coverage probe over the property's anchored source files (Python 3.12 sys.monitoring).

Purpose: the correspondence check is differential testing, so generator quality bounds what it sees.
Every ./check run records which lines of the files the property is anchored in (properties.jsonl,
anchors.files) were executed IN THIS PROCESS while the harness drove the real code, and the evidence
file reports, per file, executed / executable lines and the functions that were never entered.
Worker processes of pools and subprocesses are not observed (said so in the evidence).  Overhead is
negligible: every line event disables itself after its first hit.
"""
import json
import sys
from pathlib import Path

TOOL = 3  # a free tool id (0 debugger, 1 coverage, 2 profiler by convention)


def anchor_files(verif: Path, repo: Path, prop: str):
    for line in (verif / "properties.jsonl").read_text().splitlines():
        p = json.loads(line)
        if p["id"] != prop:
            continue
        out = []
        for f in p["anchors"]["files"]:
            q = repo / f
            if q.is_dir():
                out += sorted(x for x in q.rglob("*.py"))
            elif q.exists():
                out.append(q)
        return [str(x.resolve()) for x in out]
    return []


class Probe:
    def __init__(self, files):
        self.files = set(files)
        self.hits = {f: set() for f in files}
        self.active = False

    def start(self):
        mon = getattr(sys, "monitoring", None)
        if mon is None or not self.files:
            return self
        try:
            mon.use_tool_id(TOOL, "verif-probe")
        except ValueError:
            return self
        ev = mon.events

        def on_line(code, line):
            h = self.hits.get(code.co_filename)
            if h is not None:
                h.add(line)
            return mon.DISABLE

        mon.register_callback(TOOL, ev.LINE, on_line)
        mon.set_events(TOOL, ev.LINE)
        self.active = True
        return self

    def stop(self):
        if not self.active:
            return
        mon = sys.monitoring
        mon.set_events(TOOL, 0)
        mon.register_callback(TOOL, mon.events.LINE, None)
        mon.free_tool_id(TOOL)
        self.active = False

    @staticmethod
    def _executable(path):
        """executable lines and function spans of a source file"""
        import ast

        src = Path(path).read_text()
        lines = set()

        def walk(code):
            for _, _, ln in code.co_lines():
                if ln is not None:
                    lines.add(ln)
            for c in code.co_consts:
                if hasattr(c, "co_lines"):
                    walk(c)

        try:
            walk(compile(src, path, "exec"))
        except SyntaxError:
            return set(), []
        funcs = []
        for n in ast.walk(ast.parse(src)):
            if isinstance(n, (ast.FunctionDef, ast.AsyncFunctionDef)):
                funcs.append((n.name, n.lineno, n.end_lineno))
        return lines, funcs

    def summary(self, repo: Path):
        out = {}
        for f in sorted(self.files):
            ex, funcs = self._executable(f)
            hit = self.hits.get(f, set()) & ex if ex else self.hits.get(f, set())
            never = [name for name, a, b in funcs if not any(a < l <= b for l in hit)]
            rel = str(Path(f).relative_to(repo)) if str(f).startswith(str(repo)) else f
            out[rel] = {
                "executed_lines": len(hit),
                "executable_lines": len(ex),
                "pct": round(100.0 * len(hit) / max(1, len(ex)), 1),
                "functions_never_entered": never[:40],
            }
        return out
