"""C17 — Queued evaluators never share a resource between concurrent jobs.

L2: `queued(SerialEvaluator)` under the virtual-time loop (every completion order of <= 4/5 jobs via
    permuted durations, plus random waves) and `queued(ThreadPoolEvaluator)` (per-job events released
    by a director thread in random priority order).  `evaluator.queue` (a public attribute) is replaced
    by a logging deque and the run-function logs (start, job, dequed) / (end, job): the real trace
    take / start / end / release is replayed step by step by `Model/Queued.lean`, which must find every
    step enabled and produce the same popped resources, the same `dequed` argument, the same metadata
    and the same queue contents.
L3: the property on the real trace: concurrent evaluations received disjoint resources, each received
    exactly queue_pop_per_task of them, metadata names them, everything is back in the queue at the end,
    no call raises and every submitted job is returned.
"""
import asyncio
import collections
import itertools
import json
import threading
import time

from . import common, vloop

Q = vloop.QUANTUM
PROP = "C17"

_LOG = []
_LOCK = threading.Lock()
_REG = {}


def _log(*e):
    with _LOCK:
        _LOG.append(e)


def _jid(job_id):
    return int(str(job_id).split(".")[-1])


async def run_serial(job, dequed=None):
    _log("start", _jid(job.id), None if dequed is None else list(dequed))
    await asyncio.sleep(job.parameters["d"])
    _log("end", _jid(job.id))
    return 1.0


def run_thread(job, dequed=None):
    j = _jid(job.id)
    r = _REG.get(j)
    _log("start", j, None if dequed is None else list(dequed))
    if r is not None:
        r["entered"].set()
        r["release"].wait(60)
    _log("end", j)
    if r is not None:
        r["finished"].set()
    return 1.0


class LogDeque(collections.deque):
    """the evaluator's `queue`, recording every popleft / extend with the contents afterwards"""

    def popleft(self):
        v = super().popleft()
        _log("pop", v, list(self))
        return v

    def extend(self, it):
        it = list(it)
        super().extend(it)
        _log("extend", it, list(self))


class Deadlock(Exception):
    pass


def _guard_vloop():
    """a serial evaluator's loop with nothing ready and no timer can never wake up again"""
    orig = vloop.VLoop._run_once

    def _run_once(self):
        if not self._ready and not self._scheduled:
            raise Deadlock("event loop idle for ever: every remaining job is blocked")
        return orig(self)

    vloop.VLoop._run_once = _run_once
    return orig


# --------------------------------------------------------------------------- real run


def drive(case, vt):
    """-> dict(log, metas, returned, error, final_queue)"""
    from deephyper.evaluator import SerialEvaluator, ThreadPoolEvaluator, queued

    global _REG
    backend = case["backend"]
    base = SerialEvaluator if backend == "serial" else ThreadPoolEvaluator
    fn = run_serial if backend == "serial" else run_thread
    with _LOCK:
        _LOG.clear()
    _REG = {}
    if vt is not None:
        vt.reset()
    res = {"log": None, "metas": {}, "returned": [], "error": None, "final_queue": None, "where": None}
    try:
        ev = queued(base)(fn, num_workers=case["workers"], queue=list(case["queue"]), queue_pop_per_task=case["pop"])
    except Exception as e:
        res.update(error=f"{type(e).__name__}: {e}", where="constructor", log=[])
        return res
    ev.queue = LogDeque(ev.queue)
    prio, stop_all = {}, threading.Event()

    def director(stop):
        last_progress = time.time()
        while not stop.is_set():
            cand = [j for j, r in _REG.items() if r["entered"].is_set() and not r["release"].is_set()]
            if not cand:
                if time.time() - last_progress > 20 and ev.loop is not None:  # nothing runs, nothing returns
                    ev.loop.call_soon_threadsafe(ev.loop.stop)
                    return
                time.sleep(0.0003)
                continue
            cand.sort(key=lambda j: prio.get(j, 0))
            j = cand[0]
            _REG[j]["release"].set()
            _REG[j]["finished"].wait(10)
            last_progress = time.time()

    nsub = 0
    try:
        waves = case["waves"] + [{"jobs": [], "then": {"kind": "all"}}]
        for w in waves:
            if w["jobs"]:
                for t, jb in enumerate(w["jobs"]):
                    if backend == "thread":
                        _REG[nsub + t] = {"entered": threading.Event(), "release": threading.Event(), "finished": threading.Event()}
                        prio[nsub + t] = jb.get("prio", 0)
                _log("submit", len(w["jobs"]))
                res["where"] = "submit"
                ev.submit([{"d": jb["d"]} for jb in w["jobs"]])
                nsub += len(w["jobs"])
            th = w["then"]
            if th["kind"] == "none":
                continue
            stop, t = threading.Event(), None
            if backend == "thread":
                t = threading.Thread(target=director, args=(stop,), daemon=True)
                t.start()
            try:
                res["where"] = "gather"
                jobs = ev.gather("ALL") if th["kind"] == "all" else ev.gather("BATCH", th["k"])
            finally:
                stop.set()
                if t is not None:
                    t.join(30)
            if isinstance(jobs, tuple):
                jobs = jobs[0]
            for jb in jobs:
                res["returned"].append(_jid(jb.id))
                res["metas"][_jid(jb.id)] = jb.metadata.get("dequed")
    except Exception as e:
        res["error"] = f"{type(e).__name__}: {e}"
    else:
        res["where"] = None
    finally:
        for r in _REG.values():
            r["release"].set()
        try:
            res["final_queue"] = list(ev.queue)
        except Exception:
            pass
        try:
            ev.close()
        except Exception:
            pass
        ex = getattr(ev, "executor", None)
        if ex is not None:
            ex.shutdown(wait=True)
    with _LOCK:
        res["log"] = [list(e) for e in _LOG]
    res["nsub"] = nsub
    return res


# --------------------------------------------------------------------------- L3 oracle on the raw trace


def _parse_meta(m):
    if m is None:
        return None
    return [int(x) for x in m.split(",")] if m != "" else []


def oracle(case, res):
    """[(clause, detail)] in order of severity"""
    bad = []
    log, pop = res["log"], case["pop"]
    if res["error"] is not None:
        bad.append(("progress", f"{res['where']} raised {res['error']}"))
    running = {}  # job -> recv
    recv_of = {}
    for e in log:
        if e[0] == "start":
            j, recv = e[1], e[2]
            recv_of[j] = recv
            if recv is None or len(recv) != pop:
                bad.append(("count", f"job {j} received {recv}, queue_pop_per_task={pop}"))
            for k, other in running.items():
                if recv is not None and other is not None and set(recv) & set(other):
                    bad.append(("exclusive", f"jobs {k} and {j} run at the same time with resources {other} and {recv}"))
            running[j] = recv
        elif e[0] == "end":
            running.pop(e[1], None)
    for j, m in sorted(res["metas"].items()):
        if j in recv_of and _parse_meta(m) != recv_of[j]:
            bad.append(("metadata", f"job {j}: metadata dequed={m!r} but the run-function received {recv_of[j]}"))
    if res["error"] is None:
        missing = sorted(set(range(res["nsub"])) - set(res["returned"]))
        if missing or len(res["returned"]) != len(set(res["returned"])):
            bad.append(("progress", f"jobs {missing} never returned (returned {res['returned']})"))
        elif sorted(res["final_queue"]) != sorted(case["queue"]):
            bad.append(("returned", f"queue at the end {res['final_queue']}, initially {case['queue']}"))
    order = {"progress": 1, "exclusive": 0, "count": 2, "metadata": 3, "returned": 4}
    bad.sort(key=lambda b: order[b[0]])
    return bad


def _preds(case):
    total = sum(len(w["jobs"]) for w in case["waves"])
    return {"jobs>workers": any(len(w["jobs"]) > case["workers"] for w in case["waves"]),
            "jobs*pop>queue": total * case["pop"] > len(case["queue"])}


def _neutralise(case, pred):
    c = json.loads(json.dumps(case))
    if pred == "jobs>workers":
        c["workers"] = max(len(w["jobs"]) for w in c["waves"])
    else:
        total = sum(len(w["jobs"]) for w in c["waves"])
        c["queue"] = c["queue"] + [max(c["queue"]) + 1 + i for i in range(total * c["pop"] - len(c["queue"]))]
    return c


_NEEDED = {}  # (clause, predicates that hold) -> predicates the failure needs (probed once per class)


def fingerprint(case, clause, vt=None):
    """property | oracle clause | call site | the input-class predicates the failure NEEDS: a predicate
    that holds in the (shrunk) case is listed only if making it false makes this clause pass"""
    holding = tuple(p for p, h in _preds(case).items() if h)
    key = (clause, holding)
    if key not in _NEEDED:
        needed = []
        for pred in holding:
            variant = _neutralise(case, pred)
            res = drive(variant, vt if case["backend"] == "serial" else None)
            if not any(b[0] == clause for b in oracle(variant, res)):
                needed.append(pred)
        _NEEDED[key] = needed
    return f"{PROP}|{clause}|queued(Evaluator).execute|{','.join(_NEEDED[key]) or 'any'}"


# --------------------------------------------------------------------------- L2: trace -> model steps


def extract_steps(case, res):
    """the real trace as model steps with the observation expected from the model; None + reason
    when the trace cannot be attributed (treated as a correspondence failure, not a harness error)"""
    pop = case["pop"]
    ev = []  # [kind, payload...]
    group = []
    for e in res["log"]:
        if e[0] == "pop":
            group.append(e)
            if len(group) == pop:
                ev.append({"op": "take", "ds": [g[1] for g in group], "queue": group[-1][2]})
                group = []
        elif e[0] == "extend":
            ev.append({"op": "release", "ds": e[1], "queue": e[2]})
        elif e[0] == "submit":
            ev.append({"op": "submit", "n": e[1]})
        elif e[0] == "start":
            ev.append({"op": "start", "j": e[1], "recv": e[2]})
        else:
            ev.append({"op": "end", "j": e[1]})
    if group:
        return None, "incomplete group of pops"
    metas = {j: _parse_meta(m) for j, m in res["metas"].items()}
    start_pos = {e["j"]: i for i, e in enumerate(ev) if e["op"] == "start"}
    end_pos = {e["j"]: i for i, e in enumerate(ev) if e["op"] == "end"}
    matched = set()
    holder = {}
    for i, e in enumerate(ev):
        if e["op"] == "take":
            cand = [j for j, m in metas.items() if m == e["ds"] and j not in matched and start_pos.get(j, -1) > i]
            if not cand:
                return None, f"no job can be attributed to the take of {e['ds']}"
            j = min(cand, key=lambda j: start_pos[j])
            matched.add(j)
            e["j"] = j
            holder[j] = e["ds"]
    released = set()
    for i, e in enumerate(ev):
        if e["op"] == "release":
            cand = [j for j, ds in holder.items() if ds == e["ds"] and j not in released and end_pos.get(j, 10 ** 9) < i]
            if not cand:
                return None, f"no job can be attributed to the return of {e['ds']}"
            j = min(cand, key=lambda j: end_pos[j])
            released.add(j)
            e["j"] = j
            e["meta"] = metas[j]
    return ev, None


def lean_requests(case, steps, pre=False):
    reqs = [{"op": "init", "queue": case["queue"], "pop": case["pop"], "workers": case["workers"], "pre": pre}]
    for e in steps:
        if e["op"] == "submit":
            reqs.append({"op": "submit", "n": e["n"]})
        else:
            reqs.append({"op": e["op"], "j": e["j"]})
    return reqs


def compare(case, res, steps, reps):
    for i, (e, rep) in enumerate(zip(steps, reps[1:])):
        if not rep["enabled"]:
            return {"step": i, "event": e, "what": "the model cannot take this step here (guard false)", "model_queue": rep["queue"]}
        if e["op"] == "take" and (rep["ds"] != e["ds"] or rep["queue"] != e["queue"]):
            return {"step": i, "event": e, "model": {"ds": rep["ds"], "queue": rep["queue"]}}
        if e["op"] == "start" and rep["recv"] != e["recv"]:
            return {"step": i, "event": e, "model": {"recv": rep["recv"]}}
        if e["op"] == "release" and (rep["meta"] != e["meta"] or rep["queue"] != e["queue"]):
            return {"step": i, "event": e, "model": {"meta": rep["meta"], "queue": rep["queue"]}}
    last = reps[-1]
    if last["measure"] != 0:
        return {"step": len(steps), "what": "model: some job did not finish", "measure": last["measure"]}
    if last["queue"] != res["final_queue"]:
        return {"step": len(steps), "what": "final queue", "impl": res["final_queue"], "model": last["queue"]}
    return None


# --------------------------------------------------------------------------- generator


def _then(rng, n_inflight):
    r = rng.random()
    if r < 0.45:
        return {"kind": "none"}
    if r < 0.8:
        return {"kind": "batch", "k": rng.randint(1, max(1, min(3, n_inflight)))}
    return {"kind": "all"}


def gen_cases(ck):
    rng = ck.rng
    # (a) serial: one wave of n jobs, every completion order through permuted durations
    nmax = ck.pick(4, 5)
    for n in range(1, nmax + 1):
        perms = list(itertools.permutations(range(1, n + 1)))
        for perm in perms:
            for _ in range(ck.pick(2, 3) if n <= 3 else 1):
                qn = rng.randint(1, 6)
                pop = rng.choice([1, 1, 2]) if qn >= 2 else 1
                yield {"backend": "serial", "queue": [10 + i for i in range(qn)], "pop": pop, "workers": rng.randint(1, 3),
                       "waves": [{"jobs": [{"d": 2 * r * Q} for r in perm], "then": {"kind": "none"}}], "kind": "perm"}
    # (b) serial: random waves, ties in the durations
    for _ in range(ck.pick(500, 8000)):
        qn = rng.randint(1, 6)
        pop = rng.choice([1, 1, 2]) if qn >= 2 else 1
        total = rng.randint(1, 8)
        waves, left = [], total
        while left > 0:
            n = rng.randint(1, left) if rng.random() < 0.6 else left
            left -= n
            waves.append({"jobs": [{"d": rng.choice([0, 1, 1, 2, 2, 3, 5]) * Q} for _ in range(n)], "then": _then(rng, n)})
        yield {"backend": "serial", "queue": [10 + i for i in range(qn)], "pop": pop, "workers": rng.randint(1, 3),
               "waves": waves, "kind": "waves"}
    # (c) thread backend, random release priorities
    for _ in range(ck.pick(100, 1200)):
        qn = rng.randint(1, 6)
        pop = rng.choice([1, 1, 2]) if qn >= 2 else 1
        total = rng.randint(1, 8)
        waves, left = [], total
        while left > 0:
            n = rng.randint(1, left) if rng.random() < 0.6 else left
            left -= n
            waves.append({"jobs": [{"d": 0, "prio": rng.randint(0, 9)} for _ in range(n)], "then": _then(rng, n)})
        yield {"backend": "thread", "queue": [10 + i for i in range(qn)], "pop": pop, "workers": rng.randint(1, 3),
               "waves": waves, "kind": "thread"}


# --------------------------------------------------------------------------- shrinking


def _same(case, vt, clause):
    res = drive(case, vt)
    bad = oracle(case, res)
    return bool(bad) and bad[0][0] == clause, (res, bad)


def shrink(case, vt, clause, budget=60):
    cur = json.loads(json.dumps(case))
    tries, changed = 0, True

    def cands(c):
        for wi, w in enumerate(c["waves"]):
            if len(c["waves"]) > 1:
                d = json.loads(json.dumps(c))
                del d["waves"][wi]
                yield d
            if len(w["jobs"]) > 1:
                d = json.loads(json.dumps(c))
                d["waves"][wi]["jobs"].pop()
                yield d
            if w["then"]["kind"] != "none":
                d = json.loads(json.dumps(c))
                d["waves"][wi]["then"] = {"kind": "none"}
                yield d
        if len(c["queue"]) > c["pop"]:
            d = json.loads(json.dumps(c))
            d["queue"].pop()
            yield d
        if c["pop"] > 1:
            d = json.loads(json.dumps(c))
            d["pop"] -= 1
            yield d
        if c["workers"] > 1:
            d = json.loads(json.dumps(c))
            d["workers"] -= 1
            yield d

    while changed and tries < budget:
        changed = False
        for d in cands(cur):
            tries += 1
            ok, _ = _same(d, vt, clause)
            if ok:
                cur, changed = d, True
                break
            if tries >= budget:
                break
    return cur


# --------------------------------------------------------------------------- run


def check_case(ck, d, case, vt, from_corpus=False):
    res = drive(case, vt)
    total = sum(len(w["jobs"]) for w in case["waves"])
    ck.count("backend:" + case["backend"])
    ck.count(f"queue={len(case['queue'])},pop={case['pop']}")
    ck.count(f"workers={case['workers']}")
    ck.count(f"jobs={total}")
    ck.count(f"waves={len(case['waves'])}")
    if total * case["pop"] > len(case["queue"]):
        ck.count("demand-exceeds-queue")
    if any(len(w["jobs"]) > case["workers"] for w in case["waves"]):
        ck.count("wave-larger-than-workers")
    conc = cur = 0
    for e in res["log"]:
        if e[0] == "start":
            cur += 1
            conc = max(conc, cur)
        elif e[0] == "end":
            cur -= 1
    ck.count(f"max-concurrent={conc}")
    ck.case({k: case[k] for k in ("backend", "queue", "pop", "workers", "waves")}, nontrivial=total >= 2 and conc >= 1)
    order = tuple(e[1] for e in res["log"] if e[0] == "end")
    ck.extra_cov.setdefault("_orders", set()).add((case["backend"], total, order))
    bad = oracle(case, res)
    if bad:
        clause, detail = bad[0]
        small = case
        seen = ck.extra_cov.setdefault("_shrunk", {})
        seen[clause] = seen.get(clause, 0) + 1
        # shrink the first few failing scenarios of every clause (thread backend: the first one)
        if not from_corpus and seen[clause] <= (8 if case["backend"] == "serial" else 1):
            use_vt = vt if case["backend"] == "serial" else None
            small = shrink(case, use_vt, clause)
            ok, (res2, bad2) = _same(small, use_vt, clause)
            if ok:
                clause, detail = bad2[0]
            else:
                small = case
        fp = fingerprint(small, clause, vt)
        ck.fail(fp, f"{clause}: {detail}", small, {"clause": clause, "detail": detail, "all": sorted({b[0] for b in bad})})
    mm = None
    if res["error"] is None:
        steps, why = extract_steps(case, res)
        if steps is None:
            mm = {"what": "trace cannot be replayed: " + why}
        else:
            reps = d.ask_all(lean_requests(case, steps))
            mm = compare(case, res, steps, reps)
            for e in steps:
                ck.count("step:" + e["op"])
    else:
        mm = {"what": "the implementation raised: " + res["error"]}
    if mm is not None:
        ck.mismatch(case, mm)
    return bad, mm


def _corpus():
    d = common.VERIF / "corpus" / PROP
    return [(f.name, json.loads(f.read_text())["case"]) for f in sorted(d.glob("*.json"))] if d.is_dir() else []


def run(ck):
    import warnings

    warnings.simplefilter("ignore")
    _NEEDED.clear()
    ck.rule = ("queued(SerialEvaluator) on a virtual clock: one wave of n<=4 (quick) / 5 (thorough) jobs in every order of "
               "durations x random (queue 1..6, pop 1..2, workers 1..3), plus random waves of 1..8 jobs with ties and "
               "BATCH/ALL gathers between waves; queued(ThreadPoolEvaluator) with per-job events released by random "
               "priority; distinct by canonical case; non-trivial = >= 2 jobs")
    ck.assumptions = [
        "resources of the initial queue are pairwise distinct (the theorems' hypothesis q0.Nodup)",
        "queue_pop_per_task <= len(queue) (otherwise no job can ever run; the repaired constructor rejects it)",
        "asyncio runs each evaluation in its own task, a task has its own contextvars context",
        "cancellation by close() is outside this property's quantifier",
    ]
    ck.trusted_extra = [
        "asyncio scheduling and the worker semaphore (abstracted into the guards of `take` / `start`)",
        "harness shims: virtual-time loop, logging deque installed as evaluator.queue, director thread",
    ]
    with ck.driver() as d:
        vt = vloop.install()
        orig = _guard_vloop()
        try:
            for name, case in _corpus():
                ck.count("corpus")
                if case["backend"] == "serial":
                    check_case(ck, d, case, vt, from_corpus=True)
            thread_cases = []
            for case in gen_cases(ck):
                if case["backend"] == "serial":
                    check_case(ck, d, case, vt)
                else:
                    thread_cases.append(case)
        finally:
            vloop.VLoop._run_once = orig
            vloop.uninstall()
        for name, case in _corpus():
            if case["backend"] != "serial":
                check_case(ck, d, case, None, from_corpus=True)
        for case in thread_cases:
            check_case(ck, d, case, None)
    ck.extra_cov.pop("_shrunk", None)
    orders = ck.extra_cov.pop("_orders", set())
    ck.extra_cov["distinct_completion_orders"] = len(orders)


def replay(ck, case):
    vt = vloop.install() if case["backend"] == "serial" else None
    orig = _guard_vloop()
    try:
        with ck.driver() as d:
            bad, mm = check_case(ck, d, case, vt, from_corpus=True)
    finally:
        vloop.VLoop._run_once = orig
        vloop.uninstall()
    ck.extra_cov.pop("_orders", None)
    ck.extra_cov.pop("_shrunk", None)
    print("replay: oracle failures:", bad or "none", "| model mismatch:", mm or "none")
