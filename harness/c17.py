"""C17 — Queued evaluators never share a resource between concurrent jobs.

L2: `queued(SerialEvaluator)` under the virtual-time loop (every completion order of <= 4/5 jobs via
    permuted durations, plus random waves) and `queued(ThreadPoolEvaluator)` (per-job events released
    by a director thread in random priority order).  `evaluator.queue` (a public attribute) is replaced
    by a logging deque and the run-function logs (start, job, dequed) / (end, job): the real trace
    take / start / end / release is replayed step by step by `Model/Queued.lean`, which must find every
    step enabled and produce the same popped resources, the same `dequed` argument, the same metadata
    and the same queue contents.
    Scenarios with `close()` while jobs wait for resources / hold resources and wait for a worker / run /
    have finished ungathered, with an evaluator timeout set, and reuse (submit + gather) afterwards: the
    model's `cancel` transitions must reproduce the queue after every returned resource and after close().
L3: the property on the real trace (after close() the queue holds every resource again; progress afterwards): concurrent evaluations received disjoint resources, each received
    exactly queue_pop_per_task of them, metadata names them, everything is back in the queue at the end,
    no call raises and every submitted job is returned.
"""
import asyncio
import collections
import contextlib
import contextvars
import io
import itertools
import json
import threading
import time

from . import common, vloop

Q = vloop.QUANTUM
PROP = "C17"

_LOG = []
_LOCK = threading.Lock()
_REG = {}
_CUR = contextvars.ContextVar("c17_current_job", default=None)  # job whose execute() the current task runs


def _log(*e):
    with _LOCK:
        _LOG.append(e)


def _jid(job_id):
    return int(str(job_id).split(".")[-1])


async def run_serial(job, dequed=None):
    _log("start", _jid(job.id), None if dequed is None else list(dequed))
    await asyncio.sleep(job.parameters["d"])
    _log("end", _jid(job.id))
    return 1.0


_INUSE = {}  # resource -> job whose run-function is running with it right now (real time)


def run_thread(job, dequed=None):
    j = _jid(job.id)
    r = _REG.get(j)
    with _LOCK:
        _LOG.append(("start", j, None if dequed is None else list(dequed)))
        for res in dequed or []:
            other = _INUSE.get(res)
            if other is not None and other in _REG:
                _REG[other]["release"].set()  # already a violation in the log: no need to keep holding
            _INUSE[res] = j
    if r is not None:
        r["entered"].set()
        # a run-function that does not look at its job's status: it keeps its resources until it returns
        r["release"].wait(r.get("hold") or 60)
    with _LOCK:
        _LOG.append(("end", j))
        for res in dequed or []:
            if _INUSE.get(res) == j:
                del _INUSE[res]
    if r is not None:
        r["finished"].set()
    return 1.0


class LogDeque(collections.deque):
    """the evaluator's `queue`, recording every popleft / extend with the contents afterwards and the
    job on whose behalf it happens"""

    def popleft(self):
        v = super().popleft()
        _log("pop", v, list(self), _CUR.get())
        return v

    def extend(self, it):
        it = list(it)
        super().extend(it)
        _log("extend", it, list(self), _CUR.get())


def _observed(cls):
    """the queued class with `execute` (the public per-backend hook) announcing its job to the deque"""

    class Observed(cls):
        async def execute(self, job):
            _CUR.set(_jid(job.id))
            return await super().execute(job)

    return Observed


class Deadlock(Exception):
    pass


_ITER_MAX, _ITER_LAST = [0], [0]


def _guard_vloop():
    """a serial evaluator's loop with nothing ready and no timer can never wake up again"""
    orig = vloop.VLoop._run_once

    def _run_once(self):
        # cancelled timers at the head of the heap do not count (the loop would pop them and then block in
        # select() for ever): purge them first, exactly as vloop.VLoop._run_once does
        import heapq

        while self._scheduled and self._scheduled[0]._cancelled:
            h = heapq.heappop(self._scheduled)
            h._scheduled = False
            self._timer_cancelled_count -= 1
        if not self._ready and not self._scheduled:
            raise Deadlock("event loop idle for ever: every remaining job is blocked")
        return orig(self)

    vloop.VLoop._run_once = _run_once
    return orig


def _actions(w):
    th = w.get("then", {"kind": "none"})
    return th if isinstance(th, list) else [th]


# --------------------------------------------------------------------------- real run


def drive(case, vt):
    """-> dict(log, metas (job -> metadata['dequed'] or None), returned, error, final_queue, nsub)"""
    from deephyper.evaluator import SerialEvaluator, ThreadPoolEvaluator, queued

    global _REG
    backend = case["backend"]
    base = SerialEvaluator if backend == "serial" else ThreadPoolEvaluator
    fn = run_serial if backend == "serial" else run_thread
    with _LOCK:
        _LOG.clear()
        _INUSE.clear()
    _REG = {}
    if vt is not None:
        vt.reset()
        _ITER_MAX[0] = max(_ITER_MAX[0], _ITER_LAST[0])
        # scenarios here have <= a few dozen jobs and need a few thousand loop iterations; a tree whose gather
        # live-locks (busy re-waiting on a finished task while the rest is blocked for ever) must not cost the
        # default 5 million iterations per scenario
        vt.max_iterations = 20_000
    res = {"log": None, "metas": {}, "returned": [], "error": None, "final_queue": None, "where": None, "nsub": 0}
    try:
        ev = _observed(queued(base))(fn, num_workers=case["workers"], queue=list(case["queue"]),
                                     queue_pop_per_task=case["pop"])
    except Exception as e:
        res.update(error=f"{type(e).__name__}: {e}", where="constructor", log=[])
        return res
    ev.queue = LogDeque(ev.queue)
    prio = {}

    def director(stop):
        last_progress = time.time()
        while not stop.is_set():
            cand = [j for j, r in _REG.items() if r["entered"].is_set() and not r["release"].is_set() and not r.get("hold")]
            if not cand:
                if time.time() - last_progress > 8 and ev.loop is not None:  # nothing runs, nothing returns
                    ev.loop.call_soon_threadsafe(ev.loop.stop)
                    return
                time.sleep(0.0003)
                continue
            cand.sort(key=lambda j: prio.get(j, 0))
            j = cand[0]
            _REG[j]["release"].set()
            _REG[j]["finished"].wait(10)
            last_progress = time.time()

    nsub = 0
    try:
        waves = case["waves"] + [{"jobs": [], "then": {"kind": "all"}}]
        for w in waves:
            if w["jobs"]:
                if w.get("timeout") is not None:
                    ev.timeout = w["timeout"]  # expiry does not cancel the task: the job waits for its run-function
                for t, jb in enumerate(w["jobs"]):
                    if backend == "thread":
                        _REG[nsub + t] = {"entered": threading.Event(), "release": threading.Event(), "finished": threading.Event(),
                                          "hold": jb.get("hold")}
                        prio[nsub + t] = jb.get("prio", 0)
                _log("submit", len(w["jobs"]))
                res["where"] = "submit"
                ev.submit([{"d": jb["d"]} for jb in w["jobs"]])
                nsub += len(w["jobs"])
                res["nsub"] = nsub
            for th in _actions(w):
                if th["kind"] == "none":
                    continue
                if th["kind"] == "close":
                    res["where"] = "close"
                    _log("close")
                    ev.close()
                    _log("closed", list(ev.queue))
                    for r in _REG.values():  # free the worker threads of the cancelled evaluations
                        r["release"].set()
                    continue
                stop, t = threading.Event(), None
                if backend == "thread":
                    t = threading.Thread(target=director, args=(stop,), daemon=True)
                    t.start()
                try:
                    res["where"] = "gather"
                    with contextlib.redirect_stdout(io.StringIO()):  # the code prints storage records
                        jobs = ev.gather("ALL") if th["kind"] == "all" else ev.gather("BATCH", th["k"])
                finally:
                    stop.set()
                    if t is not None:
                        t.join(30)
                if isinstance(jobs, tuple):
                    jobs = jobs[0]
                for jb in jobs:
                    res["returned"].append(_jid(jb.id))
    except Exception as e:
        res["error"] = f"{type(e).__name__}: {e}"
    else:
        res["where"] = None
    finally:
        for r in _REG.values():
            r["release"].set()
        try:
            res["final_queue"] = list(ev.queue)
            for jb in ev.jobs:  # public list of every job ever submitted
                res["metas"][_jid(jb.id)] = jb.metadata.get("dequed")
        except Exception:
            pass
        try:
            ev.close()
        except Exception:
            pass
        ex = getattr(ev, "executor", None)
        if ex is not None:
            ex.shutdown(wait=True)
    if vt is not None:
        _ITER_LAST[0] = vt.iterations
        _ITER_MAX[0] = max(_ITER_MAX[0], vt.iterations)
    with _LOCK:
        res["log"] = [list(e) for e in _LOG]
    return res


# --------------------------------------------------------------------------- the trace, job by job


def _parse_meta(m):
    if m is None:
        return None
    return [int(x) for x in m.split(",")] if m != "" else []


def extract_steps(case, res):
    """the real trace as model steps, each with the observation the model has to reproduce; also the
    phase of every job at each close().  (None, reason) when the trace does not follow the life cycle
    of a job at all (reported as a correspondence failure, not a harness error)"""
    pop = case["pop"]
    metas = {j: _parse_meta(m) for j, m in res["metas"].items()}
    st, group, steps, closes, zombies = {}, {}, [], [], []
    n = 0
    for e in res["log"]:
        k = e[0]
        if k == "submit":
            steps.append({"op": "submit", "n": e[1]})
            for j in range(n, n + e[1]):
                st[j] = "created"
            n += e[1]
        elif k == "pop":
            v, q, j = e[1], e[2], e[3]
            if j is None or st.get(j) != "created":
                return None, f"a resource is popped for job {j} in phase {st.get(j)}"
            group.setdefault(j, []).append(v)
            if len(group[j]) == pop:
                steps.append({"op": "take", "j": j, "ds": group.pop(j), "queue": q})
                st[j] = "holding"
        elif k == "start":
            j = e[1]
            if st.get(j) == "cancelled":
                # thread backend: the pool starts a call whose evaluation was cancelled by close() earlier
                # (with a timeout set the executor future is shielded and cannot be withdrawn); it is no
                # longer an evaluation of the evaluator — its resources were returned at the cancellation
                zombies.append(j)
                continue
            if st.get(j) != "holding" and not (pop == 0 and st.get(j) == "created"):
                return None, f"the run-function of job {j} starts in phase {st.get(j)}"
            steps.append({"op": "start", "j": j, "recv": e[2]})
            st[j] = "running"
        elif k == "end":
            j = e[1]
            if st.get(j) == "cancelled":
                continue  # a cancelled evaluation whose thread / shielded coroutine ran on
            if st.get(j) != "running":
                return None, f"the run-function of job {j} ends in phase {st.get(j)}"
            steps.append({"op": "end", "j": j})
            st[j] = "returning"
        elif k == "extend":
            vs, q, j = e[1], e[2], e[3]
            if j is None or st.get(j) not in ("holding", "running", "returning"):
                return None, f"resources {vs} are returned for job {j} in phase {st.get(j)}"
            if st[j] == "returning" and metas.get(j) is not None:
                steps.append({"op": "release", "j": j, "meta": metas[j], "queue": q})
                st[j] = "finished"
            else:
                steps.append({"op": "cancel", "j": j, "queue": q, "phase": st[j]})
                st[j] = "cancelled"
        elif k == "close":
            closes.append({"phases": {}, "cancelled": []})
            for j, ph in st.items():
                if ph not in ("finished", "cancelled"):
                    closes[-1]["phases"][ph] = closes[-1]["phases"].get(ph, 0) + 1
                    closes[-1]["cancelled"].append(j)
        elif k == "closed":
            # whatever is not done after close() was cancelled; nothing of it touched the queue any more
            for j in sorted(st):
                if st[j] not in ("finished", "cancelled"):
                    steps.append({"op": "cancel", "j": j, "phase": st[j]})
                    st[j] = "cancelled"
            steps.append({"op": "closed", "queue": e[1]})
    if group:
        return None, f"incomplete pops {group}"
    return (steps, closes, zombies), None


def lean_requests(case, steps, pre=False):
    reqs = [{"op": "init", "queue": case["queue"], "pop": case["pop"], "workers": case["workers"], "pre": pre}]
    for e in steps:
        if e["op"] == "submit":
            reqs.append({"op": "submit", "n": e["n"]})
        elif e["op"] != "closed":
            reqs.append({"op": e["op"], "j": e["j"]})
    return reqs


def compare(case, res, steps, reps):
    it = iter(reps[1:])
    last = reps[0]
    for i, e in enumerate(steps):
        if e["op"] == "closed":
            if last["queue"] != e["queue"]:
                return {"step": i, "what": "queue after close()", "impl": e["queue"], "model": last["queue"]}
            continue
        rep = last = next(it)
        if not rep["enabled"]:
            return {"step": i, "event": e, "what": "the model cannot take this step here (guard false)", "model_queue": rep["queue"]}
        if e["op"] == "take" and (rep["ds"] != e["ds"] or rep["queue"] != e["queue"]):
            return {"step": i, "event": e, "model": {"ds": rep["ds"], "queue": rep["queue"]}}
        if e["op"] == "start" and rep["recv"] != e["recv"]:
            return {"step": i, "event": e, "model": {"recv": rep["recv"]}}
        if e["op"] == "release" and (rep["meta"] != e["meta"] or rep["queue"] != e["queue"]):
            return {"step": i, "event": e, "model": {"meta": rep["meta"], "queue": rep["queue"]}}
        if e["op"] == "cancel" and "queue" in e and rep["queue"] != e["queue"]:
            return {"step": i, "event": e, "model": {"queue": rep["queue"]}}
    if last["measure"] != 0:
        return {"step": len(steps), "what": "model: some job neither finished nor was cancelled", "measure": last["measure"]}
    if last["queue"] != res["final_queue"]:
        return {"step": len(steps), "what": "final queue", "impl": res["final_queue"], "model": last["queue"]}
    return None


# --------------------------------------------------------------------------- L3 oracle on the raw trace


def oracle(case, res):
    """[(clause, detail)]: the Python statement of the property (cross-check of the Lean checker; same
    order of clauses: the first offending log line, then progress, returned, metadata)"""
    log, pop = res["log"], case["pop"]
    running = {}  # job -> recv
    recv_of, closed_over = {}, set()
    n = 0
    ev_bad = []
    for e in log:
        if ev_bad:
            break
        if e[0] == "submit":
            n += e[1]
        elif e[0] in ("start", "end") and e[1] in closed_over:
            continue  # a call of an evaluation that close() had already ended (see extract_steps)
        elif e[0] == "start":
            j, recv = e[1], e[2]
            if recv is None or len(recv) != pop:
                ev_bad.append(("count", f"job {j} received {recv}, queue_pop_per_task={pop}"))
                break
            for k, other in running.items():
                if set(recv) & set(other):
                    ev_bad.append(("exclusive", f"jobs {k} and {j} run at the same time with resources {other} and {recv}"))
                    break
            recv_of[j] = recv
            running[j] = recv
        elif e[0] == "end":
            running.pop(e[1], None)
        elif e[0] == "closed":
            # every evaluation submitted so far has ended (normally or by cancellation) and is recorded
            # by close(): every resource must be back
            running.clear()
            closed_over = set(range(n))
            if sorted(e[1]) != sorted(case["queue"]):
                ev_bad.append(("returned", f"queue after close() {e[1]}, initially {case['queue']}"))
    if ev_bad:
        return ev_bad
    bad = []
    if res["error"] is not None:
        bad.append(("progress", f"{res['where']} raised {res['error']}"))
    else:
        missing = sorted(set(range(res["nsub"])) - set(res["returned"]) - closed_over)
        if missing or len(res["returned"]) != len(set(res["returned"])):
            bad.append(("progress", f"jobs {missing} never returned (returned {res['returned']}, ended by a close {sorted(closed_over)})"))
    if sorted(res["final_queue"] or []) != sorted(case["queue"]):
        bad.append(("returned", f"queue at the end {res['final_queue']}, initially {case['queue']}"))
    for j, m in sorted(res["metas"].items()):
        if m is not None and j in recv_of and _parse_meta(m) != recv_of[j]:
            bad.append(("metadata", f"job {j}: metadata dequed={m!r} but the run-function received {recv_of[j]}"))
    return bad


def lean_log(case, res):
    """the observable log in the wire form of `Model/QueuedLog.lean`"""
    evs = []
    for e in res["log"]:
        if e[0] == "submit":
            evs.append({"e": "submit", "n": e[1]})
        elif e[0] == "start":
            evs.append({"e": "start", "j": e[1], "recv": e[2]})
        elif e[0] == "end":
            evs.append({"e": "end", "j": e[1]})
        elif e[0] == "closed":
            evs.append({"e": "closed", "queue": e[1]})
    metas = [_parse_meta(res["metas"].get(j)) for j in range(res["nsub"])]
    return {"op": "check", "queue": case["queue"], "pop": case["pop"], "events": evs, "metas": metas,
            "returned": res["returned"], "final_queue": res["final_queue"] or [], "error": res["error"] is not None}


def _has_close(case):
    return any(a["kind"] == "close" for w in case["waves"] for a in _actions(w))


def _preds(case):
    total = sum(len(w["jobs"]) for w in case["waves"])
    return {"jobs>workers": any(len(w["jobs"]) > case["workers"] for w in case["waves"]),
            "jobs*pop>queue": total * case["pop"] > len(case["queue"]),
            "close": _has_close(case),
            "timeout": any(w.get("timeout") is not None for w in case["waves"])}


def _neutralise(case, pred):
    c = json.loads(json.dumps(case))
    if pred == "jobs>workers":
        c["workers"] = max(len(w["jobs"]) for w in c["waves"])
    elif pred == "timeout":
        for w in c["waves"]:
            w.pop("timeout", None)
    elif pred == "close":
        for w in c["waves"]:
            w["then"] = [a for a in _actions(w) if a["kind"] != "close"]
    else:
        total = sum(len(w["jobs"]) for w in c["waves"])
        c["queue"] = c["queue"] + [max(c["queue"]) + 1 + i for i in range(total * c["pop"] - len(c["queue"]))]
    return c


_NEEDED = {}  # (clause, predicates that hold) -> predicates the failure needs (probed once per class)


def fingerprint(case, clause, vt=None):
    """property | oracle clause | call site | the input-class predicates the failure NEEDS: a predicate
    that holds in the (shrunk) case is listed only if making it false makes this clause pass"""
    holding = tuple(p for p, h in _preds(case).items() if h)
    key = (clause, holding)
    if key not in _NEEDED:
        needed = []
        for pred in holding:
            variant = _neutralise(case, pred)
            res = drive(variant, vt if case["backend"] == "serial" else None)
            if not any(b[0] == clause for b in oracle(variant, res)):
                needed.append(pred)
        _NEEDED[key] = needed
    return f"{PROP}|{clause}|queued(Evaluator).execute|{','.join(_NEEDED[key]) or 'any'}"


# --------------------------------------------------------------------------- generator


def _then(rng, n_inflight):
    r = rng.random()
    if r < 0.45:
        return {"kind": "none"}
    if r < 0.8:
        return {"kind": "batch", "k": rng.randint(1, max(1, min(3, n_inflight)))}
    return {"kind": "all"}


def gen_cases(ck):
    rng = ck.rng
    # (a) serial: one wave of n jobs, every completion order through permuted durations
    nmax = ck.pick(4, 5)
    for n in range(1, nmax + 1):
        perms = list(itertools.permutations(range(1, n + 1)))
        for perm in perms:
            for _ in range(ck.pick(2, 3) if n <= 3 else 1):
                qn = rng.randint(1, 6)
                pop = rng.choice([1, 1, 2]) if qn >= 2 else 1
                yield {"backend": "serial", "queue": [10 + i for i in range(qn)], "pop": pop, "workers": rng.randint(1, 3),
                       "waves": [{"jobs": [{"d": 2 * r * Q} for r in perm], "then": {"kind": "none"}}], "kind": "perm"}
    # (b) serial: random waves, ties in the durations
    for _ in range(ck.pick(500, 8000)):
        qn = rng.randint(1, 6)
        pop = rng.choice([1, 1, 2]) if qn >= 2 else 1
        total = rng.randint(1, 8)
        waves, left = [], total
        while left > 0:
            n = rng.randint(1, left) if rng.random() < 0.6 else left
            left -= n
            waves.append({"jobs": [{"d": rng.choice([0, 1, 1, 2, 2, 3, 5]) * Q} for _ in range(n)], "then": _then(rng, n)})
        yield {"backend": "serial", "queue": [10 + i for i in range(qn)], "pop": pop, "workers": rng.randint(1, 3),
               "waves": waves, "kind": "waves"}
    # (c) thread backend, random release priorities
    for _ in range(ck.pick(100, 1200)):
        qn = rng.randint(1, 6)
        pop = rng.choice([1, 1, 2]) if qn >= 2 else 1
        total = rng.randint(1, 8)
        waves, left = [], total
        while left > 0:
            n = rng.randint(1, left) if rng.random() < 0.6 else left
            left -= n
            waves.append({"jobs": [{"d": 0, "prio": rng.randint(0, 9)} for _ in range(n)], "then": _then(rng, n)})
        yield {"backend": "thread", "queue": [10 + i for i in range(qn)], "pop": pop, "workers": rng.randint(1, 3),
               "waves": waves, "kind": "thread"}


def _close_case(rng, backend):
    """waves with close() at different moments (directly after a submit: tasks never ran; after a
    BATCH gather: jobs waiting for resources / for a worker / running / finished-ungathered), then reuse"""
    qn = rng.randint(1, 5)
    pop = rng.choice([1, 1, 2]) if qn >= 2 else 1
    workers = rng.randint(1, 3)
    waves = []
    for wi in range(rng.randint(1, 3)):
        n = rng.randint(1, 6)
        jobs = [({"d": rng.choice([0, 1, 2, 2, 3, 5, 8]) * Q} if backend == "serial" else {"d": 0, "prio": rng.randint(0, 9)})
                for _ in range(n)]
        r = rng.random()
        if r < 0.25:
            then = [{"kind": "close"}]
        elif r < 0.8:
            then = [{"kind": "batch", "k": rng.randint(1, max(1, min(3, n)))}, {"kind": "close"}]
        elif r < 0.9:
            then = [{"kind": "all"}, {"kind": "close"}]
        else:
            then = [_then(rng, n)]
        w = {"jobs": jobs, "then": then}
        if rng.random() < 0.25:
            w["timeout"] = rng.choice([0, 2, 4]) * Q if backend == "serial" else rng.choice([0.0, 0.001])
        waves.append(w)
    # reuse after the last close
    n = rng.randint(1, 4)
    waves.append({"jobs": [({"d": rng.choice([0, 1, 2]) * Q} if backend == "serial" else {"d": 0, "prio": rng.randint(0, 9)})
                           for _ in range(n)], "then": [_then(rng, n)]})
    return {"backend": backend, "queue": [10 + i for i in range(qn)], "pop": pop, "workers": workers, "waves": waves,
            "kind": "close"}


def gen_timeout_hold_cases(ck):
    """thread backend, real time: `evaluator.timeout` expires while a run-function that ignores its job's
    status keeps running (and using its resources) for several more seconds; other jobs wait for those
    resources although worker threads are free.  A resource is in use until the run-function that received
    it has returned, whatever the evaluator reports: the exclusivity clause is evaluated on the
    run-functions' own start/end lines."""
    rng = ck.rng
    for t in range(ck.pick(1, 6)):
        hold = ck.pick(4.5, 6.0)
        if t % 3 == 0:
            queue, pop, jobs = [10], 1, [{"d": 0, "prio": 0, "hold": hold}, {"d": 0, "prio": 1}]
        elif t % 3 == 1:
            queue, pop, jobs = [10, 11], 2, [{"d": 0, "prio": 0, "hold": hold}, {"d": 0, "prio": 1}, {"d": 0, "prio": 2}]
        else:
            queue, pop, jobs = [10, 11], 1, [{"d": 0, "prio": 0, "hold": hold}, {"d": 0, "prio": 1, "hold": hold},
                                              {"d": 0, "prio": 2}, {"d": 0, "prio": 3}]
        yield {"backend": "thread", "queue": queue, "pop": pop, "workers": len(jobs),
               "waves": [{"jobs": jobs, "then": [{"kind": "all"}], "timeout": rng.choice([0.05, 0.2, 0.5])}],
               "kind": "timeout-hold"}


def gen_close_cases(ck):
    rng = ck.rng
    for _ in range(ck.pick(300, 4000)):
        yield _close_case(rng, "serial")
    for _ in range(ck.pick(60, 600)):
        yield _close_case(rng, "thread")


# --------------------------------------------------------------------------- shrinking


def _same(case, vt, clause):
    res = drive(case, vt)
    bad = oracle(case, res)
    return bool(bad) and bad[0][0] == clause, (res, bad)


_SHRINK_SPENT = [0.0]  # seconds spent shrinking in this run (a deadlocking tree makes every drive slow)
_SHRINK_TOTAL_S = 45.0


def shrink(case, vt, clause, budget=80):
    cur = json.loads(json.dumps(case))
    tries, changed = 0, True
    t_start = time.time()
    if _SHRINK_SPENT[0] >= _SHRINK_TOTAL_S:
        return cur

    def cands(c):
        for wi, w in enumerate(c["waves"]):
            if len(c["waves"]) > 1:
                d = json.loads(json.dumps(c))
                del d["waves"][wi]
                yield d
            if len(w["jobs"]) > 1:
                d = json.loads(json.dumps(c))
                d["waves"][wi]["jobs"].pop()
                yield d
            acts = _actions(w)
            for ai in range(len(acts)):
                if acts[ai]["kind"] != "none":
                    d = json.loads(json.dumps(c))
                    d["waves"][wi]["then"] = acts[:ai] + acts[ai + 1:]
                    yield d
            if w.get("timeout") is not None:
                d = json.loads(json.dumps(c))
                d["waves"][wi].pop("timeout")
                yield d
        if len(c["queue"]) > c["pop"]:
            d = json.loads(json.dumps(c))
            d["queue"].pop()
            yield d
        if c["pop"] > 1:
            d = json.loads(json.dumps(c))
            d["pop"] -= 1
            yield d
        if c["workers"] > 1:
            d = json.loads(json.dumps(c))
            d["workers"] -= 1
            yield d

    while changed and tries < budget:
        changed = False
        for d in cands(cur):
            tries += 1
            ok, _ = _same(d, vt, clause)
            if ok:
                cur, changed = d, True
                break
            if tries >= budget or _SHRINK_SPENT[0] + (time.time() - t_start) >= _SHRINK_TOTAL_S:
                changed = False
                break
    _SHRINK_SPENT[0] += time.time() - t_start
    return cur


# --------------------------------------------------------------------------- run


def check_case(ck, d, case, vt, from_corpus=False):
    res = drive(case, vt)
    ck.extra_cov["_last_error"] = res["error"]
    total = sum(len(w["jobs"]) for w in case["waves"])
    ck.count("backend:" + case["backend"])
    ck.count(f"queue={len(case['queue'])},pop={case['pop']}")
    ck.count(f"workers={case['workers']}")
    ck.count(f"jobs={total}")
    ck.count(f"waves={len(case['waves'])}")
    if total * case["pop"] > len(case["queue"]):
        ck.count("demand-exceeds-queue")
    if any(len(w["jobs"]) > case["workers"] for w in case["waves"]):
        ck.count("wave-larger-than-workers")
    if any(w.get("timeout") is not None for w in case["waves"]):
        ck.count("evaluator-timeout-set")
    if any(jb.get("hold") for w in case["waves"] for jb in w["jobs"]):
        ck.count("timeout-expires-while-run-function-keeps-running")
    conc = cur = 0
    for e in res["log"]:
        if e[0] == "start":
            cur += 1
            conc = max(conc, cur)
        elif e[0] == "end":
            cur -= 1
    ck.count(f"max-concurrent={conc}")
    ck.case({k: case[k] for k in ("backend", "queue", "pop", "workers", "waves")}, nontrivial=total >= 2 and conc >= 1)
    order = tuple(e[1] for e in res["log"] if e[0] == "end")
    ck.extra_cov.setdefault("_orders", set()).add((case["backend"], total, order))
    # L3: the verified checker (theorem C17_checker) on the implementation's log; the Python statement of
    # the property is kept as a cross-check
    bad = oracle(case, res)
    oracle_mm = None
    if res["where"] == "constructor":
        lean = {"spec": False, "clause": "progress"}
    else:
        lean = d.ask(lean_log(case, res))
    if lean["spec"] != (not bad):
        oracle_mm = {"what": "oracle disagreement: Lean checkLog vs. the Python statement of the property",
                     "lean": lean, "python": bad}
    if not lean["spec"]:
        clause = lean["clause"]
        detail = next((b[1] for b in bad if b[0] == clause), f"checkLog = false (clause {clause})")
        small = case
        seen = ck.extra_cov.setdefault("_shrunk", {})
        seen[clause] = seen.get(clause, 0) + 1
        # shrink the first few failing scenarios of every clause (thread backend: the first one)
        slow = any(jb.get("hold") for w in case["waves"] for jb in w["jobs"])  # costs real seconds per run
        if not from_corpus and not slow and bad and bad[0][0] == clause and seen[clause] <= (8 if case["backend"] == "serial" else 1):
            use_vt = vt if case["backend"] == "serial" else None
            cand = shrink(case, use_vt, clause)
            res2 = drive(cand, use_vt)
            lean2 = d.ask(lean_log(cand, res2)) if res2["where"] != "constructor" else {"spec": True}
            if not lean2["spec"] and lean2["clause"] == clause:
                small = cand
                detail = next((b[1] for b in oracle(cand, res2) if b[0] == clause), detail)
        fp = fingerprint(small, clause, vt)
        ck.fail(fp, f"{clause}: {detail}", small, {"clause": clause, "detail": detail, "oracle": "Lean checkLog (C17_checker)",
                                                   "python_clauses": sorted({b[0] for b in bad})})
    mm = None
    if res["error"] is None:
        ex, why = extract_steps(case, res)
        if ex is None:
            mm = {"what": "trace cannot be replayed: " + why}
        else:
            steps, closes, zombies = ex
            if zombies:
                ck.count(f"call-started-by-the-pool-after-its-cancellation:{case['backend']}", len(zombies))
            reps = d.ask_all(lean_requests(case, steps))
            mm = compare(case, res, steps, reps)
            for e in steps:
                ck.count("step:" + e["op"] + (":" + e["phase"] if e["op"] == "cancel" else ""))
            for c in closes:
                ck.count("close:" + ("idle" if not c["phases"] else "+".join(sorted(c["phases"]))))
                for ph, k in c["phases"].items():
                    ck.count(f"close-with-job-{ph}:{case['backend']}", k)
            if closes and any(e["op"] == "submit" for i, e in enumerate(steps)
                              if any(x["op"] == "closed" for x in steps[:i])):
                ck.count("reuse-after-close")
    else:
        mm = {"what": "the implementation raised: " + res["error"]}
    if mm is not None:
        ck.mismatch(case, mm)
    if oracle_mm is not None:
        ck.mismatch(case, oracle_mm)
    return bad, mm


def malformed_constructions(ck):
    """inputs outside the property's quantifier that the constructor refuses: more resources per task than
    the queue holds (no job could ever run), a plain function for the serial backend"""
    from deephyper.evaluator import SerialEvaluator, queued

    def sync_fn(job, dequed=None):
        return 1.0

    for queue, pop, fn, what in [([10], 2, run_serial, "pop>queue"), ([], 1, run_serial, "pop>queue"),
                                 ([10, 11], 1, sync_fn, "not-a-coroutine")]:
        try:
            ev = queued(SerialEvaluator)(fn, num_workers=1, queue=queue, queue_pop_per_task=pop)
            ck.count(f"constructor:{what}:accepted")
            ev.close()
        except ValueError:
            ck.count(f"constructor:{what}:rejected")


def _corpus():
    d = common.VERIF / "corpus" / PROP
    return [(f.name, json.loads(f.read_text())["case"]) for f in sorted(d.glob("*.json"))] if d.is_dir() else []


def run(ck):
    import warnings

    warnings.simplefilter("ignore")
    _NEEDED.clear()
    ck.rule = ("queued(SerialEvaluator) on a virtual clock: one wave of n<=4 (quick) / 5 (thorough) jobs in every order of "
               "durations x random (queue 1..6, pop 1..2, workers 1..3), plus random waves of 1..8 jobs with ties and "
               "BATCH/ALL gathers between waves; queued(ThreadPoolEvaluator) with per-job events released by random "
               "priority; close() scenarios on both backends: 1..3 waves of 1..6 jobs each followed by close directly / "
               "after a BATCH gather / after ALL, optional evaluator timeout (0, 2, 4 quanta), then reuse (submit + gather); "
               "distinct by canonical case; non-trivial = >= 2 jobs")
    ck.assumptions = [
        "resources of the initial queue are pairwise distinct (the theorems' hypothesis q0.Nodup)",
        "queue_pop_per_task <= len(queue) (otherwise no job can ever run; the repaired constructor rejects it)",
        "asyncio runs each evaluation in its own task, a task has its own contextvars context",
        "an evaluation cancelled by close() has ended: its resources must be back when close() returns",
    ]
    ck.trusted_extra = [
        "asyncio scheduling and the worker semaphore (abstracted into the guards of `take` / `start`)",
        "harness shims: virtual-time loop, logging deque installed as evaluator.queue, director thread",
    ]
    with ck.driver() as d:
        vt = vloop.install()
        orig = _guard_vloop()
        try:
            malformed_constructions(ck)
            for name, case in _corpus():
                ck.count("corpus")
                if case["backend"] == "serial":
                    check_case(ck, d, case, vt, from_corpus=True)
            thread_cases = []
            for case in itertools.chain(gen_cases(ck), gen_close_cases(ck), gen_timeout_hold_cases(ck)):
                if case["backend"] == "serial":
                    check_case(ck, d, case, vt)
                else:
                    thread_cases.append(case)
        finally:
            vloop.VLoop._run_once = orig
            vloop.uninstall()
        for name, case in _corpus():
            if case["backend"] != "serial":
                check_case(ck, d, case, None, from_corpus=True)
        stuck = 0
        for case in thread_cases:
            if stuck >= 2:  # every stuck scenario costs seconds of real time; two replays are enough
                ck.count("thread-scenario-skipped-after-two-stuck-ones")
                continue
            check_case(ck, d, case, None)
            stuck += "stopped" in str(ck.extra_cov.get("_last_error"))
    ck.extra_cov.pop("_shrunk", None)
    ck.extra_cov.pop("_last_error", None)
    orders = ck.extra_cov.pop("_orders", set())
    ck.extra_cov["distinct_completion_orders"] = len(orders)
    ck.extra_cov["max_vloop_iterations_in_one_scenario"] = _ITER_MAX[0]


def replay(ck, case):
    vt = vloop.install() if case["backend"] == "serial" else None
    orig = _guard_vloop()
    try:
        with ck.driver() as d:
            bad, mm = check_case(ck, d, case, vt, from_corpus=True)
    finally:
        vloop.VLoop._run_once = orig
        vloop.uninstall()
    ck.extra_cov.pop("_orders", None)
    ck.extra_cov.pop("_shrunk", None)
    ck.extra_cov.pop("_last_error", None)
    print("replay: oracle failures:", bad or "none", "| model mismatch:", mm or "none")
