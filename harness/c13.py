"""C13 — storage keeps what it was given: unique ids, read-your-writes, isolation, snapshots; shared = memory.

Real code: MemoryStorage, SharedMemoryStorage (the registered BaseManager proxy), NullStorage (ids only).

L2: every history is executed on MemoryStorage (and SharedMemoryStorage) and on `Model/Storage.lean` (Drivers/C13.lean);
    the return value / exception class of every call is compared (dict key order canonicalised, list order kept).
      * exhaustive: every sequence of <= L method *kinds* (17 kinds; L = 4 quick, 5 thorough), arguments filled in by a
        deterministic rotation over 2 searches x 3 jobs x 2 keys and a value table (two rotations)
      * generated histories up to 200 calls incl. a malformed stream (bad ids, reserved job keys, non-dict metadata)
      * contended concurrency (L3 only): 2..8 client processes storing to the SAME jobs / searches (own keys and
        contested keys) on targets carrying small and large (60 000-float) values: nothing stored may be lost
      * concurrency: 2..8 client processes on one SharedMemoryStorage; a sequential history consistent with every
        client's program order and with the identifiers handed out is constructed and replayed on the model's
        concurrent semantics (`Conc.run`): every schedule-independent result must agree, and the final contents
    loaded objects (load_job / load_search) are kept and re-compared after every later call (snapshot).
      * what the CALLER does with loaded data (pseudo calls `caller_edit`, `store_loaded`): the objects the loads returned are
        edited in place at every level, or handed back to the storage (and the receiving job then extended through the
        storage); the model, the map and the verified checker see the storage operations only: every load must answer as if
        the caller had done nothing.  Systematic small family + generated histories; MemoryStorage and SharedMemoryStorage.
      * object identities (`Model/StorageAlias.lean`, driver request `alias`): which dicts / lists inside the answers are
        objects seen before and which are new, compared with the model of the job table as a forest of Python objects.
L3 (real code only, against a dict-of-dicts "simple map" written in Python):
      unique-id, read-your-writes (+ isolation: the whole loaded record must equal the map's), lost-value,
      snapshot, shared-equals-memory, concurrent unique-id / lost-value / read-your-writes, thread stress,
      and a `dis` check that no CALL / JUMP_BACKWARD lies between reading and writing the id counters.
"""
import contextlib
import copy
import dis
import io
import itertools
import json
import math
import multiprocessing as mp
import os
import sys
import threading
from concurrent.futures import ProcessPoolExecutor
from fractions import Fraction

from . import common
from .common import rat

KINDS = ["cs", "cj", "sj", "sin", "sout", "smeta", "sstatus", "ssv",
         "lsids", "ljids", "lsearch", "ljob", "lsv", "lmeta", "lout", "ljobs", "lstatus"]
STORE_KINDS = {"cs", "cj", "sj", "sin", "sout", "smeta", "sstatus", "ssv"}
RET = {
    "create_new_search": "id", "create_new_job": "id",
    "store_job": "none", "store_job_in": "none", "store_job_out": "none", "store_job_metadata": "none",
    "store_job_status": "none", "store_search_value": "none",
    "load_all_search_ids": "ids", "load_all_job_ids": "ids", "load_search": "val", "load_job": "val",
    "load_search_value": "val", "load_metadata_from_all_jobs": "vals", "load_out_from_all_jobs": "vals",
    "load_jobs": "val", "load_job_status": "val",
}
RESERVED = ("job_id_counter", "data")
JOB_ID_FIRST = {"store_job", "store_job_in", "store_job_out", "store_job_metadata", "store_job_status", "load_job", "load_job_status",
                "job_status", "running_job_status", "job_status_set"}

# --------------------------------------------------------------------------- value encoding


# Keys and identifiers are Hashable, not only str.  On the wire a JSON string is a str key; any other key is an ordinary
# wire value (`null`, `true`, `{"i":1}`, `{"f":"5/2"}`, `{"t":[{"i":0},{"s":"a"}]}`).  The model keeps string keys: a typed key
# is RENDERED to a string by `Key.render` (Model/Storage.lean; injective up to Python's key equality 1 == 1.0 == True:
# theorem C13_key_rendering_injective); `kenc` is the same rendering for the keys of the dicts the REAL storage returns.
#   str s -> s  ("#s" + s if s starts with "#")     None -> "#N"     bool / int / finite float -> "#n<num>/<den>"
#   tuple -> "#t" + for every item: "<length of its text>:" + its text
# Two forms of a value: the INPUT form (`enc_in`: dict keys are wire keys; what calls carry and `dec` reads) and the
# ANSWER form (`enc`: dict keys rendered; what answers are compared in, on both sides).


def kenc(k):
    """the model's text for a Python dict key / identifier"""
    if isinstance(k, str):
        return "#s" + k if k.startswith("#") else k
    if k is None:
        return "#N"
    if isinstance(k, (bool, int)) or (isinstance(k, float) and math.isfinite(k)):
        f = Fraction(k)
        return f"#n{f.numerator}/{f.denominator}"
    if isinstance(k, tuple):
        parts = [kenc(x) for x in k]
        return "#t" + "".join(f"{len(p)}:{p}" for p in parts)
    return "#o<" + type(k).__name__ + ">"


def dkey(k):
    """wire key / identifier -> the Python object"""
    return k if isinstance(k, str) else dec(k)


def kwire(k):
    """Python key -> wire key (input form)"""
    return k if isinstance(k, str) else enc(k)


def rk(k):
    """wire key / identifier -> its rendering (what the simple map and the answers use)"""
    if isinstance(k, str) and not k.startswith("#"):
        return k
    try:
        return kenc(dkey(k))
    except Exception:
        return "#?" + json.dumps(k, sort_keys=True, default=str)


def typed(k):
    """a wire key / identifier that is not a str"""
    return not isinstance(k, str)


def _enc(v, key):
    if v is None or isinstance(v, bool):
        return v
    if isinstance(v, int):
        return {"i": v}
    if isinstance(v, float):
        return {"f": rat(v)} if math.isfinite(v) else {"s": f"<float {v!r}>"}
    if isinstance(v, str):
        return {"s": v}
    if isinstance(v, list):
        return {"l": [_enc(x, key) for x in v]}
    if isinstance(v, tuple):
        return {"t": [_enc(x, key) for x in v]}
    if isinstance(v, dict):
        return {"d": [[key(k), _enc(x, key)] for k, x in v.items()]}
    k = getattr(v, "_verif_tok", None)
    if k is not None:
        return {"s": f"<opaque:{k}>"}      # what the Lean model sees for an arbitrary Python object
    return {"s": "<" + type(v).__name__ + ">"}


def enc(v):
    """answer form: dict keys rendered"""
    return _enc(v, kenc)


def enc_in(v):
    """input form: dict keys as wire keys (what `dec` reads back)"""
    return _enc(v, kwire)


def rv(w):
    """input form -> answer form of the value Python builds from it (two keys that are equal for a dict are one entry)"""
    try:
        return enc(dec(w))
    except common.HarnessError:
        raise
    except Exception:
        return w


# arbitrary Python objects an in-process MemoryStorage legitimately holds (they deep-copy but do not pickle)
OPAQUE = {}


def make_opaque(k):
    if k in OPAQUE:
        return OPAQUE[k]
    kind = k % 4
    if kind == 0:
        obj = lambda x, _k=k: x + _k                     # noqa: E731  a lambda defined in a local scope
    elif kind == 1:
        def closure(x):                                  # a closure over a local variable
            return x * k
        obj = closure
    elif kind == 2:
        class Local:                                     # an instance of a class defined inside a function
            def __init__(self, n):
                self.n = n
                self.items = [n, {"k": n}]
        obj = Local(k)
    else:
        class Holder:
            pass
        obj = Holder()
        obj.fn = lambda: k
        obj.n = k
    obj._verif_tok = k
    OPAQUE[k] = obj
    return obj


def tok(w):
    """wire value / call with `{"o": k}` (an arbitrary object) replaced by the opaque token the model sees"""
    if isinstance(w, dict):
        if "o" in w:
            return {"s": f"<opaque:{w['o']}>"}
        return {a: tok(b) for a, b in w.items()}
    if isinstance(w, list):
        return [tok(x) for x in w]
    return w


def has_opaque(calls):
    return "'o':" in str(calls)


def not_a_copy(loaded):
    """-> description if an object inside `loaded` is the very object that was stored (class instances must be copies
    with equal attributes; functions are atomic for copy.deepcopy), else None"""
    stack = [loaded]
    while stack:
        x = stack.pop()
        if isinstance(x, dict):
            stack.extend(x.values())
        elif isinstance(x, (list, tuple)):
            stack.extend(x)
        else:
            k = getattr(x, "_verif_tok", None)
            if k is None or callable(x):
                continue
            orig = OPAQUE.get(k)
            if x is orig:
                return {"token": k, "what": "the loaded value is the stored object itself (not a copy)"}
            if type(x) is not type(orig) or getattr(x, "n", None) != getattr(orig, "n", None):
                return {"token": k, "what": "the loaded copy differs from the stored object"}
    return None


def dec(w):
    if w is None or isinstance(w, bool):
        return w
    (tag, x), = w.items()
    if tag == "i":
        return int(x)
    if tag == "f":
        f = common.unrat(x)
        return f.numerator / f.denominator
    if tag == "s":
        return x
    if tag == "l":
        return [dec(y) for y in x]
    if tag == "t":
        return tuple(dec(y) for y in x)
    if tag == "d":
        return {dkey(k): dec(y) for k, y in x}
    if tag == "o":
        return make_opaque(x)
    raise common.HarnessError(f"bad wire value {w}")


def cv(w):
    """canonical form of a wire value: dict entries sorted by key"""
    if isinstance(w, dict):
        (tag, x), = w.items()
        if tag == "d":
            return {"d": sorted(([k, cv(y)] for k, y in x), key=lambda p: p[0])}
        if tag in ("l", "t"):
            return {tag: [cv(y) for y in x]}
    return w


def cout(o):
    """canonical form of an OUT"""
    k = o["k"]
    if k == "val":
        return {"k": k, "v": cv(o["v"])}
    if k == "vals":
        return {"k": k, "v": [cv(x) for x in o["v"]]}
    return o


PLAIN2 = {"store_job", "store_job_metadata", "store_search_value", "load_search_value", "load_metadata_from_all_jobs"}


def pyargs(c):
    """wire call -> positional Python arguments"""
    name = c[0]
    if name in ("create_new_search", "load_all_search_ids"):
        return []
    if name == "load_jobs":
        return [[dkey(j) for j in c[1]]]
    a, rest = [dkey(c[1])], c[2:]
    if name in PLAIN2 and rest:
        a.append(dkey(rest[0]))
        rest = rest[1:]
    return a + [dec(x) for x in rest]


def norm_call(c):
    """a call as the simple map sees it: identifiers and keys rendered, values in answer form"""
    name = c[0]
    if name in ("create_new_search", "load_all_search_ids") or len(c) < 2:
        return c
    if name == "load_jobs":
        return [name, [rk(j) for j in c[1]]] if isinstance(c[1], list) else c
    if name in STATUS_VIEWS:
        return [name, rk(c[1])] + ([rv(c[2])] + list(c[3:]) if name == "job_status_set" else list(c[2:]))
    out, rest = [name, rk(c[1])], c[2:]
    if name in PLAIN2 and rest:
        out.append(rk(rest[0]))
        rest = rest[1:]
    return out + [rv(x) for x in rest]


def typed_job_id(c):
    """the call names a job by something that is not a str (`job_id.split` then raises AttributeError: nothing is looked up)"""
    if c[0] == "load_jobs":
        return isinstance(c[1], list) and any(typed(j) for j in c[1])
    return c[0] in JOB_ID_FIRST and len(c) > 1 and typed(c[1])


STATUS_VIEWS = {"job_status": "load_job_status", "running_job_status": "load_job_status", "job_status_set": "store_job_status"}
RET_PSEUDO = {"job_status": "val", "running_job_status": "val", "job_status_set": "none"}


def view_handle(c):
    """name of the client handle an evaluator-level status access goes through (None: an object made for this one access)"""
    n = 4 if c[0] == "job_status_set" else 3
    return c[n - 1] if len(c) >= n else None


def evaluator_view(st, c, views=None):
    """the evaluator's way to the status: `Job.status` (getter / setter) and `RunningJob.status` on top of the storage.
    `["job_status", jid, h]`, `["running_job_status", jid, h]`, `["job_status_set", jid, v, h]`: through the client handle
    named `h` — ONE Job / RunningJob object per (class, job, name), kept in `views` for the whole history, as an evaluator keeps
    the Job objects of the jobs it submitted; without `h` a new object is made for the access."""
    from deephyper.evaluator import Job, RunningJob
    from deephyper.evaluator._job import JobStatus

    jid, h = dkey(c[1]), view_handle(c)
    running = c[0] == "running_job_status"

    def make():
        return RunningJob(jid, {}, st, None) if running else Job(jid, {}, None, st)

    if h is None or views is None:
        obj = make()
    else:
        k = (running, rk(c[1]), h)
        obj = views.get(k)
        if obj is None:
            obj = views[k] = make()
    if c[0] == "job_status_set":
        obj.status = JobStatus(dec(c[2]))
        return None
    return obj.status.value


def to_storage_call(c):
    """the storage method call behind an evaluator-level status access"""
    if c[0] in STATUS_VIEWS:
        return [STATUS_VIEWS[c[0]]] + list(c[1:3 if c[0] == "job_status_set" else 2])
    return c


def model_call(c):
    """a call as the driver's `hist` request takes it: storage methods as they are; the evaluator-level status accesses without
    the name of the handle (`viewStatus` / `setStatus` of the model do not depend on the handle)"""
    if c[0] in STATUS_VIEWS:
        return list(c[:3 if c[0] == "job_status_set" else 2])
    return c


def expected_view_out(c, y):
    """what the evaluator-level access must show, given what the storage method answers (`y`)"""
    if c[0] in ("job_status", "running_job_status") and y["k"] == "val":
        from deephyper.evaluator._job import JobStatus

        try:
            return {"k": "val", "v": {"i": JobStatus(dec(y["v"])).value}}
        except (ValueError, TypeError) as e:
            return {"k": "error", "v": type(e).__name__}
    return y


def out_of(name, r):
    """the answer `r` of method `name` in wire form"""
    kind = RET.get(name) or RET_PSEUDO[name]
    if kind == "none":
        return {"k": "none"} if r is None else {"k": "val", "v": enc(r)}
    if kind == "id":
        return {"k": "id", "v": r} if isinstance(r, str) else {"k": "val", "v": enc(r)}
    if kind == "ids":
        if isinstance(r, (list, tuple)) and all(isinstance(x, str) for x in r):
            return {"k": "ids", "v": list(r)}
        return {"k": "val", "v": enc(r)}      # not a list of identifiers: an answer like any other (and a difference)
    if kind == "vals":
        return {"k": "vals", "v": [enc(x) for x in r]} if isinstance(r, (list, tuple)) else {"k": "val", "v": enc(r)}
    return {"k": "val", "v": enc(r)}


def call_real2(st, c, views=None):
    """one method call on a real storage -> (OUT in wire form, the object the call returned)"""
    name = c[0]
    try:
        r = evaluator_view(st, c, views) if name in STATUS_VIEWS else getattr(st, name)(*pyargs(c))
    except Exception as e:   # every exception class is an answer (the model knows four; any other one is a difference)
        return {"k": "error", "v": type(e).__name__}, None
    return out_of(name, r), r


def call_real(st, c):
    """one method call on a real storage -> OUT (wire form)"""
    return call_real2(st, c)[0]


# --------------------------------------------------------------------------- the "simple map" (L3 reference)

NEWJOB = {"status": {"i": 0}, "in": None, "out": None, "metadata": {"d": []},
          "intermediate": {"d": [["budget", {"l": []}], ["objective", {"l": []}]]}}


class SimpleMap:
    """search -> job -> record, the property's reference; judges the outputs of the REAL storage.
    `opaque` jobs/searches: the history used a reserved key in a way the property does not speak about."""

    def __init__(self, label):
        self.label = label
        self.searches = {}   # sid -> {"vals": {key: wire}, "jobs": [jid,…]}
        self.jobs = {}       # jid -> {"sid":…, "rec": {key: wire}, "opaque": bool}
        self.ids = set()
        self.bad = []        # (clause, method, detail)

    def flag(self, clause, method, detail):
        self.bad.append((clause, method, detail))

    def observe(self, c, out):
        c = copy.deepcopy(c)  # the map keeps (and updates in place) its own copies of the stored values
        name, k = c[0], out["k"]
        if name in ("create_new_search", "create_new_job"):
            if k == "id":
                i = out["v"]
                if i in self.ids:
                    self.flag("unique-id", name, {"id": i})
                self.ids.add(i)
                if name == "create_new_search":
                    self.searches[i] = {"vals": {}, "jobs": []}
                elif c[1] in self.searches:
                    self.jobs[i] = {"sid": c[1], "rec": copy.deepcopy(NEWJOB), "opaque": False}
                    self.searches[c[1]]["jobs"].append(i)
            elif name == "create_new_job" and c[1] in self.searches and not self.searches[c[1]].get("opaque"):
                self.flag("lost-value", name, {"search": c[1], "got": out})
            return
        if name.startswith("store_job"):
            j = self.jobs.get(c[1])
            if j is None:
                if k != "error":
                    self.flag("phantom", name, {"job": c[1], "got": out})
                return
            if j["opaque"] or self.searches[j["sid"]].get("opaque"):
                return
            if name == "store_job_metadata":
                md = j["rec"].get("metadata")
                if isinstance(md, dict) and "d" in md:
                    if k != "none":
                        self.flag("lost-value", name, {"job": c[1], "got": out})
                        return
                    for p in md["d"]:
                        if p[0] == c[2]:
                            p[1] = c[3]
                            break
                    else:
                        md["d"].append([c[2], c[3]])
                return
            if k != "none":
                self.flag("lost-value", name, {"job": c[1], "got": out})
                return
            if name == "store_job":
                j["rec"][c[2]] = c[3]
            elif name == "store_job_in":
                j["rec"]["in"] = {"d": [["args", c[2]], ["kwargs", c[3]]]}
            elif name == "store_job_out":
                j["rec"]["out"] = c[2]
            elif name == "store_job_status":
                j["rec"]["status"] = c[2]
            return
        if name == "store_search_value":
            s = self.searches.get(c[1])
            if s is None:
                if k != "error":
                    self.flag("phantom", name, {"search": c[1], "got": out})
                return
            if c[2] in RESERVED:
                s["opaque"] = True   # overwrote the storage's own bookkeeping entry: outside the property
                return
            if k != "none":
                self.flag("lost-value", name, {"search": c[1], "got": out})
                return
            s["vals"][c[2]] = c[3]
            return
        # ---- loads
        if name in ("load_job", "load_job_status"):
            j = self.jobs.get(c[1])
            if j is None:
                if k != "error":
                    self.flag("phantom", name, {"job": c[1], "got": out})
                return
            if j["opaque"] or self.searches[j["sid"]].get("opaque"):
                return
            want = self.rec_val(j) if name == "load_job" else j["rec"].get("status")
            if k != "val" or cv(out["v"]) != cv(want):
                self.flag("read-your-writes", name, {"job": c[1], "got": out, "want": cv(want)})
            return
        if name in ("load_search", "load_all_job_ids", "load_out_from_all_jobs", "load_metadata_from_all_jobs", "load_search_value"):
            s = self.searches.get(c[1])
            if s is None:
                if k != "error":
                    self.flag("phantom", name, {"search": c[1], "got": out})
                return
            if s.get("opaque") or any(self.jobs[j]["opaque"] for j in s["jobs"]):
                return
            if name == "load_search_value":
                if c[2] in RESERVED:
                    return
                if c[2] in s["vals"]:
                    if k != "val" or cv(out["v"]) != cv(s["vals"][c[2]]):
                        self.flag("read-your-writes", name, {"search": c[1], "key": c[2], "got": out, "want": cv(s["vals"][c[2]])})
                elif k != "error":
                    self.flag("phantom", name, {"search": c[1], "key": c[2], "got": out})
                return
            if name == "load_all_job_ids":
                if k != "ids" or sorted(out["v"]) != sorted(s["jobs"]):
                    self.flag("read-your-writes", name, {"search": c[1], "got": out, "want": s["jobs"]})
                return
            if name == "load_search":
                want = {"d": [[j.split(".", 1)[1], self.rec_val(self.jobs[j])] for j in s["jobs"]]}
                if k != "val" or cv(out["v"]) != cv(want):
                    self.flag("read-your-writes", name, {"search": c[1], "got": out, "want": cv(want)})
                return
            if name == "load_out_from_all_jobs":
                want = [self.jobs[j]["rec"].get("out") for j in s["jobs"]]
            else:
                want = []
                for j in s["jobs"]:
                    md = self.jobs[j]["rec"].get("metadata")
                    if not (isinstance(md, dict) and "d" in md):
                        return  # metadata replaced by a non-dict through store_job: outside the property
                    want.append(dict(md["d"]).get(c[2]))
            want = [w for w in want if w is not None]
            key = lambda w: json.dumps(cv(w), sort_keys=True)  # noqa: E731
            if k != "vals" or sorted(map(key, out["v"])) != sorted(map(key, want)):
                self.flag("read-your-writes", name, {"search": c[1], "got": out, "want": want})
            return
        if name == "load_all_search_ids":
            if k != "ids" or sorted(out["v"]) != sorted(self.searches):
                self.flag("read-your-writes", name, {"got": out, "want": sorted(self.searches)})
            return
        if name == "load_jobs":
            if any(j not in self.jobs for j in c[1]):
                if k != "error":
                    self.flag("phantom", name, {"jobs": c[1], "got": out})
                return
            if any(self.jobs[j]["opaque"] or self.searches[self.jobs[j]["sid"]].get("opaque") for j in c[1]):
                return
            want = {"d": [[j, self.rec_val(self.jobs[j])] for j in dict.fromkeys(c[1])]}
            if k != "val" or cv(out["v"]) != cv(want):
                self.flag("read-your-writes", name, {"jobs": c[1], "got": out, "want": cv(want)})

    @staticmethod
    def rec_val(j):
        return {"d": [[k, v] for k, v in j["rec"].items()]}


# --------------------------------------------------------------------------- running one history


class Snap:
    """objects returned by load_job / load_search, re-checked after every later call"""

    def __init__(self, limit=6):
        self.kept, self.limit = [], limit

    def keep(self, c, obj, idx):
        if len(self.kept) >= self.limit:
            self.kept.pop(0)
        self.kept.append((c, obj, json.dumps(enc(obj)), idx))

    def check(self, now):
        for c, obj, was, idx in self.kept:
            if json.dumps(enc(obj)) != was:
                return {"loaded_by": c, "at": idx, "changed_after": now, "was": json.loads(was), "is": enc(obj)}
        return None

    def rebase(self):
        """the caller edited an object it holds: what the kept objects look like now is the new reference"""
        self.kept = [(c, obj, json.dumps(enc(obj)), idx) for c, obj, _, idx in self.kept]

    def drop(self, idx):
        self.kept = [k for k in self.kept if k[3] != idx]


# --------------------------------------------------------------------------- what the CALLER does with loaded data
#
# Two pseudo calls say what a caller does with an object a load returned to it.  They are not storage operations: the
# model, the simple map and the verified checker never see them, and every load must answer as if they had not happened
# ("each load returns exactly the last value stored", "a write to one job never changes another").
#   ["caller_edit", h, mode]                         edit in place the object returned by call number h of the history
#   ["store_loaded", h, path, method, target, key]   hand (the part at `path` of) that object back to the storage:
#                                                    method(target[, key], <that very object>)
# Whose object is it?  load_job / load_search return snapshots (the statement): the whole tree belongs to the caller, who
# may edit every container in it and give any part of it to the storage again.  The other loads return a fresh list / dict
# whose items may be live (load_jobs: documented): only that outer container is the caller's.  Once (a part of) an object
# has been handed back it is shared with the storage by the caller's own doing (an in-process MemoryStorage keeps what it is
# given by reference, as a dict does; the statement says nothing about copies on the store side): such an object is neither
# edited nor handed back a second time (the runner skips such actions, so a shrunk or hand-written replay cannot demand it).

CALLER = ("caller_edit", "store_loaded")
HANDLE_DEEP = ("load_job", "load_search")
HANDLE_OUTER = ("load_jobs", "load_all_search_ids", "load_all_job_ids", "load_out_from_all_jobs", "load_metadata_from_all_jobs")
EDIT_MODES = {0: "top", 1: "nested", 2: "all", 3: "drop"}
_MISSING = object()


def has_caller(calls):
    return any(c[0] in CALLER for c in calls)


def _containers_below(obj):
    """every dict / list strictly inside obj (reached through dicts, lists and tuples), each once"""
    seen, out, stack = {id(obj)}, [], [obj]
    while stack:
        x = stack.pop()
        kids = list(x.values()) if isinstance(x, dict) else list(x) if isinstance(x, (list, tuple)) else []
        for y in kids:
            if isinstance(y, (dict, list, tuple)) and id(y) not in seen:
                seen.add(id(y))
                if not isinstance(y, tuple):
                    out.append(y)
                stack.append(y)
    return out


def _edit(x, mark, replace_containers):
    try:
        if isinstance(x, dict):
            for k in list(x):
                if replace_containers or not isinstance(x[k], (dict, list, tuple)):
                    x[k] = mark
            x["_edited"] = mark
        elif isinstance(x, list):
            for i in range(len(x)):
                if replace_containers or not isinstance(x[i], (dict, list, tuple)):
                    x[i] = mark
            x.append(mark)
    except Exception:
        pass   # an object the caller cannot edit is as good as private


def caller_edit(obj, mode, deep, mark):
    """the caller edits, in place, an object a load returned to it.
    top: every entry of the returned container replaced, one added; nested: the same inside every container below it
    (entries that are containers are kept and edited themselves); all: both levels; drop: the first entry removed"""
    if not deep and mode in (1, 2):
        mode = 0
    if mode == 3:
        try:
            if isinstance(obj, dict) and obj:
                del obj[next(iter(obj))]
            elif isinstance(obj, list) and obj:
                obj.pop(0)
        except Exception:
            pass
        return
    if mode in (1, 2):
        for x in _containers_below(obj):
            _edit(x, mark, False)
    if mode == 0:
        _edit(obj, mark, True)
    elif mode == 2:
        _edit(obj, mark, False)


def sub_object(obj, path):
    for p in path:
        if isinstance(obj, dict) and p in obj:
            obj = obj[p]
        elif isinstance(obj, (list, tuple)) and isinstance(p, int) and -len(obj) <= p < len(obj):
            obj = obj[p]
        else:
            return _MISSING
    return obj


def lower_store_loaded(c, obj):
    """-> (the storage call with the object's present value on the wire, positional Python arguments holding the object)"""
    _, _h, _path, method, target, key = c
    w = enc_in(obj)
    if method in ("store_job", "store_job_metadata", "store_search_value"):
        return [method, target, key, w], (target, key, obj)
    if method == "store_job_out":
        return [method, target, w], (target, obj)
    if method == "store_job_in":
        return [method, target, {"t": [w]}, None], (target, (obj,), None)
    return None, None


class Runner:
    """executes a history call by call on a real storage; keeps the objects the loads returned (the caller's handles)"""

    def __init__(self, st, label, judge=True, opaque=False):
        self.st, self.label, self.judge, self.opaque = st, label, judge, opaque
        self.sm, self.snap = SimpleMap(label), Snap()
        self.calls, self.outs, self.eff, self.snap_bad = [], [], [], None
        self.handles, self.given = {}, set()
        self.views = {}      # client handles (Job / RunningJob objects) that live as long as the history

    def _caller(self, c, idx):
        """-> (out, effective storage call or None)"""
        h = c[1]
        obj = self.handles.get(h, _MISSING) if isinstance(h, int) else _MISSING
        if obj is _MISSING or h in self.given:
            return {"k": "skipped"}, None
        deep = self.calls[h][0] in HANDLE_DEEP
        if c[0] == "caller_edit":
            caller_edit(obj, c[2] if len(c) > 2 else 2, deep, 900 + idx)
            self.snap.rebase()
            return {"k": "caller"}, None
        if not deep or len(c) != 6:
            return {"k": "skipped"}, None
        part = sub_object(obj, c[2])
        if part is _MISSING or (c[3] == "store_search_value" and c[5] in RESERVED):
            return {"k": "skipped"}, None
        low, args = lower_store_loaded(c, part)
        if low is None:
            return {"k": "skipped"}, None
        self.given.add(h)
        self.snap.drop(h)
        try:
            r = getattr(self.st, c[3])(*args)
            out = out_of(c[3], r)
        except Exception as e:
            out = {"k": "error", "v": type(e).__name__}
        return out, low

    def do(self, c):
        idx = len(self.calls)
        self.calls.append(c)
        name = c[0]
        if name in CALLER:
            out, e = self._caller(c, idx)
        else:
            out, obj = call_real2(self.st, c, self.views)
            e = c
            if out["k"] != "error" and isinstance(obj, (dict, list)) and (name in HANDLE_DEEP or name in HANDLE_OUTER):
                self.handles[idx] = obj
                if name in HANDLE_DEEP:
                    self.snap.keep(c, obj, idx)
                    if self.opaque and self.snap_bad is None:
                        nc = not_a_copy(obj)
                        if nc is not None:
                            self.snap_bad = {"loaded_by": c, "at": idx, **nc}
        self.outs.append(out)
        self.eff.append(e)
        if self.judge and e is not None:
            self._judge(tok(e) if self.opaque else e, out)
        if self.snap_bad is None and self.snap.kept and name != "caller_edit":
            self.snap_bad = self.snap.check(idx)
        return out

    def _judge(self, c, out):
        judge_call(self.sm, c, out)


def judge_call(sm, c, out):
    """one call with the answer the real code gave, before the simple map (evaluator-level status accesses included)"""
    c = norm_call(c)
    if c[0] in ("job_status", "running_job_status"):
        # the evaluator-level getter shows JobStatus(<stored status>) (ValueError if that is no JobStatus)
        j = sm.jobs.get(c[1])
        if j is None:
            if out["k"] != "error":
                sm.flag("phantom", c[0], {"job": c[1], "got": out})
        elif not (j["opaque"] or sm.searches[j["sid"]].get("opaque")):
            want = expected_view_out(c, {"k": "val", "v": j["rec"].get("status")})
            if cout(out) != cout(want):
                sm.flag("read-your-writes", c[0], {"job": c[1], "got": out, "want": want})
    elif c[0] == "job_status_set":
        sm.observe(to_storage_call(c), out)
    else:
        sm.observe(c, out)


def run_history_eff(st, calls, label, judge=True):
    """-> (outs, simple-map verdicts, snapshot verdict, effective storage calls: None for a pure caller action, the
    concrete store call for a hand-back)"""
    rn = Runner(st, label, judge=judge, opaque=has_opaque(calls))
    for c in calls:
        rn.do(c)
    return rn.outs, rn.sm.bad, rn.snap_bad, rn.eff


def run_history(st, calls, label, judge=True):
    """-> (outs, simple-map verdicts, snapshot verdict)"""
    return run_history_eff(st, calls, label, judge)[:3]


def storage_level(calls, outs, eff):
    """the storage operations of a history with their answers (caller actions left out / lowered)"""
    ks = [i for i, e in enumerate(eff) if e is not None]
    return [eff[i] for i in ks], [outs[i] for i in ks], ks


# --------------------------------------------------------------------------- concrete calls from kinds

VALS = [{"i": 1}, {"f": "1/2"}, {"s": "x"}, None, {"l": [{"i": 1}, {"s": "y"}]}, {"d": [["p", {"i": 2}], ["q", None]]},
        True, {"i": 0}, {"t": [{"i": 1}, {"i": 2}]}, {"f": "-3/4"}]


def concretize(kind, i, rot, sids, jids):
    """arguments by rotation over (at most) 2 searches x 3 jobs x 2 keys"""
    ss = sids[:2]
    js = [j for j in jids if j.split(".")[0] in ss and int(j.split(".")[1]) < 3] or jids[:6]
    sid = ss[(i + rot) % len(ss)] if ss else "0"
    jid = js[(i + rot) % len(js)] if js else "0.0"
    key = "ab"[(i + rot // 2) % 2]
    v = VALS[(i * 3 + rot) % len(VALS)]
    # distinct payloads so that a lost / misplaced write is visible
    if isinstance(v, dict) and "i" in v:
        v = {"i": 10 * i + rot}
    return {
        "cs": ["create_new_search"], "cj": ["create_new_job", sid],
        "sj": ["store_job", jid, "extra_" + key, v], "sin": ["store_job_in", jid, {"t": [{"d": [["x", v]]}]}, None if rot % 2 else {"d": [["k", {"i": i}]]}],
        "sout": ["store_job_out", jid, v], "smeta": ["store_job_metadata", jid, key, v],
        "sstatus": ["store_job_status", jid, {"i": (i + rot) % 5}], "ssv": ["store_search_value", sid, key, v],
        "lsids": ["load_all_search_ids"], "ljids": ["load_all_job_ids", sid], "lsearch": ["load_search", sid],
        "ljob": ["load_job", jid], "lsv": ["load_search_value", sid, key], "lmeta": ["load_metadata_from_all_jobs", sid, key],
        "lout": ["load_out_from_all_jobs", sid], "ljobs": ["load_jobs", js[: 1 + (i + rot) % 3] if js else ["0.0"]],
        "lstatus": ["load_job_status", jid],
    }[kind]


def ids_of(calls, outs):
    sids = [o["v"] for c, o in zip(calls, outs) if c[0] == "create_new_search" and o["k"] == "id"]
    jids = [o["v"] for c, o in zip(calls, outs) if c[0] == "create_new_job" and o["k"] == "id"]
    return sids, jids


# --------------------------------------------------------------------------- storages


def new_memory():
    from deephyper.evaluator.storage import MemoryStorage

    return MemoryStorage()


class SharedFactory:
    """fresh shared storages served by ONE manager process (what `SharedMemoryStorage()` does, minus a new
    server process per storage); `public()` calls the public function itself"""

    def __init__(self):
        from multiprocessing.managers import BaseManager

        import deephyper.evaluator.storage._shared_memory_storage  # noqa: F401  (registers "MemoryStorage")

        self.m = BaseManager()
        self.m.start()

    def new(self):
        return self.m.MemoryStorage()

    @staticmethod
    def public():
        from deephyper.evaluator.storage import SharedMemoryStorage

        return SharedMemoryStorage()

    def close(self):
        try:
            self.m.shutdown()
        except Exception:
            pass


# --------------------------------------------------------------------------- reporting helpers


class Sink:
    """collects what a (possibly remote) worker found; folded into the Check object by the parent"""

    def __init__(self):
        self.cases, self.counts, self.mism, self.fails = [], {}, [], {}

    def count(self, k, n=1):
        self.counts[k] = self.counts.get(k, 0) + n

    def case(self, case, nontrivial=True):
        self.cases.append((common.canon(case), nontrivial))

    def mismatch(self, case, detail):
        if len(self.mism) < 5:
            self.mism.append((case, detail))
        self.count("L2_mismatch_raw")

    def fail(self, fp, what, case, detail=None):
        if fp not in self.fails:
            self.fails[fp] = [what, case, detail, 0]
        self.fails[fp][3] += 1

    def fold(self, ck):
        for n, (cc, nt) in enumerate(self.cases):
            ck.case(json.loads(cc) if n < 2 else cc, nontrivial=nt)
        for k, n in self.counts.items():
            if k != "L2_mismatch_raw":
                ck.count(k, n)
        for case, detail in self.mism:
            ck.mismatch(case, detail)
        for fp, (what, case, detail, n) in self.fails.items():
            for _ in range(n):
                ck.fail(fp, what, case, detail)


def drop_call(calls, i):
    """the history without call i (and without the caller actions on the object call i returned); the call numbers the
    remaining caller actions refer to are renumbered"""
    gone = {i} | {k for k, c in enumerate(calls) if c[0] in CALLER and c[1] == i}
    renum, n = {}, 0
    for k in range(len(calls)):
        if k not in gone:
            renum[k] = n
            n += 1
    out = []
    for k, c in enumerate(calls):
        if k in gone:
            continue
        if c[0] in CALLER:
            if c[1] not in renum:
                continue
            c = [c[0], renum[c[1]]] + list(c[2:])
        out.append(c)
    return out


def shrink_history(storage_label, calls, clause, method, factory):
    """delete calls while the same clause still fails on the same method"""

    def fails(cs):
        st = new_memory() if storage_label == "MemoryStorage" else factory.new()
        outs, bad, snap_bad = run_history(st, cs, storage_label)
        if clause == "snapshot":
            return snap_bad is not None
        return any(b[0] == clause and b[1] == method for b in bad)

    best = list(calls)
    i = len(best) - 1
    tries = 0
    while i >= 0 and tries < 300:
        cand = drop_call(best, i)
        tries += 1
        if cand and fails(cand):
            best = cand
        i = min(i, len(best)) - 1
    return best


def variant(label, calls):
    """4th component of the fingerprint: the storage, and what the caller of the (shrunk) history does with loaded data"""
    kinds = sorted({c[0] for c in calls if c[0] in CALLER})
    return label + ("/" + "+".join(kinds) if kinds else "")


def judge_history(sink, calls, label, outs, bad, snap_bad, factory):
    for clause, method, detail in bad[:3]:
        fp0 = f"C13|{clause}|{method}|{variant(label, calls)}"
        if not has_caller(calls) and fp0 in sink.fails and sink.fails[fp0][3] >= 3:
            sink.fail(fp0, f"{label}.{method}: {clause}", {"kind": "history", "storage": label, "calls": calls}, detail)   # shrunk thrice already
            continue
        small = shrink_history(label, calls, clause, method, factory) if len(calls) <= 60 else calls
        sink.fail(f"C13|{clause}|{method}|{variant(label, small)}", f"{label}.{method}: {clause}", {"kind": "history", "storage": label, "calls": small}, detail)
    if snap_bad is not None:
        small = shrink_history(label, calls, "snapshot", snap_bad["loaded_by"][0], factory) if len(calls) <= 60 else calls
        sink.fail(f"C13|snapshot|{snap_bad['loaded_by'][0]}|{variant(label, small)}", f"{label}: object returned by {snap_bad['loaded_by'][0]} changed after a later call",
                  {"kind": "history", "storage": label, "calls": small}, snap_bad)


KNOWN_ERRORS = {"KeyError", "ValueError", "TypeError", "AttributeError"}
CHECKER_CLAUSES = {"unique-id", "read-your-writes", "lost-value", "phantom"}


def check_request(calls, outs):
    """the observed history for the verified checker (C13_checker): storage-level calls with the REAL answers.
    Evaluator-level status reads are left out (they do not change the storage), the setter is the storage call it makes;
    the history is cut before the first call that overwrites a bookkeeping key (outside the specification)."""
    cs, os_ = [], []
    for c, o in zip(calls, outs):
        if c[0] == "store_search_value" and c[2] in RESERVED:
            break
        if o["k"] == "error" and o["v"] not in KNOWN_ERRORS:
            return None
        if c[0] in ("job_status", "running_job_status"):
            continue
        if typed_job_id(c):
            if o["k"] != "error":
                return None   # judged by the simple map (phantom); the specification has no call for it
            continue          # raised before anything was looked up: no storage operation took place
        cs.append(to_storage_call(c))
        os_.append(o)
    if not cs:
        return None
    return {"op": "check", "calls": cs, "outs": os_}


def cross_check(sink, case, label, calls, bad, rep):
    """Lean's verified verdict on the real answers vs. the Python simple map (a disagreement is a mismatch, not a violation)"""
    cut = next((i for i, c in enumerate(calls) if c[0] == "store_search_value" and c[2] in RESERVED), len(calls))
    py_bad = sorted({b[0] for b in bad if b[0] in CHECKER_CLAUSES and b[1] not in ("job_status", "running_job_status")}) if cut == len(calls) else None
    sink.count("checker:spec-true" if rep["spec"] else "checker:spec-false")
    if py_bad is None:
        return   # the history leaves the specification at `cut`; the Python map stopped judging that search there
    if rep["spec"] and py_bad:
        # the specification constrains load_out_from_all_jobs / load_metadata_from_all_jobs as SETS of values, the Python map
        # as multisets: a Python-only complaint about these two is no disagreement
        py_bad = sorted({b[0] for b in bad if b[0] in CHECKER_CLAUSES
                         and b[1] not in ("job_status", "running_job_status", "load_out_from_all_jobs", "load_metadata_from_all_jobs")})
    if bool(rep["spec"]) != (not py_bad):
        sink.mismatch(case, {"what": f"verified checker (C13_checker) and the Python simple map disagree on the answers of {label}",
                             "lean_spec": rep["spec"], "lean_first_bad_answer": rep.get("bad"), "python_clauses": py_bad})


def compare_outs(sink, case, a_label, a, b_label, b):
    for i, (x, y) in enumerate(zip(a, b)):
        if cout(x) != cout(y):
            return {"call": i, a_label: cout(x), b_label: cout(y)}
    return None


# --------------------------------------------------------------------------- (a) exhaustive kind sequences

PREAMBLES = {
    "empty": [],
    "1x1": [["create_new_search"], ["create_new_job", "0"]],
    "2x3": [["create_new_search"], ["create_new_search"], ["create_new_job", "0"], ["create_new_job", "0"], ["create_new_job", "1"],
            ["create_new_job", "0"], ["create_new_job", "1"], ["create_new_job", "1"]],
}


def fan_worker(item):
    """all histories  prefix + [kind]  for the given prefixes (kind sequences); returns a Sink"""
    prefixes, rot, use_shared, preamble = item
    common.use_repo_sources()
    sink = Sink()
    factory = SharedFactory() if use_shared else None
    reqs, metas, checks = [], [], []
    try:
        for prefix in prefixes:
            # prefix on a fresh MemoryStorage
            def run_prefix(st):
                calls = [list(c) for c in PREAMBLES[preamble]]
                outs = [call_real(st, c) for c in calls]
                for i, kind in enumerate(prefix, start=len(calls)):
                    sids, jids = ids_of(calls, outs)
                    c = concretize(kind, i, rot, sids, jids)
                    calls.append(c)
                    outs.append(call_real(st, c))
                return calls, outs

            st = new_memory()
            pcalls, pouts = run_prefix(st)
            sids, jids = ids_of(pcalls, pouts)
            i = len(pcalls)
            alts = [concretize(k, i, rot, sids, jids) for k in KINDS]
            alt_outs = {}
            for k, c in zip(KINDS, alts):
                calls = pcalls + [c]
                case = {"kind": "history", "calls": calls}
                sink.case(case, nontrivial=len(jids) > 0)
                sink.count("schedule:exhaustive-kinds/" + preamble)
                sink.count(f"len={len(calls)}")
                for cc in calls[-1:]:
                    sink.count("op:" + cc[0])
                stj = new_memory()
                outs, bad, snap_bad = run_history(stj, calls, "MemoryStorage")
                o = alt_outs[k] = outs[-1]
                sink.count("out:" + (o["v"] if o["k"] == "error" else o["k"]))
                if [cout(x) for x in outs[:-1]] != [cout(x) for x in pouts]:
                    sink.mismatch(case, {"what": "MemoryStorage is not deterministic", "first": outs[:-1], "second": pouts})
                judge_history(sink, calls, "MemoryStorage", outs, bad, snap_bad, factory)
                q = check_request(calls, outs)
                if q is not None:
                    checks.append((q, case, "MemoryStorage", calls, bad))
                if use_shared:
                    sts = factory.new()
                    souts, sbad, ssnap = run_history(sts, calls, "SharedMemoryStorage")
                    q = check_request(calls, souts)
                    if q is not None:
                        checks.append((q, case, "SharedMemoryStorage", calls, sbad))
                    sink.count("shared-histories")
                    d = compare_outs(sink, case, "memory", outs, "shared", souts)
                    if d is not None:
                        sink.fail(f"C13|shared-equals-memory|{calls[d['call']][0]}|SharedMemoryStorage", "SharedMemoryStorage answers differently from MemoryStorage",
                                  {"kind": "history", "storage": "both", "calls": calls}, d)
                    judge_history(sink, calls, "SharedMemoryStorage", souts, sbad, ssnap, factory)
            reqs.append({"op": "fan", "calls": pcalls, "alts": alts})
            metas.append((pcalls, pouts, alts, [alt_outs[k] for k in KINDS]))
        with common.LeanDriver("C13") as drv:
            reps = drv.ask_all(reqs)
            creps = drv.ask_all([c[0] for c in checks])
        for (_, case, label, calls, bad), rep in zip(checks, creps):
            cross_check(sink, case, label, calls, bad, rep)
        for (pcalls, pouts, alts, aouts), rep in zip(metas, reps):
            d = compare_outs(sink, None, "impl", pouts, "model", rep["outs"])
            if d is not None:
                sink.mismatch({"kind": "history", "calls": pcalls}, d)
            for c, x, y in zip(alts, aouts, rep["alts"]):
                if cout(x) != cout(y):
                    sink.mismatch({"kind": "history", "calls": pcalls + [c]}, {"call": len(pcalls), "impl": cout(x), "model": cout(y)})
    finally:
        if factory:
            factory.close()
    return sink


# --------------------------------------------------------------------------- (b) generated histories

BAD_IDS = ["", "0", "0.", ".0", "0.0.0", "9.9", "x", "00.0", "0.00", "1.7", "7"]


# keys of every type a dict accepts, next to the strings they print as (`str(1) == "1"`, `str(None) == "None"`, …): a storage that
# keeps what it is given keeps them apart.  Within a family, entries that are EQUAL for a Python dict (1, 1.0, True) are one key.
T01 = {"t": [{"i": 0}, {"i": 1}]}
KEY_FAMILIES = [
    [{"i": 1}, "1", True, {"f": "1/1"}, "1.0", "True"],
    [{"i": 0}, "0", False, "False", "0.0", {"f": "0/1"}],
    [None, "None", "", "none"],
    [T01, "(0, 1)", {"t": [{"s": "a"}]}, "('a',)", "a", {"t": []}, "()"],
    [{"f": "5/2"}, "2.5", {"i": 2}, "2", {"f": "-5/2"}, "-2.5"],
    ["#N", None, "#n1/1", {"i": 1}, "#s", "#", "#s#"],
    [{"t": [{"s": "1:a"}]}, {"t": [{"s": "1"}, {"s": "a"}]}, "1:a", {"t": [None, True]}, {"t": [{"s": "#N"}, {"i": 1}]}],
]
DICT_KEYS_TYPED = ["p", {"i": 1}, "1", None, "None", T01, "(0, 1)", {"f": "5/2"}, "2.5", "", "#N", False]   # no two equal for a dict
TYPED_SIDS = [{"i": 0}, {"i": 1}, {"f": "0/1"}, None, True, {"t": [{"s": "0"}]}]
TYPED_JIDS = [{"f": "0/1"}, {"f": rat(0.1)}, {"i": 0}, None, {"t": [{"s": "0"}, {"s": "0"}]}, {"t": [{"i": 0}, {"i": 0}]}]


def twin(w, rng=None):
    """a value that is EQUAL to `w` for Python (`True == 1 == 1.0`, containers of such) but is another value; None if there is none"""
    if w is True or w is False:
        return {"i": int(w)} if (rng is None or rng.random() < 0.6) else {"f": f"{int(w)}/1"}
    if not isinstance(w, dict):
        return None
    (tag, x), = w.items()
    if tag == "i":
        if x in (0, 1) and (rng is None or rng.random() < 0.6):
            return bool(x)
        return {"f": f"{x}/1"}
    if tag == "f":
        num, den = x.split("/")
        return {"i": int(num)} if den == "1" else None
    if tag in ("l", "t"):
        for n, y in enumerate(x):
            t = twin(y, rng)
            if t is not None:
                return {tag: x[:n] + [t] + x[n + 1:]}
        return None
    if tag == "d":
        for n, (k, y) in enumerate(x):
            t = twin(y, rng)
            if t is not None:
                return {"d": x[:n] + [[k, t]] + x[n + 1:]}
    return None


def gen_value(rng, depth=0, tkeys=0.0):
    x = rng.random()
    if depth > 2 or x < 0.55:
        return rng.choice([{"i": rng.randint(-5, 50)}, {"f": rat(rng.choice([0.5, -1.25, 3.0, 1e-3, 2.5e8]))}, {"s": rng.choice(["", "a", "F", "0.0", "é"])},
                           None, True, False])
    if x < 0.7:
        return {"l": [gen_value(rng, depth + 1, tkeys) for _ in range(rng.randint(0, 3))]}
    if x < 0.8:
        return {"t": [gen_value(rng, depth + 1, tkeys) for _ in range(rng.randint(0, 2))]}
    if tkeys and rng.random() < tkeys:
        ks = rng.sample(DICT_KEYS_TYPED, rng.randint(1, 4))
    else:
        ks = rng.sample(["p", "q", "r", "a", "metadata"], rng.randint(0, 3))
    return {"d": [[k, gen_value(rng, depth + 1, tkeys)] for k in ks]}


def gen_value_objects(rng, depth=0):
    """values of the in-process stream: arbitrary Python objects (and containers holding them) among ordinary values"""
    x = rng.random()
    if x < 0.35:
        return {"o": rng.randint(0, 11)}
    if x < 0.55 and depth < 2:
        return rng.choice([{"l": [gen_value_objects(rng, depth + 1), {"i": 1}]}, {"t": [gen_value_objects(rng, depth + 1)]},
                           {"d": [["f", gen_value_objects(rng, depth + 1)], ["n", {"i": depth}]]}])
    return gen_value(rng, depth)


LOADED_PATHS = {"load_job": [[], ["metadata"], ["in"], ["in", "kwargs"], ["in", "args"], ["out"], ["intermediate"], ["intermediate", "budget"]],
                "load_search": [["0"], ["0", "metadata"], ["1", "metadata"], ["1"], ["0", "in"], ["2", "metadata"]]}


def gen_caller_action(rng, rn, jids, sids):
    """what a caller does with an object an earlier load of the running history returned -> (action, follow-up calls)"""
    live = [h for h in rn.handles if h not in rn.given]
    if not live:
        return None, []
    h = rng.choice(live[-4:])
    src = rn.calls[h]
    deep = src[0] in HANDLE_DEEP
    again = [list(src)]                      # the same load once more: it must still show what is stored
    if src[0] == "load_job":
        again.append([rng.choice(["load_job_status", "job_status", "running_job_status", "load_job"]), src[1]])
    if not deep or rng.random() < 0.5:
        return ["caller_edit", h, rng.choice([0, 3]) if not deep else rng.choice([0, 1, 2, 2, 3])], again
    target = rng.choice(jids[-6:])
    method = rng.choice(["store_job", "store_job", "store_job", "store_job_out", "store_job_metadata", "store_search_value", "store_job_in"])
    path = rng.choice(LOADED_PATHS[src[0]])
    key = rng.choice(["a", "b"])
    if method == "store_job":
        key = rng.choice(["metadata", "metadata", "extra_" + key])
    if method == "store_search_value":
        target = rng.choice(sids)
    act = ["store_loaded", h, path, method, target, key]
    follow = []
    if method != "store_search_value" and rng.random() < 0.8:
        # the only call that changes a stored object in place: extend / overwrite the metadata of the job that received it
        follow.append(["store_job_metadata", target, rng.choice(["a", "b", "k"]), {"i": rng.randint(60, 99)}])
    return act, follow + again


def gen_history(rng, n, malformed, valgen=None, alias=0.0, tkeys=0.0):
    """calls are generated against a running MemoryStorage so that most of them hit existing objects.
    alias > 0: with that probability per step the caller edits / hands back an object an earlier load returned.
    tkeys > 0: keys (of search values, metadata, job records, dicts inside values) of every hashable type next to the strings
    they print as, now and then an identifier that is not a str; status accesses through named client handles"""
    if valgen is None:
        valgen = (lambda r, d=0: gen_value(r, d, tkeys)) if tkeys else gen_value
    fam = rng.choice(KEY_FAMILIES) if tkeys and rng.random() < 0.85 else None
    hnames = [None, "A", "B", "R"] if (tkeys or rng.random() < 0.5) else [None]
    rn = Runner(new_memory(), "generator", judge=False)
    calls, outs = rn.calls, rn.outs
    pending = []
    while len(calls) < n:
        sids, jids = ids_of(calls, outs)
        if pending:
            rn.do(pending.pop(0))
            continue
        if alias and jids and rng.random() < alias:
            act, pending = gen_caller_action(rng, rn, jids, sids)
            if act is not None:
                rn.do(act)
                if rng.random() < 0.3:     # sometimes other calls come first
                    pending = []
                continue
        x = rng.random()
        if not sids or x < 0.04:
            kind = "cs"
        elif not jids or x < 0.14:
            kind = "cj"
        else:
            kind = rng.choice(KINDS[2:] if rng.random() < 0.95 else KINDS)
        sid = rng.choice(sids[:2] if rng.random() < 0.8 else sids) if sids else "0"
        jid = rng.choice(jids[-6:] if rng.random() < 0.7 else jids) if jids else "0.0"
        key = rng.choice(["a", "b"])
        if fam is not None and rng.random() < 0.8:
            key = rng.choice(fam)
        if tkeys and rng.random() < 0.05:
            if rng.random() < 0.5:
                jid = rng.choice(TYPED_JIDS)
            else:
                sid = rng.choice(TYPED_SIDS)
        if malformed and rng.random() < 0.12:
            y = rng.random()
            if y < 0.4:
                jid = rng.choice(BAD_IDS)
            elif y < 0.6:
                sid = rng.choice(BAD_IDS)
            else:
                key = rng.choice(["metadata", "status", "out", "in", "intermediate", "", "a.b"])
        v = valgen(rng)
        if malformed and jids and rng.random() < 0.04:
            # metadata replaced through store_job (dict or not), then used
            rn.do(["store_job", jid, "metadata", rng.choice([None, {"i": 3}, {"l": []}, {"s": "m"}, {"d": [["a", {"i": 1}]]}, {"d": []}])])
            kind = rng.choice(["smeta", "lmeta", "ljob", "smeta"])
        c = {
            "cs": ["create_new_search"], "cj": ["create_new_job", sid], "sj": ["store_job", jid, key if (malformed or fam is not None) else "extra_" + key, v],
            "sin": ["store_job_in", jid, {"t": [valgen(rng, 1)]}, rng.choice([None, {"d": [["k", v]]}])],
            "sout": ["store_job_out", jid, v], "smeta": ["store_job_metadata", jid, key, v],
            "sstatus": ["store_job_status", jid, {"i": rng.randint(0, 4)}], "ssv": ["store_search_value", sid, key, v],
            "lsids": ["load_all_search_ids"], "ljids": ["load_all_job_ids", sid], "lsearch": ["load_search", sid], "ljob": ["load_job", jid],
            "lsv": ["load_search_value", sid, key if rng.random() < 0.9 else rng.choice(RESERVED)], "lmeta": ["load_metadata_from_all_jobs", sid, key],
            "lout": ["load_out_from_all_jobs", sid],
            "ljobs": ["load_jobs", [rng.choice(jids) for _ in range(rng.randint(0, 3))] if jids and rng.random() < 0.9 else [jid, rng.choice(BAD_IDS)]],
            "lstatus": ["load_job_status", jid],
        }[kind]
        if c[0] == "load_job_status" and rng.random() < 0.5:
            h = rng.choice(hnames)
            c = [rng.choice(["job_status", "running_job_status"]), c[1]] + ([h] if h else [])
        elif c[0] == "store_job_status" and rng.random() < 0.5:
            h = rng.choice(hnames)
            c = ["job_status_set", c[1], c[2]] + ([h] if h else [])
        rn.do(c)
        if kind in ("sj", "sout", "sin", "smeta", "ssv", "sstatus") and rng.random() < 0.12:
            # the same place stored again with a value that is equal for Python but another value (True over 1, 3.0 over 3, …)
            vi = {"sj": 3, "sout": 2, "sin": 2, "smeta": 3, "ssv": 3, "sstatus": 2}[kind]
            t = twin(c[vi], rng) if len(c) > vi else None
            if t is not None and c[0] != "job_status_set":     # (the setter takes a JobStatus and stores its int value)
                pending = [c[:vi] + [t] + c[vi + 1:], ["load_search_value", c[1], c[2]] if kind == "ssv" else ["load_job", c[1]]]
    return [list(c) for c in calls]


def long_worker(item):
    seed, count, maxlen, use_public_shared = item
    import random

    common.use_repo_sources()
    rng = random.Random(seed)
    sink = Sink()
    factory = SharedFactory()
    reqs, metas, checks = [], [], []
    try:
        for t in range(count):
            malformed = rng.random() < 0.35
            n = rng.choice([5, 6, 7, 10, 20, 40, 80, 120, 200]) if maxlen >= 200 else rng.randint(5, maxlen)
            # (not in the malformed stream: a `metadata` entry replaced by a list accepts int-like keys as indices — not modelled)
            tk = rng.choice([0.3, 0.6]) if (not malformed and rng.random() < 0.35) else 0.0
            calls = gen_history(rng, min(n, maxlen), malformed, tkeys=tk)
            case = {"kind": "history", "calls": calls}
            sink.case(case, nontrivial=True)
            sink.count("schedule:generated" + ("-malformed" if malformed else "") + ("-typed-keys" if tk else ""))
            sink.count("len=" + ("5-7" if len(calls) <= 7 else "8-40" if len(calls) <= 40 else "41-200"))
            st = new_memory()
            outs, bad, snap_bad = run_history(st, calls, "MemoryStorage")
            for c, o in zip(calls, outs):
                sink.count("op:" + c[0])
                sink.count("out:" + (o["v"] if o["k"] == "error" else o["k"]))
            judge_history(sink, calls, "MemoryStorage", outs, bad, snap_bad, factory)
            q = check_request(calls, outs)
            if q is not None:
                checks.append((q, case, "MemoryStorage", calls, bad))
            sts = factory.public() if (use_public_shared and t % 25 == 0) else factory.new()
            souts, sbad, ssnap = run_history(sts, calls, "SharedMemoryStorage")
            q = check_request(calls, souts)
            if q is not None:
                checks.append((q, case, "SharedMemoryStorage", calls, sbad))
            sink.count("shared-histories")
            d = compare_outs(sink, case, "memory", outs, "shared", souts)
            if d is not None:
                sink.fail(f"C13|shared-equals-memory|{calls[d['call']][0]}|SharedMemoryStorage", "SharedMemoryStorage answers differently from MemoryStorage",
                          {"kind": "history", "storage": "both", "calls": calls}, d)
            judge_history(sink, calls, "SharedMemoryStorage", souts, sbad, ssnap, factory)
            del sts
            reqs.append({"op": "hist", "s": t, "calls": [model_call(c) for c in calls]})
            metas.append((calls, outs))
        with common.LeanDriver("C13") as drv:
            reps = drv.ask_all(reqs)
            creps = drv.ask_all([c[0] for c in checks])
        for (_, case, label, calls, bad), rep in zip(checks, creps):
            cross_check(sink, case, label, calls, bad, rep)
        for (calls, outs), rep in zip(metas, reps):
            mo = rep["outs"]
            for i, (x, y) in enumerate(zip(outs, mo)):
                if y["k"] == "oom":
                    sink.count("model:out-of-scope-call")
                    break  # the history overwrote a bookkeeping key: the model (and the property) stop here
                if cout(x) != cout(y):
                    sink.mismatch({"kind": "history", "calls": calls[: i + 1]}, {"call": i, "impl": cout(x), "model": cout(y)})
                    break
    finally:
        factory.close()
    return sink


# --------------------------------------------------------------------------- NullStorage (identifiers only)


def object_histories(ck, drv):
    """in-process MemoryStorage only: histories whose stored inputs / outputs / metadata / search values are arbitrary
    Python objects (local lambdas and closures, instances of locally defined classes, containers holding them) — values an
    in-process storage legitimately holds and that cannot reach SharedMemoryStorage.  The model sees an opaque token for
    each; loads must not raise, must return the stored structure, and class instances must come back as copies."""
    rng = ck.rng
    sink = Sink()
    reqs, metas, checks = [], [], []
    for t in range(ck.pick(60, 400)):
        calls = gen_history(rng, rng.choice([6, 10, 20, 40]), False, valgen=gen_value_objects)
        if not has_opaque(calls):
            continue
        mcalls = tok(calls)
        case = {"kind": "history", "storage": "MemoryStorage", "calls": calls}
        sink.case(case, nontrivial=True)
        sink.count("schedule:generated-python-objects")
        st = new_memory()
        outs, bad, snap_bad = run_history(st, calls, "MemoryStorage")
        for c, o in zip(calls, outs):
            sink.count("op:" + c[0])
            sink.count("out:" + (o["v"] if o["k"] == "error" else o["k"]))
        judge_history(sink, calls, "MemoryStorage", outs, bad, snap_bad, None)
        q = check_request(mcalls, outs)
        if q is not None:
            checks.append((q, case, "MemoryStorage", mcalls, bad))
        reqs.append({"op": "hist", "s": 20_000 + t, "calls": [model_call(c) for c in mcalls]})
        metas.append((calls, outs))
    reps = drv.ask_all(reqs)
    creps = drv.ask_all([c[0] for c in checks])
    for (_, case, label, calls, bad), rep in zip(checks, creps):
        cross_check(sink, case, label, calls, bad, rep)
    for (calls, outs), rep in zip(metas, reps):
        for i, (x, y) in enumerate(zip(outs, rep["outs"])):
            if y["k"] == "oom":
                break
            if cout(x) != cout(y):
                sink.mismatch({"kind": "history", "storage": "MemoryStorage", "calls": calls[: i + 1]}, {"call": i, "impl": cout(x), "model": cout(y)})
                break
    sink.fold(ck)


ALIAS_PREAMBLE = [
    ["create_new_search"], ["create_new_search"], ["create_new_job", "0"], ["create_new_job", "0"], ["create_new_job", "1"],
    ["store_job_in", "0.0", {"t": [{"d": [["x", {"i": 1}]]}]}, {"d": [["foo", {"l": [{"i": 1}, {"i": 2}]}]]}],
    ["store_job_metadata", "0.0", "a", {"d": [["p", {"i": 2}]]}],
    ["store_job_out", "0.0", {"l": [{"i": 1}, {"d": [["q", None]]}]}],
    ["store_job_metadata", "0.1", "b", {"i": 5}],
    ["store_job_out", "0.1", {"d": [["objective", {"f": "1/2"}]]}],
    ["store_search_value", "0", "a", {"d": [["p", {"l": []}]]}],
]
ALIAS_READS = [["load_job", "0.0"], ["load_job_status", "0.0"], ["job_status", "0.0"], ["running_job_status", "0.0"], ["load_search", "0"],
               ["load_jobs", ["0.0", "0.1"]], ["load_all_job_ids", "0"], ["load_all_search_ids"], ["load_out_from_all_jobs", "0"],
               ["load_metadata_from_all_jobs", "0", "a"], ["load_search_value", "0", "a"], ["load_job", "0.1"], ["load_job", "1.0"], ["load_search", "1"]]
ALIAS_LOADS = [["load_job", "0.0"], ["load_search", "0"], ["load_jobs", ["0.0", "0.1"]], ["load_all_job_ids", "0"], ["load_all_search_ids"],
               ["load_out_from_all_jobs", "0"], ["load_metadata_from_all_jobs", "0", "a"]]


def alias_systematic():
    """small histories, enumerated: a load, what the caller does with the object it got, then every kind of read.
    (1) every load that returns a container x every way of editing it x {loaded once, loaded twice, a store to another job in
    between}; (2) every part of a loaded job / search x every store method x {the same job, another job of the search, a job
    of another search} as receiver, followed by the in-place write the storage offers (store_job_metadata on the receiver)."""
    P, n = ALIAS_PREAMBLE, len(ALIAS_PREAMBLE)
    for load in ALIAS_LOADS:
        for mode in EDIT_MODES:
            if load[0] not in HANDLE_DEEP and mode in (1, 2):
                continue
            yield P + [load, ["caller_edit", n, mode]] + ALIAS_READS
            yield P + [load, load, ["caller_edit", n, mode]] + ALIAS_READS + [["caller_edit", n + 1, mode]] + ALIAS_READS[:6]
            yield P + [load, ["store_job_out", "1.0", {"i": 3}], ["caller_edit", n, mode], ["store_job_metadata", "0.1", "a", {"i": 4}]] + ALIAS_READS
    for load in ALIAS_LOADS[:2]:
        for path in LOADED_PATHS[load[0]]:
            for method, key in (("store_job", "metadata"), ("store_job", "extra_a"), ("store_job_out", None), ("store_job_metadata", "a"),
                                ("store_search_value", "b"), ("store_job_in", None)):
                for target in ("0.0", "0.1", "1.0"):
                    t = target.split(".")[0] if method == "store_search_value" else target
                    j = "1.0" if method == "store_search_value" else target
                    yield (P + [load, ["store_loaded", n, path, method, t, key], ["store_job_metadata", j, "k", {"i": 7}],
                                ["store_job_metadata", j, "a", {"s": "w"}]] + ALIAS_READS + [list(load)])


# --------------------------------------------------------------------------- object identities (Model/StorageAlias.lean)
#
# L2 for the world of OBJECTS: which dicts / lists inside the answers are the very objects seen before (`is`), and which
# are new.  Scripts over one search: creates, stores of freshly built objects and of parts of loaded objects (each loaded
# object handed back at most once: the discipline `AOp.ok` of the model), load_job / load_search (deep copies), load_jobs
# (live job dicts), and in-place edits by the caller of what it holds (loaded copies; the outer dict of load_jobs; now and
# then a live job dict).  The driver's `alias` request returns every answer with the identity of each container; both
# transcripts are renumbered by first occurrence and must be equal.


def _container_paths(obj, limit=3):
    """string-key paths (through dicts only) to the dicts / lists inside obj"""
    out, stack = [], [([], obj)]
    while stack:
        path, x = stack.pop()
        if isinstance(x, (dict, list)):
            out.append((path, x))
        if isinstance(x, dict) and len(path) < limit:
            for k, y in x.items():
                if isinstance(k, str):
                    stack.append((path + [k], y))
    return out


def enc_ids(v, ren, keep, rekey=None):
    """wire form with the identity of every dict / list (renumbered by first occurrence; entries sorted by key)"""
    if isinstance(v, (dict, list)):
        keep.append(v)
        n = ren.setdefault(id(v), len(ren))
        if isinstance(v, dict):
            items = sorted(((rekey(k) if rekey else str(k)), x) for k, x in v.items())
            return {"d": [[k, enc_ids(x, ren, keep)] for k, x in items], "id": n}
        return {"l": [enc_ids(x, ren, keep) for x in v], "id": n}
    if isinstance(v, tuple):
        return {"t": [enc_ids(x, ren, keep) for x in v]}
    return enc(v)


def canon_ids(w, ren):
    """the driver's answer, renumbered the same way"""
    if isinstance(w, dict):
        if "d" in w:
            n = ren.setdefault(w["id"], len(ren))
            return {"d": [[k, canon_ids(x, ren)] for k, x in sorted(w["d"], key=lambda p: p[0])], "id": n}
        if "l" in w:
            n = ren.setdefault(w["id"], len(ren))
            return {"l": [canon_ids(x, ren) for x in w["l"]], "id": n}
        if "t" in w:
            return {"t": [canon_ids(x, ren) for x in w["t"]]}
    return w


_IDENT_SEEN = []


async def ident_run(job):
    """the run-function of the identity scripts: keeps the parameters object it was handed (the script edits it later)"""
    _IDENT_SEEN.append(job.parameters)
    return 0.0


class IdentEvaluator:
    """a real serial evaluator on the script's storage and search: `submit(cfg)` submits the configuration, runs the job to
    completion and returns the very object the run-function received as `RunningJob.parameters`"""

    def __init__(self, st, sid):
        self.st, self.sid, self.ev = st, sid, None

    def submit(self, cfg):
        from deephyper.evaluator import Evaluator

        with contextlib.redirect_stdout(io.StringIO()):
            if self.ev is None:
                self.ev = Evaluator.create(ident_run, method="serial", method_kwargs={"storage": self.st, "search_id": self.sid})
            del _IDENT_SEEN[:]
            self.ev.submit([cfg])
            try:
                self.ev.gather("ALL")
            except Exception:
                pass   # `gather_other_jobs_done` reading the script's hand-made jobs; the submitted job itself has run by then
        return _IDENT_SEEN[-1] if _IDENT_SEEN else None

    def close(self):
        if self.ev is not None:
            try:
                with contextlib.redirect_stdout(io.StringIO()):
                    self.ev.close()
            except Exception:
                pass


def run_identity_script(rng, nops):
    """generates a script against a running MemoryStorage -> (script for the model, real transcript, note)"""
    st = new_memory()
    sid = st.create_new_search()
    ren, keep = {}, []
    script, real = [], []
    jids = []
    handles = []   # per successful load: {"obj", "kind": job|all|live, "given": bool}

    def ref_new():
        w = gen_value(rng, 1)
        return {"new": w}, dec(w)

    def do(op, fn, rekey=None):
        script.append(op)
        try:
            r = fn()
        except Exception as e:
            real.append({"k": "error", "v": type(e).__name__})
            return None
        real.append({"k": "none"} if r is None else {"k": "val", "v": enc_ids(r, ren, keep, rekey)})
        return r

    def new_job():
        want = f"{sid}.{len(jids)}"
        got = st.create_new_job(sid)
        script.append(["new_job", want])
        real.append({"k": "none"} if got == want else {"k": "val", "v": {"s": f"create_new_job returned {got!r}"}})
        jids.append(want)

    iev = IdentEvaluator(st, sid)

    def submit():
        """a job created, submitted and run by a real evaluator; the caller of the script then holds the parameters object"""
        want = f"{sid}.{len(jids)}"
        w = {"d": [[k, gen_value(rng, 1)] for k in rng.sample(["x", "layers", "opt", "lr"], rng.randint(1, 3))]}
        r = do(["submit", want, {"new": w}], lambda: iev.submit(dec(w)))
        got = st.load_all_job_ids(sid)
        if want not in got or len(got) != len(jids) + 1:
            real[-1] = {"k": "val", "v": {"s": f"after submit the jobs are {got!r}"}}
        jids.append(want)
        if r is not None:
            handles.append({"obj": r, "kind": "job", "given": False, "n": len(handles)})

    new_job()
    new_job()
    while len(script) < nops:
        x = rng.random()
        jid = rng.choice(jids) if rng.random() < 0.93 else f"{sid}.{len(jids) + 3}"
        if x < 0.05:
            new_job()
        elif x < 0.12:
            submit()
        elif x < 0.40:
            # a store: a freshly built object, or a part of a loaded copy (each loaded object handed back at most once)
            deep = [h for h in handles if h["kind"] != "live" and not h["given"]]
            deep = [(h, [c for c in _container_paths(h["obj"]) if c[0] or h["kind"] != "all"]) for h in deep]
            deep = [(h, cs) for h, cs in deep if cs]
            if deep and rng.random() < 0.5:
                h, cs = rng.choice(deep)
                path, obj = rng.choice(cs)
                mpath = ([f"{sid}.{path[0]}"] + path[1:]) if (h["kind"] == "all" and path) else path
                ref = {"held": h["n"], "path": mpath}
                h["given"] = True
            else:
                ref, obj = ref_new()
            if rng.random() < 0.5:
                key = rng.choice(["metadata", "metadata", "out", "extra", "in"])
                do(["store_job", jid, key, ref], lambda: st.store_job(jid, key, obj))
            else:
                key = rng.choice(["a", "b", "k"])
                do(["store_meta", jid, key, ref], lambda: st.store_job_metadata(jid, key, obj))
        elif x < 0.58:
            r = do(["load_job", jid], lambda: st.load_job(jid))
            if r is not None:
                handles.append({"obj": r, "kind": "job", "given": False, "n": len(handles)})
        elif x < 0.64:
            r = do(["load_all"], lambda: st.load_search(sid), rekey=lambda k: f"{sid}.{k}")
            if r is not None:
                handles.append({"obj": r, "kind": "all", "given": False, "n": len(handles)})
        elif x < 0.74:
            js = [rng.choice(jids) for _ in range(rng.randint(0, 3))]
            r = do(["load_jobs", js], lambda: st.load_jobs(js))
            if r is not None:
                handles.append({"obj": r, "kind": "live", "given": False, "n": len(handles)})
        else:
            # the caller edits, in place, an object it holds
            mine = [h for h in handles if not h["given"]]
            if not mine:
                continue
            h = rng.choice(mine[-4:])
            if h["kind"] == "live":
                cands = [([], h["obj"])]
                if rng.random() < 0.3:   # a live job dict (load_jobs hands out the storage's own dicts: documented)
                    cands = [(p, o) for p, o in _container_paths(h["obj"], 2) if p]
            else:
                cands = [c for c in _container_paths(h["obj"]) if c[0] or h["kind"] != "all"]
            if not cands:
                continue
            path, obj = rng.choice(cands)
            mpath = ([f"{sid}.{path[0]}"] + path[1:]) if (h["kind"] == "all" and path) else path
            ref = {"held": h["n"], "path": mpath}
            if isinstance(obj, dict):
                keys = [k for k in obj if isinstance(k, str)]
                y = rng.random()
                if y < 0.6 or not keys:
                    key = rng.choice(keys + ["z", "out"]) if keys else "z"
                    r2, o2 = ref_new()
                    do(["edit", ref, ["set", key, r2]], lambda: obj.__setitem__(key, o2))
                elif y < 0.85:
                    key = rng.choice(keys)
                    do(["edit", ref, ["del", key]], lambda: obj.__delitem__(key))
                else:
                    do(["edit", ref, ["clear"]], lambda: obj.clear())
            else:
                if rng.random() < 0.8:
                    r2, o2 = ref_new()
                    do(["edit", ref, ["append", r2]], lambda: obj.append(o2))
                else:
                    do(["edit", ref, ["clear"]], lambda: obj.clear())
    do(["load_jobs", list(jids)], lambda: st.load_jobs(list(jids)))
    do(["load_all"], lambda: st.load_search(sid), rekey=lambda k: f"{sid}.{k}")
    iev.close()
    return script, real


def exec_identity_script(script):
    """runs a stored script on a fresh MemoryStorage -> the real transcript (objects renumbered by first occurrence)"""
    st = new_memory()
    sid = st.create_new_search()
    ren, keep, real, handles = {}, [], [], []
    iev = IdentEvaluator(st, sid)

    def resolve(ref):
        if "new" in ref:
            return dec(ref["new"])
        obj, kind = handles[ref["held"]]
        path = list(ref["path"])
        if kind == "all" and path:
            path[0] = path[0].split(".", 1)[-1]
        return sub_object(obj, path)

    for op in script:
        name = op[0]
        try:
            kind = None
            if name == "new_job":
                got = st.create_new_job(sid)
                r = None if got == op[1] else f"create_new_job returned {got!r}"
            elif name == "submit":
                before = st.load_all_job_ids(sid)
                r, kind = iev.submit(resolve(op[2])), "job"
                got = st.load_all_job_ids(sid)
                if op[1] not in got or len(got) != len(before) + 1:
                    r, kind = f"after submit the jobs are {got!r}", None
            elif name in ("store_job", "store_meta"):
                obj = resolve(op[3])
                if obj is _MISSING:
                    real.append({"k": "unresolved"})
                    continue
                r = (st.store_job if name == "store_job" else st.store_job_metadata)(op[1], op[2], obj)
            elif name == "load_job":
                r, kind = st.load_job(op[1]), "job"
            elif name == "load_all":
                r, kind = st.load_search(sid), "all"
            elif name == "load_jobs":
                r, kind = st.load_jobs(list(op[1])), "live"
            elif name == "edit":
                obj, e = resolve(op[1]), op[2]
                if obj is _MISSING or not isinstance(obj, (dict, list)):
                    real.append({"k": "unresolved"})
                    continue
                if e[0] == "set":
                    obj[e[1]] = resolve(e[2])
                elif e[0] == "del":
                    del obj[e[1]]
                elif e[0] == "append":
                    obj.append(resolve(e[1]))
                else:
                    obj.clear()
                r = None
            else:
                raise common.HarnessError(f"unknown script operation {op}")
        except common.HarnessError:
            raise
        except Exception as e:
            real.append({"k": "error", "v": type(e).__name__})
            continue
        if kind is not None:
            handles.append((r, kind))
        real.append({"k": "none"} if r is None else
                    {"k": "val", "v": enc_ids(r, ren, keep, (lambda k: f"{sid}.{k}") if kind == "all" else None)})
    iev.close()
    return real


def compare_identity(sink, script, real, rep):
    ren = {}
    model = [({"k": "val", "v": canon_ids(o["v"], ren)} if o["k"] == "val" else o) for o in rep["outs"]]
    for i, (x, y) in enumerate(zip(real, model)):
        if x != y:
            sink.mismatch({"kind": "identity-script", "ops": script[: i + 1]},
                          {"what": "the objects in an answer of MemoryStorage are not the ones the model of object identities predicts (same object / new object / value)",
                           "op": i, "impl": x, "model": y})
            return False
    return True


def identity_histories(sink, drv, rng, count):
    metas, reqs = [], []
    for _ in range(count):
        script, _online = run_identity_script(rng, rng.choice([8, 14, 25, 40]))
        real = exec_identity_script(script)     # the stored script alone reproduces the run (what a replay executes)
        if real != _online:
            sink.mismatch({"kind": "identity-script", "ops": script}, {"what": "MemoryStorage is not deterministic: running the same script again gave other answers"})
            continue
        metas.append((script, real))
        reqs.append({"op": "alias", "ops": script})
        sink.case({"kind": "identity-script", "ops": script}, nontrivial=True)
        sink.count("schedule:object-identities")
        for op in script:
            sink.count("aop:" + op[0] + (":" + op[2][0] if op[0] == "edit" else "") + (":loaded-object" if op[0].startswith("store") and "held" in op[3] else ""))
    for (script, real), rep in zip(metas, drv.ask_all(reqs)):
        compare_identity(sink, script, real, rep)


def alias_worker(item):
    """what the caller does with loaded data must not matter: histories in which the objects returned by the loads are edited
    in place by the caller, or handed back to the storage (and the receiving job then extended through the storage), run on
    MemoryStorage, SharedMemoryStorage, the model and the verified checker (the latter two see the storage operations only)."""
    seed, part, nparts, ngen = item
    import random

    common.use_repo_sources()
    rng = random.Random(seed)
    sink = Sink()
    factory = SharedFactory()
    reqs, metas, checks = [], [], []
    try:
        hists = [("systematic", [list(c) for c in h]) for n, h in enumerate(alias_systematic()) if n % nparts == part]
        for t in range(ngen):
            hists.append(("generated", gen_history(rng, rng.choice([8, 12, 20, 40]), rng.random() < 0.15, alias=rng.choice([0.15, 0.3, 0.5]))))
        for t, (how, calls) in enumerate(hists):
            if not has_caller(calls):
                continue
            case = {"kind": "history", "calls": calls}
            sink.case(case, nontrivial=True)
            sink.count("schedule:caller-uses-loaded-data/" + how)
            outs, bad, snap_bad, eff = run_history_eff(new_memory(), calls, "MemoryStorage")
            for c, o in zip(calls, outs):
                sink.count("op:" + c[0] + (":" + (EDIT_MODES.get(c[2], "?") if c[0] == "caller_edit" else c[3]) if c[0] in CALLER and o["k"] != "skipped" else ""))
                sink.count("out:" + (o["v"] if o["k"] == "error" else o["k"]))
            judge_history(sink, calls, "MemoryStorage", outs, bad, snap_bad, factory)
            ecalls, eouts, ks = storage_level(calls, outs, eff)
            q = check_request(ecalls, eouts)
            if q is not None:
                checks.append((q, case, "MemoryStorage", ecalls, bad))
            if how == "systematic" or t % 3 == 0:
                souts, sbad, ssnap, seff = run_history_eff(factory.new(), calls, "SharedMemoryStorage")
                sink.count("shared-histories")
                d = compare_outs(sink, case, "memory", outs, "shared", souts)
                if d is not None:
                    sink.fail(f"C13|shared-equals-memory|{(eff[d['call']] or calls[d['call']])[0]}|{variant('SharedMemoryStorage', calls)}",
                              "SharedMemoryStorage answers differently from MemoryStorage", {"kind": "history", "storage": "both", "calls": calls}, d)
                judge_history(sink, calls, "SharedMemoryStorage", souts, sbad, ssnap, factory)
                secalls, seouts, _ = storage_level(calls, souts, seff)
                q = check_request(secalls, seouts)
                if q is not None:
                    checks.append((q, case, "SharedMemoryStorage", secalls, sbad))
            reqs.append({"op": "hist", "s": 30_000 + t, "calls": [model_call(c) for c in ecalls]})
            metas.append((calls, ecalls, eouts, ks))
        with common.LeanDriver("C13") as drv:
            reps = drv.ask_all(reqs)
            creps = drv.ask_all([c[0] for c in checks])
            identity_histories(sink, drv, rng, ngen)
        for (_, case, label, ecalls, bad), rep in zip(checks, creps):
            cross_check(sink, case, label, ecalls, bad, rep)
        for (calls, ecalls, eouts, ks), rep in zip(metas, reps):
            for i, (x, y) in enumerate(zip(eouts, rep["outs"])):
                if y["k"] == "oom":
                    break
                if cout(x) != cout(y):
                    sink.mismatch({"kind": "history", "storage": "MemoryStorage", "calls": calls[: ks[i] + 1]}, {"call": ks[i], "impl": cout(x), "model": cout(y)})
                    break
    finally:
        factory.close()
    return sink


# --------------------------------------------------------------------------- keys of every type; several client handles per job

KEY_PREAMBLE = [["create_new_search"], ["create_new_search"], ["create_new_job", "0"], ["create_new_job", "0"], ["create_new_job", "1"]]
LOOKALIKES = [({"i": 1}, "1"), (True, "True"), (None, "None"), (T01, "(0, 1)"), ({"f": "5/2"}, "2.5"), ({"i": 0}, "0"), ({"f": "1/1"}, "1.0"),
              (False, "False"), ("", None), ({"t": []}, "()"), ("#N", None), ("#n1/1", {"i": 1}), ({"t": [{"s": "a"}]}, "a"), ({"t": [{"s": "a"}]}, "('a',)"),
              ({"t": [{"s": "1:a"}]}, {"t": [{"s": "1"}, {"s": "a"}]}), ({"i": 1}, {"t": [{"i": 1}]}), ({"f": "-5/2"}, "-2.5"), ("#s#", "#"),
              ({"i": 10}, "10"), ({"f": rat(0.1)}, "0.1")]
EQUAL_VALUES = [({"i": 1}, True), ({"i": 0}, False), ({"i": 1}, {"f": "1/1"}), ({"i": 0}, {"f": "0/1"}), (True, {"f": "1/1"}), ({"i": 3}, {"f": "3/1"}),
                ({"t": [{"i": 1}, {"i": 0}]}, {"t": [True, False]}), ({"d": [["a", {"i": 1}]]}, {"d": [["a", True]]}), ({"l": [{"i": 3}, {"s": "x"}]}, {"l": [{"f": "3/1"}, {"s": "x"}]}),
                ({"d": [[{"i": 1}, {"s": "v"}]]}, {"d": [[True, {"s": "v"}]]})]
KEY_READS = [["load_job", "0.0"], ["load_job", "0.1"], ["load_search", "0"], ["load_jobs", ["0.0", "0.1", "1.0"]], ["load_search", "1"]]


def typed_key_systematic():
    """every keyed store method x every pair (a key, a key of another type that prints alike) x both orders: each key is
    stored, read back, absent before it was stored, untouched by the store to its look-alike, absent in the neighbours; the same
    pair as keys of one stored dict; identifiers that are not str where a search / job identifier is expected"""
    P = KEY_PREAMBLE
    for k1, k2 in LOOKALIKES:
        for a, b in ((k1, k2), (k2, k1)):
            va, vb = {"s": "first"}, {"l": [{"i": 2}]}
            yield P + [["store_search_value", "0", a, va], ["load_search_value", "0", a], ["load_search_value", "0", b], ["load_search_value", "1", a],
                       ["store_search_value", "0", b, vb], ["load_search_value", "0", a], ["load_search_value", "0", b], ["load_search_value", "1", b],
                       ["store_search_value", "0", a, {"i": 3}], ["load_search_value", "0", b], ["load_search_value", "0", a]]
            yield P + [["store_job_metadata", "0.0", a, va], ["load_metadata_from_all_jobs", "0", a], ["load_metadata_from_all_jobs", "0", b], ["load_job", "0.0"],
                       ["store_job_metadata", "0.0", b, vb], ["store_job_metadata", "0.1", b, {"i": 4}], ["load_metadata_from_all_jobs", "0", a],
                       ["load_metadata_from_all_jobs", "0", b], ["load_metadata_from_all_jobs", "1", a]] + KEY_READS
            yield P + [["store_job", "0.0", a, va], ["load_job", "0.0"], ["store_job", "0.0", b, vb], ["store_job", "1.0", b, {"i": 5}]] + KEY_READS
            d = {"d": [[a, va], [b, vb], ["z", {"d": [[b, {"i": 1}], [a, None]]}]]}
            yield P + [["store_job_out", "0.0", d], ["store_job_in", "0.1", {"t": [d]}, {"d": [[b, {"i": 1}]]}], ["store_search_value", "1", "v", d],
                       ["load_search_value", "1", "v"], ["load_out_from_all_jobs", "0"]] + KEY_READS
    # values of different types that are equal for Python, stored one over the other (both orders), through every store method
    for a0, b0 in EQUAL_VALUES:
        for a, b in ((a0, b0), (b0, a0)):
            reads = [["load_job", "0.0"], ["load_out_from_all_jobs", "0"], ["load_metadata_from_all_jobs", "0", "a"], ["load_search_value", "0", "a"]]
            yield P + [["store_job_out", "0.0", a], ["store_job", "0.0", "extra", a], ["store_job_in", "0.0", {"t": [a]}, {"d": [["k", a]]}], ["store_job_metadata", "0.0", "a", a],
                       ["store_search_value", "0", "a", a]] + reads + [
                       ["store_job_out", "0.0", b], ["store_job", "0.0", "extra", b], ["store_job_in", "0.0", {"t": [b]}, {"d": [["k", b]]}], ["store_job_metadata", "0.0", "a", b],
                       ["store_search_value", "0", "a", b]] + reads + KEY_READS
    for a, b in (({"i": 1}, True), (True, {"i": 1}), ({"i": 0}, False), (False, {"i": 0}), ({"i": 2}, {"f": "2/1"}), ({"f": "4/1"}, {"i": 4}), (False, {"f": "0/1"})):
        sreads = [["load_job_status", "0.0"], ["job_status", "0.0", "A"], ["running_job_status", "0.0"], ["load_job", "0.0"]]
        yield P + [["store_job_status", "0.0", a]] + sreads + [["store_job_status", "0.0", b]] + sreads + [["store_job", "0.1", "status", b], ["load_job", "0.1"]] + KEY_READS
    fill = [["store_job_out", "0.0", {"i": 1}], ["store_job_metadata", "0.0", "a", {"i": 2}], ["store_search_value", "0", "a", {"i": 3}], ["store_job_status", "0.1", {"i": 1}]]
    for t in TYPED_SIDS:
        yield P + fill + [["create_new_job", t], ["load_search", t], ["load_all_job_ids", t], ["store_search_value", t, "a", {"i": 9}], ["load_search_value", t, "a"],
                          ["load_metadata_from_all_jobs", t, "a"], ["load_out_from_all_jobs", t], ["load_all_search_ids"], ["load_all_job_ids", "0"],
                          ["load_search_value", "0", "a"], ["create_new_job", "0"]] + KEY_READS
    for t in TYPED_JIDS:
        yield P + fill + [["load_job", t], ["store_job_out", t, {"i": 9}], ["store_job_metadata", t, "a", {"i": 9}], ["store_job", t, "a", {"i": 9}],
                          ["store_job_in", t, {"t": []}, None], ["store_job_status", t, {"i": 2}], ["load_job_status", t], ["job_status", t],
                          ["running_job_status", t, "A"], ["job_status_set", t, {"i": 2}], ["load_jobs", [t]], ["load_jobs", ["0.0", t]], ["load_jobs", [t, "0.0"]],
                          ["load_jobs", ["0.7", t]]] + KEY_READS


STATUS_WRITERS = [lambda j, v: ["job_status_set", j, v, "A"], lambda j, v: ["job_status_set", j, v, "B"], lambda j, v: ["store_job_status", j, v],
                  lambda j, v: ["store_job", j, "status", v], lambda j, v: ["job_status_set", j, v]]
STATUS_READS = [["job_status", "0.0", "A"], ["job_status", "0.0", "B"], ["running_job_status", "0.0", "R"], ["job_status", "0.0"], ["running_job_status", "0.0"],
                ["load_job_status", "0.0"], ["load_job", "0.0"], ["job_status", "0.1", "A"], ["load_job_status", "0.1"]]


def status_handles_systematic():
    """several client handles on ONE job (two Job objects `A`, `B`, a RunningJob `R`, objects made per access, the storage
    methods): a status stored through any of them is what every one of them reads.  Every pair of writers x every pair of
    statuses (so also DONE / CANCELLED followed by READY / RUNNING), all readers after each write, then the first writer again"""
    P = KEY_PREAMBLE
    for w1, w2 in itertools.product(range(len(STATUS_WRITERS)), repeat=2):
        for s1, s2 in itertools.product(range(5), repeat=2):
            s3 = (s1 + 2 * s2 + 1) % 5
            yield (P + STATUS_READS[:3] + [STATUS_WRITERS[w1]("0.0", {"i": s1})] + STATUS_READS + [STATUS_WRITERS[w2]("0.0", {"i": s2})] + STATUS_READS
                   + [STATUS_WRITERS[w1]("0.0", {"i": s3}), STATUS_WRITERS[w2]("0.1", {"i": s1})] + STATUS_READS)


def batch_worker(item):
    """histories of one family on MemoryStorage, SharedMemoryStorage (every `shared_mod`-th), the model and the verified checker"""
    seed, family, part, nparts, ngen, shared_mod = item
    import random

    common.use_repo_sources()
    rng = random.Random(seed)
    sink = Sink()
    factory = SharedFactory()
    reqs, metas, checks = [], [], []
    try:
        gen = {"typed-keys": typed_key_systematic, "status-handles": status_handles_systematic}[family]
        hists = [("systematic", [list(c) for c in h]) for n, h in enumerate(gen()) if n % nparts == part]
        for t in range(ngen):
            hists.append(("generated", gen_history(rng, rng.choice([8, 12, 20, 40, 80]), False, tkeys=rng.choice([0.3, 0.6]))))
        for t, (how, calls) in enumerate(hists):
            case = {"kind": "history", "calls": calls}
            sink.case(case, nontrivial=True)
            sink.count(f"schedule:{family}/{how}")
            outs, bad, snap_bad, eff = run_history_eff(new_memory(), calls, "MemoryStorage")
            for c, o in zip(calls, outs):
                sink.count("op:" + c[0])
                sink.count("out:" + (o["v"] if o["k"] == "error" else o["k"]))
                if c[0] in STATUS_VIEWS and view_handle(c):
                    sink.count("status-through-kept-handle:" + c[0])
                for k in ([c[1]] if len(c) > 1 and not isinstance(c[1], list) else []) + ([c[2]] if c[0] in PLAIN2 and len(c) > 2 else []):
                    if typed(k):
                        sink.count("typed-key:" + ("id:" if k is c[1] else "key:") + type(dkey(k)).__name__)
            judge_history(sink, calls, "MemoryStorage", outs, bad, snap_bad, factory)
            q = check_request(calls, outs)
            if q is not None:
                checks.append((q, case, "MemoryStorage", calls, bad))
            if t % shared_mod == 0:
                souts, sbad, ssnap, seff = run_history_eff(factory.new(), calls, "SharedMemoryStorage")
                sink.count("shared-histories")
                d = compare_outs(sink, case, "memory", outs, "shared", souts)
                if d is not None:
                    sink.fail(f"C13|shared-equals-memory|{calls[d['call']][0]}|SharedMemoryStorage", "SharedMemoryStorage answers differently from MemoryStorage",
                              {"kind": "history", "storage": "both", "calls": calls}, d)
                judge_history(sink, calls, "SharedMemoryStorage", souts, sbad, ssnap, factory)
                q = check_request(calls, souts)
                if q is not None:
                    checks.append((q, case, "SharedMemoryStorage", calls, sbad))
            reqs.append({"op": "hist", "s": 40_000 + t, "calls": [model_call(c) for c in calls]})
            metas.append((calls, outs))
        with common.LeanDriver("C13") as drv:
            reps = drv.ask_all(reqs)
            creps = drv.ask_all([c[0] for c in checks])
        for (_, case, label, calls, bad), rep in zip(checks, creps):
            cross_check(sink, case, label, calls, bad, rep)
        for (calls, outs), rep in zip(metas, reps):
            for i, (x, y) in enumerate(zip(outs, rep["outs"])):
                if y["k"] == "oom":
                    break
                if cout(x) != cout(y):
                    sink.mismatch({"kind": "history", "calls": calls[: i + 1]}, {"call": i, "impl": cout(x), "model": cout(y)})
                    break
    finally:
        factory.close()
    return sink


def null_histories(ck, drv):
    from deephyper.evaluator.storage import NullStorage

    rng = ck.rng
    reqs, metas = [], []
    for t in range(ck.pick(20, 100)):
        st = NullStorage()
        calls = []
        for _ in range(rng.randint(1, 30)):
            k = rng.choice(["cs", "cj", "cj", "cj", "sout", "smeta", "ljob", "ljids", "lsids", "lout", "lmeta", "lstatus", "lsearch", "lsv", "ljobs"])
            calls.append(concretize(k, len(calls), rng.randint(0, 3), ["0"], ["0.0", "0.1"]))
        outs = [call_real(st, c) for c in calls]
        ids = [o["v"] for c, o in zip(calls, outs) if c[0] == "create_new_job"]
        if len(set(ids)) != len(ids):
            ck.fail("C13|unique-id|create_new_job|NullStorage", "NullStorage handed out a job id twice", {"kind": "history", "storage": "NullStorage", "calls": calls})
        ck.case({"kind": "null-history", "calls": calls}, nontrivial=len(ids) > 1)
        ck.count("schedule:null-storage")
        reqs.append({"op": "init", "s": 10_000 + t, "null": True})
        reqs.append({"op": "hist", "s": 10_000 + t, "calls": calls, "keep": False})
        metas.append((calls, outs))
    reps = drv.ask_all(reqs)
    for (calls, outs), rep in zip(metas, reps[1::2]):
        d = compare_outs(None, None, "impl", outs, "model", rep["outs"])
        if d is not None:
            ck.mismatch({"kind": "null-history", "calls": calls}, d)


# --------------------------------------------------------------------------- (c) concurrency


def client_main(st, cid, prog, shared_sids, barrier, q):
    """runs in a client process: executes its program against the shared storage, logs (call, out)"""
    log = []
    own_s, own_j = [], []

    def do(c):
        o = call_real(st, c)
        log.append((c, o))
        return o

    try:
        barrier.wait(timeout=60)
        for op in prog:
            k = op[0]
            if k == "cs":
                o = do(["create_new_search"])
                if o["k"] == "id":
                    own_s.append(o["v"])
            elif k == "cj":
                pool = shared_sids + own_s
                sid = pool[op[1] % len(pool)]
                o = do(["create_new_job", sid])
                if o["k"] == "id":
                    own_j.append(o["v"])
            elif not own_j and k in ("smeta", "sout", "sstatus", "sin", "ljob", "lstatus"):
                continue
            elif k == "smeta":
                do(["store_job_metadata", own_j[op[1] % len(own_j)], op[2], op[3]])
            elif k == "sout":
                do(["store_job_out", own_j[op[1] % len(own_j)], op[2]])
            elif k == "sin":
                do(["store_job_in", own_j[op[1] % len(own_j)], {"t": [op[2]]}, None])
            elif k == "sstatus":
                do(["store_job_status", own_j[op[1] % len(own_j)], {"i": op[2]}])
            elif k == "ssv":
                do(["store_search_value", shared_sids[op[1] % len(shared_sids)], f"c{cid}_{op[2]}", op[3]])
            elif k == "ljob":
                do(["load_job", own_j[op[1] % len(own_j)]])
            elif k == "lstatus":
                do(["load_job_status", own_j[op[1] % len(own_j)]])
            elif k == "lsv":
                do(["load_search_value", shared_sids[op[1] % len(shared_sids)], f"c{cid}_{op[2]}"])
            elif k == "ljids":
                do(["load_all_job_ids", shared_sids[op[1] % len(shared_sids)]])
            elif k == "lsids":
                do(["load_all_search_ids"])
            elif k == "lout":
                do(["load_out_from_all_jobs", shared_sids[op[1] % len(shared_sids)]])
            elif k == "lmeta":
                do(["load_metadata_from_all_jobs", shared_sids[op[1] % len(shared_sids)], op[2]])
        q.put((cid, log, None))
    except Exception as e:  # pragma: no cover
        q.put((cid, log, repr(e)))


SCHEDULE_DEPENDENT = {"load_all_job_ids", "load_all_search_ids", "load_out_from_all_jobs", "load_metadata_from_all_jobs", "load_search"}


def gen_client_prog(rng, nops):
    prog = [("cj", rng.randint(0, 1))]
    for i in range(nops):
        x = rng.random()
        if x < 0.30:
            prog.append(("cj", rng.randint(0, 3)))
        elif x < 0.33:
            prog.append(("cs",))
        elif x < 0.50:
            prog.append(("smeta", rng.randint(0, 9), rng.choice("ab"), {"i": rng.randint(0, 10 ** 6)}))
        elif x < 0.60:
            prog.append(("sout", rng.randint(0, 9), {"d": [["objective", {"f": rat(rng.randint(0, 100) / 4)}]]}))
        elif x < 0.64:
            prog.append(("sin", rng.randint(0, 9), {"d": [["x", {"i": i}]]}))
        elif x < 0.70:
            prog.append(("sstatus", rng.randint(0, 9), rng.randint(0, 4)))
        elif x < 0.75:
            prog.append(("ssv", rng.randint(0, 1), rng.choice("ab"), {"i": i}))
        elif x < 0.85:
            prog.append(("ljob", rng.randint(0, 9)))
        elif x < 0.88:
            prog.append(("lstatus", rng.randint(0, 9)))
        elif x < 0.91:
            prog.append(("lsv", rng.randint(0, 1), rng.choice("ab")))
        elif x < 0.95:
            prog.append(("ljids", rng.randint(0, 1)))
        elif x < 0.97:
            prog.append(("lsids",))
        elif x < 0.985:
            prog.append(("lout", rng.randint(0, 1)))
        else:
            prog.append(("lmeta", rng.randint(0, 1), rng.choice("ab")))
    return prog


def linearize(setup, logs, final):
    """a sequential order of all calls consistent with (1) each client's program order, (2) the numeric order of the
    identifiers handed out per search / for searches.  -> list of (client, index) or None if there is none"""
    nodes = {}
    for cid, log in logs.items():
        for i, (c, o) in enumerate(log):
            nodes[(cid, i)] = (c, o)
    succ = {n: set() for n in nodes}
    indeg = {n: 0 for n in nodes}

    def edge(a, b):
        if b not in succ[a]:
            succ[a].add(b)
            indeg[b] += 1

    for cid, log in logs.items():
        for i in range(len(log) - 1):
            edge((cid, i), (cid, i + 1))
    if logs.get(0):
        for cid, log in logs.items():
            if cid != 0 and log:
                edge((0, len(logs[0]) - 1), (cid, 0))
    per_search, searches = {}, []
    for n, (c, o) in nodes.items():
        if o["k"] == "id":
            if c[0] == "create_new_search":
                searches.append((int(o["v"]), n))
            elif c[0] == "create_new_job":
                per_search.setdefault(c[1], []).append((int(o["v"].split(".")[1]), n))
    for lst in list(per_search.values()) + [searches]:
        lst.sort()
        for (_, a), (_, b) in zip(lst, lst[1:]):
            edge(a, b)
    # creating a job in a search comes after that search's creation
    by_sid = {str(k): n for k, n in searches}
    for sid, lst in per_search.items():
        if sid in by_sid:
            edge(by_sid[sid], lst[0][1])
    ready = sorted(n for n in nodes if indeg[n] == 0)
    order = []
    while ready:
        n = ready.pop(0)
        order.append(n)
        for m in sorted(succ[n]):
            indeg[m] -= 1
            if indeg[m] == 0:
                ready.append(m)
        ready.sort()
    return order if len(order) == len(nodes) else None


def concurrent_round(ck, drv, rng, nclients, nops, round_id):
    from deephyper.evaluator.storage import SharedMemoryStorage

    # the manager's server process is forked here and inherits the switch interval: its per-client threads then
    # interleave at (almost) every eval-breaker check, which is what a non-atomic method would need to misbehave
    old_interval = sys.getswitchinterval()
    sys.setswitchinterval(1e-6)
    try:
        st = SharedMemoryStorage()
    finally:
        sys.setswitchinterval(old_interval)
    setup = [["create_new_search"], ["create_new_search"]]
    setup_log = [(c, call_real(st, c)) for c in setup]
    shared_sids = [o["v"] for _, o in setup_log if o["k"] == "id"]
    seeds = [rng.randrange(1 << 30) for _ in range(nclients)]
    import random

    progs = [gen_client_prog(random.Random(s), nops) for s in seeds]
    ctx = mp.get_context("fork")
    barrier, q = ctx.Barrier(nclients), ctx.Queue()
    ps = [ctx.Process(target=client_main, args=(st, i + 1, progs[i], shared_sids, barrier, q)) for i in range(nclients)]
    for p in ps:
        p.start()
    logs = {0: setup_log}
    errors = []
    try:
        for _ in ps:
            cid, log, err = q.get(timeout=300)
            logs[cid] = log
            if err:
                errors.append((cid, err))
    except Exception as e:
        for p in ps:
            p.kill()
        raise common.HarnessError(f"concurrent clients did not finish: {e!r}")
    for p in ps:
        p.join(timeout=60)
    if errors:
        raise common.HarnessError(f"client process crashed: {errors}")
    case = {"kind": "concurrent", "clients": nclients, "ops": nops, "seeds": seeds}
    ck.case(case, nontrivial=True)
    ck.count("schedule:concurrent")
    ck.count(f"clients={nclients}")
    tot = sum(len(l) for l in logs.values())
    ck.count("concurrent-calls", tot)
    # final loads by the parent, after every client is done
    final_calls = [["load_all_search_ids"]]
    all_sids = [o["v"] for log in logs.values() for c, o in log if c[0] == "create_new_search" and o["k"] == "id"]
    for sid in sorted(all_sids, key=int):
        final_calls += [["load_all_job_ids", sid], ["load_search", sid]]
    final_log = [(c, call_real(st, c)) for c in final_calls]
    fcid = nclients + 1
    # ---------------- L3
    sids_seen, jids_seen = [], []
    for cid, log in logs.items():
        for c, o in log:
            if c[0] == "create_new_search" and o["k"] == "id":
                sids_seen.append(o["v"])
            if c[0] == "create_new_job" and o["k"] == "id":
                jids_seen.append(o["v"])
            if c[0] in ("create_new_search", "create_new_job") and o["k"] != "id":
                ck.fail(f"C13|lost-value|{c[0]}|SharedMemoryStorage-concurrent", "a create call failed under concurrency", case, {"client": cid, "call": c, "got": o})
    for name, ids in (("create_new_search", sids_seen), ("create_new_job", jids_seen)):
        if len(set(ids)) != len(ids):
            dup = sorted({i for i in ids if ids.count(i) > 1})[:5]
            ck.fail(f"C13|unique-id|{name}|SharedMemoryStorage-concurrent", f"{name} returned the same identifier to two clients", case, {"duplicates": dup})
    ck.count("concurrent-job-ids", len(jids_seen))
    # per client: read-your-writes on the data only it writes; everything judged by a per-client simple map
    owner_rec = {}
    for cid, log in logs.items():
        if cid == 0:
            continue
        sm = SimpleMap("SharedMemoryStorage-concurrent")
        for s in all_sids:
            sm.searches[s] = {"vals": {}, "jobs": []}
        for c, o in log:
            if c[0] in SCHEDULE_DEPENDENT:
                if o["k"] == "error" and o["v"] == "RuntimeError":
                    # "dictionary changed size during iteration" in the server: an iterating load met a concurrent
                    # create.  Not an identifier clash and nothing is lost (the statement's two concurrency clauses),
                    # so it is recorded in the evidence, not raised.
                    ck.count("concurrent:RuntimeError-in-iterating-load:" + c[0])
                    continue
                if c[0] == "load_all_job_ids" and o["k"] == "ids":
                    mine = [j for j in sm.jobs if sm.jobs[j]["sid"] == c[1]]
                    if any(j not in o["v"] for j in mine):
                        sm.flag("lost-value", c[0], {"client": cid, "missing": [j for j in mine if j not in o["v"]][:3]})
                    if len(set(o["v"])) != len(o["v"]):
                        sm.flag("unique-id", c[0], {"client": cid, "listing": o["v"][:20]})
                continue
            if c[0] == "create_new_search":
                continue
            sm.observe(c, o)
        for clause, method, detail in sm.bad[:3]:
            ck.fail(f"C13|{clause}|{method}|SharedMemoryStorage-concurrent", f"client {cid}: {clause} under concurrency", case, detail)
        for j, rec in sm.jobs.items():
            owner_rec[j] = rec
    # final contents: nothing lost
    for c, o in final_log:
        if c[0] == "load_search" and o["k"] == "val":
            got = {p: cv(v) for p, v in o["v"]["d"]}
            for j, rec in owner_rec.items():
                if rec["sid"] != c[1]:
                    continue
                pid = j.split(".")[1]
                if pid not in got:
                    ck.fail("C13|lost-value|load_search|SharedMemoryStorage-concurrent", "a job created by a client is missing at the end", case, {"job": j})
                elif got[pid] != cv(SimpleMap.rec_val(rec)):
                    ck.fail("C13|lost-value|load_search|SharedMemoryStorage-concurrent", "a value stored by a client is not what the storage holds at the end", case,
                            {"job": j, "got": got[pid], "want": cv(SimpleMap.rec_val(rec))})
        elif c[0] == "load_all_job_ids" and o["k"] == "ids":
            want = sorted(j for j in jids_seen if j.split(".")[0] == c[1])
            if sorted(o["v"]) != want:
                ck.fail("C13|lost-value|load_all_job_ids|SharedMemoryStorage-concurrent", "final job listing differs from the identifiers handed out", case,
                        {"search": c[1], "got": len(o["v"]), "want": len(want)})
    # ---------------- L2: a linearization, replayed on the model's concurrent semantics
    order = linearize(setup, logs, final_log)
    if order is None:
        ck.mismatch(case, "no sequential history is consistent with the clients' program orders and the identifiers handed out")
        return
    cids = sorted(logs)
    idx = {cid: k for k, cid in enumerate(cids)}
    progs_wire = [[c for c, _ in logs[cid]] for cid in cids] + [[c for c, _ in final_log]]
    sched = [idx[cid] for cid, _ in order] + [len(cids)] * len(final_log)
    rep = drv.ask({"op": "conc", "progs": progs_wire, "sched": sched})
    ck.count("interleaving-switches", sum(1 for a, b in zip(sched, sched[1:]) if a != b))
    for k, cid in enumerate(cids + [fcid]):
        log = final_log if cid == fcid else logs[cid]
        mo = rep["outs"][k]
        if len(mo) != len(log):
            ck.mismatch(case, {"client": cid, "model_calls": len(mo), "impl_calls": len(log)})
            continue
        for i, ((c, o), y) in enumerate(zip(log, mo)):
            if cid != fcid and c[0] in SCHEDULE_DEPENDENT:
                continue
            if cout(o) != cout(y):
                ck.mismatch(case, {"client": cid, "call": i, "c": c, "impl": cout(o), "model": cout(y)})
                break
    del st


# --------------------------------------------------------------------------- (c') contended targets

BIG_N = 60_000


def enc_small(v):
    """like enc, but a long list is replaced by a digest (length, sum) so that big stored values stay cheap to log"""
    if isinstance(v, (list, tuple)) and len(v) > 1000:
        try:
            return {"s": f"<big {type(v).__name__} len={len(v)} sum={sum(v)!r}>"}
        except TypeError:
            return {"s": f"<big {type(v).__name__} len={len(v)}>"}
    if isinstance(v, list):
        return {"l": [enc_small(x) for x in v]}
    if isinstance(v, tuple):
        return {"t": [enc_small(x) for x in v]}
    if isinstance(v, dict):
        return {"d": [[str(k), enc_small(x)] for k, x in v.items()]}
    return enc(v)


def call_small(st, c):
    """call_real with the digesting encoder (arguments are small wire values)"""
    name = c[0]
    try:
        r = evaluator_view(st, c) if name in STATUS_VIEWS else getattr(st, name)(*pyargs(c))
    except (KeyError, ValueError, TypeError, AttributeError, IndexError, RuntimeError) as e:
        return {"k": "error", "v": type(e).__name__}
    kind = RET.get(name) or RET_PSEUDO[name]
    if kind == "none":
        return {"k": "none"} if r is None else {"k": "val", "v": enc_small(r)}
    if kind == "vals":
        return {"k": "vals", "v": [enc_small(x) for x in r]}
    if kind == "ids":
        return {"k": "ids", "v": list(r)}
    return {"k": "val", "v": enc_small(r)}


def contended_client(st, cid, prog, jids, sids, barrier, q):
    """a client that stores to / loads from jobs and searches it shares with every other client.
    Keys `c<cid>_*` are written by this client only; the keys `shared`, `out`, `in`, `status` by everybody."""
    log = []
    try:
        barrier.wait(timeout=120)
        for seq, op in enumerate(prog):
            k = op[0]
            v = {"t": [{"i": cid}, {"i": seq}]}
            j = jids[op[1] % len(jids)]
            s = sids[op[1] % len(sids)]
            if k == "smeta_own":
                c = ["store_job_metadata", j, f"c{cid}_{op[2]}", v]
            elif k == "smeta_shared":
                c = ["store_job_metadata", j, "shared", v]
            elif k == "sj_own":
                c = ["store_job", j, f"c{cid}_x{op[2]}", v]
            elif k == "sout":
                c = ["store_job_out", j, v]
            elif k == "sin":
                c = ["store_job_in", j, v, None]
            elif k == "sstatus":
                c = [("store_job_status", "job_status_set")[seq % 2], j, {"i": (cid + seq) % 5}]
            elif k == "ssv_own":
                c = ["store_search_value", s, f"c{cid}_{op[2]}", v]
            elif k == "ssv_shared":
                c = ["store_search_value", s, "shared", v]
            elif k == "ljob":
                c = ["load_job", j]
            elif k == "lstatus":
                c = [("load_job_status", "running_job_status", "job_status")[seq % 3], j]
            elif k == "lsv_own":
                c = ["load_search_value", s, f"c{cid}_{op[2]}"]
            elif k == "lsv_shared":
                c = ["load_search_value", s, "shared"]
            elif k == "lmeta":
                c = ["load_metadata_from_all_jobs", s, f"c{cid}_{op[2]}"]
            else:
                continue
            log.append((c, call_small(st, c)))
        q.put((cid, log, None))
    except Exception as e:  # pragma: no cover
        q.put((cid, log, repr(e)))


def gen_contended_prog(rng, nops, load_share):
    prog = []
    for _ in range(nops):
        x = rng.random()
        t = rng.randint(0, 5)
        if x < load_share:
            prog.append((rng.choice(["ljob", "ljob", "lstatus", "lsv_own", "lsv_shared", "lmeta"]), t, rng.choice("abc")))
        else:
            prog.append((rng.choice(["smeta_own"] * 6 + ["smeta_shared", "sj_own", "sj_own", "sout", "sin", "sstatus",
                                                         "ssv_own", "ssv_own", "ssv_shared"]), t, rng.choice("abc")))
    return prog


STORE_METHOD_LOC = {
    "store_job_metadata": lambda c: ("meta", c[1], c[2], c[3]),
    "store_job": lambda c: ("job", c[1], c[2], c[3]),
    "store_job_out": lambda c: ("job", c[1], "out", c[2]),
    "store_job_status": lambda c: ("job", c[1], "status", c[2]),
    "job_status_set": lambda c: ("job", c[1], "status", c[2]),
    "store_job_in": lambda c: ("job", c[1], "in", {"d": [["args", c[2]], ["kwargs", c[3]]]}),
    "store_search_value": lambda c: ("search", c[1], c[2], c[3]),
}


def _ck(w):
    return json.dumps(cv(w), sort_keys=True)


def contended_round(ck, rng, nclients, nops, big, njobs=2, attempt_seed=None):
    """several client processes store to the SAME jobs / searches (own keys + contested keys) at the same time, on
    targets that already carry small or large values.  Oracle (real code only): every (target, key) some client stored
    successfully is present at the end with a value some client stored under it (exactly the writer's last value when only
    one client writes the key); a client's loads show its own last value for the keys only it writes, and some stored
    value for contested keys."""
    from deephyper.evaluator.storage import SharedMemoryStorage

    old_interval = sys.getswitchinterval()
    sys.setswitchinterval(1e-6)
    try:
        st = SharedMemoryStorage()
    finally:
        sys.setswitchinterval(old_interval)
    sids = [st.create_new_search()]
    jids = [st.create_new_job(sids[0]) for _ in range(njobs)]
    initial = {}
    bigval = [i * 0.5 for i in range(BIG_N)]
    for n, j in enumerate(jids):
        st.store_job_metadata(j, "pre", n)
        initial[("meta", j, "pre")] = {"i": n}
        if big:
            st.store_job_metadata(j, "big", bigval)
            initial[("meta", j, "big")] = enc_small(bigval)
            if n == 0:
                st.store_job(j, "bigx", bigval)
                initial[("job", j, "bigx")] = enc_small(bigval)
    st.store_search_value(sids[0], "pre", "p")
    initial[("search", sids[0], "pre")] = {"s": "p"}
    if big:
        st.store_search_value(sids[0], "big", bigval)
        initial[("search", sids[0], "big")] = enc_small(bigval)
    seed = attempt_seed if attempt_seed is not None else rng.randrange(1 << 30)
    import random

    progs = [gen_contended_prog(random.Random(seed * 131 + i), nops, 0.12 if big else 0.25) for i in range(nclients)]
    ctx = mp.get_context("fork")
    barrier, q = ctx.Barrier(nclients), ctx.Queue()
    ps = [ctx.Process(target=contended_client, args=(st, i + 1, progs[i], jids, sids, barrier, q)) for i in range(nclients)]
    for p in ps:
        p.start()
    logs, errors = {}, []
    try:
        for _ in ps:
            cid, log, err = q.get(timeout=600)
            logs[cid] = log
            if err:
                errors.append((cid, err))
    except Exception as e:
        for p in ps:
            p.kill()
        raise common.HarnessError(f"contended clients did not finish: {e!r}")
    for p in ps:
        p.join(timeout=60)
    if errors:
        raise common.HarnessError(f"client process crashed: {errors}")
    case = {"kind": "contended", "clients": nclients, "ops": nops, "big": bool(big), "jobs": njobs, "seed": seed}
    ck.case(case, nontrivial=True)
    ck.count("schedule:contended-" + ("big" if big else "small"))
    ck.count(f"contended-clients={nclients}")
    ck.count("contended-calls", sum(len(l) for l in logs.values()))
    tag = "SharedMemoryStorage-contended"
    # ---- what was stored (successful stores only), per location
    stored, writers, method_of = {}, {}, {}
    for cid, log in logs.items():
        for c, o in log:
            f = STORE_METHOD_LOC.get(c[0])
            if f is None:
                continue
            if o["k"] != "none":
                ck.count(f"contended:store-raised:{c[0]}:{o.get('v')}")
                continue
            kind, target, key, val = f(c)
            loc = (kind, target, key)
            stored.setdefault(loc, []).append((cid, val))
            writers.setdefault(loc, set()).add(cid)
            method_of[loc] = c[0]
            ck.count("contended-stores")
    legal = {loc: {_ck(v) for _, v in vs} for loc, vs in stored.items()}
    for loc, v in initial.items():
        legal.setdefault(loc, set()).add(_ck(v))
    last_own = {loc: vs[-1][1] for loc, vs in stored.items() if len(writers[loc]) == 1}

    def judge(loc, got, where, midrun=False):
        """got: wire value or None (absent)"""
        want = legal.get(loc)
        if want is None:
            return
        if midrun and loc[0] == "job" and loc[2] == "status" and got == {"i": 0}:
            return  # the default status, read before anybody's store was served
        method = method_of.get(loc, {"meta": "store_job_metadata", "job": "store_job", "search": "store_search_value"}[loc[0]])
        if got is None:
            ck.fail(f"C13|lost-value|{method}|{tag}", f"a value stored under {loc} is gone ({where})", case,
                    {"location": list(loc), "where": where, "writers": sorted(writers.get(loc, [])), "stores": len(stored.get(loc, []))})
        elif _ck(got) not in want:
            ck.fail(f"C13|lost-value|{method}|{tag}", f"{loc} holds a value nobody stored there ({where})", case,
                    {"location": list(loc), "where": where, "got": cv(got)})

    # ---- final contents (parent, after every client is done)
    final = call_small(st, ["load_search", sids[0]])
    if final["k"] != "val":
        ck.fail(f"C13|lost-value|load_search|{tag}", "final load_search failed", case, final)
        return
    recs = {sids[0] + "." + p: dict(v["d"]) for p, v in final["v"]["d"]}
    for loc in sorted(legal):
        kind, target, key = loc
        if kind == "search":
            o = call_small(st, ["load_search_value", target, key])
            got = o["v"] if o["k"] == "val" else None
        else:
            rec = recs.get(target)
            if rec is None:
                got = None
            elif kind == "job":
                got = rec.get(key, None) if key in rec else None
            else:
                md = rec.get("metadata")
                mdd = dict(md["d"]) if isinstance(md, dict) and "d" in md else {}
                got = mdd[key] if key in mdd else None
        judge(loc, got, "at the end")
        if got is not None and loc in last_own and _ck(got) != _ck(last_own[loc]) and _ck(got) in legal[loc]:
            ck.fail(f"C13|lost-value|{method_of[loc]}|{tag}", f"{loc} (written by one client only) does not hold that client's last value", case,
                    {"location": list(loc), "got": cv(got), "want": cv(last_own[loc])})
    # ---- every client's loads, in its program order
    for cid, log in logs.items():
        mine = {}   # loc -> last value this client stored (only for locations nobody else writes)
        for c, o in log:
            f = STORE_METHOD_LOC.get(c[0])
            if f is not None:
                if o["k"] == "none":
                    kind, target, key, val = f(c)
                    if len(writers[(kind, target, key)]) == 1:
                        mine[(kind, target, key)] = val
                continue
            if o["k"] == "error" and o["v"] == "RuntimeError":
                ck.count("concurrent:RuntimeError-in-iterating-load:" + c[0])
                continue
            if c[0] == "load_job" and o["k"] == "val":
                rec = dict(o["v"]["d"])
                md = rec.get("metadata")
                mdd = dict(md["d"]) if isinstance(md, dict) and "d" in md else {}
                for loc in legal:
                    kind, target, key = loc
                    if target != c[1] or kind == "search":
                        continue
                    got = (rec.get(key) if key in rec else None) if kind == "job" else (mdd.get(key) if key in mdd else None)
                    if loc in mine:
                        if got is None or _ck(got) != _ck(mine[loc]):
                            ck.fail(f"C13|read-your-writes|{method_of[loc]}|{tag}", f"client {cid} does not read back its own last store to {loc}", case,
                                    {"location": list(loc), "client": cid, "got": cv(got) if got is not None else None, "want": cv(mine[loc])})
                    elif got is not None:
                        judge(loc, got, f"load_job by client {cid}", midrun=True)
                    elif loc in initial:
                        judge(loc, None, f"load_job by client {cid}", midrun=True)   # present before the clients started
            elif c[0] == "load_search_value":
                loc = ("search", c[1], c[2])
                if loc in mine:
                    if o["k"] != "val" or _ck(o["v"]) != _ck(mine[loc]):
                        ck.fail(f"C13|read-your-writes|store_search_value|{tag}", f"client {cid} does not read back its own last store to {loc}", case,
                                {"location": list(loc), "client": cid, "got": o, "want": cv(mine[loc])})
                elif o["k"] == "val":
                    judge(loc, o["v"], f"load_search_value by client {cid}", midrun=True)
            elif c[0] in ("load_job_status", "running_job_status", "job_status") and o["k"] == "val":
                ck.count("contended:status-read-via:" + c[0])
                loc = ("job", c[1], "status")
                if _ck(o["v"]) not in (legal.get(loc, set()) | {_ck({"i": 0})}):
                    ck.fail(f"C13|lost-value|store_job_status|{tag}", "load_job_status returned a value nobody stored", case, {"got": o})
    del st


def storage_factory(ck):
    """`Storage.create("memory")`, `connect()`, `is_connected()` : the storage an Evaluator builds by default"""
    from deephyper.evaluator.storage import MemoryStorage, Storage

    st = Storage.create("memory")
    case = {"kind": "factory"}
    ck.case(case, nontrivial=False)
    ck.count("schedule:factory")
    ok = isinstance(st, MemoryStorage) and st.is_connected() is False and st.connect() is st and st.is_connected() is True
    calls = [["create_new_search"], ["create_new_job", "0"], ["store_job_metadata", "0.0", "a", {"i": 1}], ["job_status_set", "0.0", {"i": 2}],
             ["running_job_status", "0.0"], ["load_job", "0.0"]]
    outs, bad, snap_bad = run_history(st, calls, "MemoryStorage")
    try:
        Storage.create("no-such-backend")
        ok = False
    except ValueError:
        pass
    if not ok or bad or snap_bad or outs[4] != {"k": "val", "v": {"i": 2}}:
        ck.fail("C13|read-your-writes|Storage.create|MemoryStorage", "the storage built by Storage.create('memory') does not behave like MemoryStorage", case,
                {"outs": outs, "bad": bad})


def store_side_observation(ck):
    """NOT judged (outside the statement, see notes/C13.md): an in-process MemoryStorage keeps the objects it is given by
    reference.  Counted in the evidence so that a change of this behaviour is visible: (1) the caller changes an object after
    storing it, (2) one object stored under two jobs and one of them then extended with store_job_metadata, (3) the live object
    load_search_value returns stored as a job's metadata and extended."""
    st = new_memory()
    s = st.create_new_search()
    a, b = st.create_new_job(s), st.create_new_job(s)
    seen = {}
    try:
        m = {"u": 1}
        st.store_job_out(a, m)
        m["u"] = 2
        seen["caller-edits-stored-object"] = st.load_job(a)["out"] == {"u": 2}
        d = {}
        st.store_job(a, "metadata", d)
        st.store_job(b, "metadata", d)
        st.store_job_metadata(b, "k", 1)
        seen["one-object-stored-under-two-jobs"] = st.load_job(a)["metadata"] == {"k": 1}
        st.store_search_value(s, "a", {"p": 1})
        st.store_job(b, "metadata", st.load_search_value(s, "a"))
        st.store_job_metadata(b, "kk", 1)
        seen["live-search-value-stored-as-metadata"] = st.load_search_value(s, "a") == {"p": 1, "kk": 1}
    except Exception as e:
        seen["raised:" + type(e).__name__] = True
    # (4) the same one level up: an object the USER handed to the library and kept — the list a run-function returned as its
    # objective, edited after the job was gathered.  `_on_done` stores `job.objective` by reference.  Not judged either.
    try:
        from deephyper.evaluator import Evaluator, HPOJob

        kept = []

        async def run(job):
            kept.append([1.0, 2.0])
            return {"objective": kept[-1]}

        with contextlib.redirect_stdout(io.StringIO()):
            s2 = st.create_new_search()
            ev = Evaluator.create(run, method="serial", method_kwargs={"storage": st, "search_id": s2})
            ev._job_class = HPOJob
            ev.submit([{"x": 1}])
            ev.gather("ALL")
            kept[-1].append(3.0)
            jid = st.load_all_job_ids(s2)[-1]
            seen["run-function-edits-returned-object"] = st.load_job(jid)["out"] == [1.0, 2.0, 3.0]
            ev.close()
    except Exception as e:
        seen["evaluator-raised:" + type(e).__name__] = True
    for k, v in seen.items():
        ck.count(f"observation:store-side-reference:{k}:" + ("shared" if v else "not-shared"))


def thread_stress(ck, nthreads, per_thread):
    """the manager serves each client from its own thread: hammer one MemoryStorage from threads"""
    st = new_memory()
    sid = st.create_new_search()
    got = [[] for _ in range(nthreads)]
    start = threading.Barrier(nthreads)
    old = sys.getswitchinterval()

    def w(k):
        start.wait()
        for i in range(per_thread):
            j = st.create_new_job(sid)
            st.store_job_out(j, (k, i))
            got[k].append(j)

    sys.setswitchinterval(1e-6)
    try:
        ts = [threading.Thread(target=w, args=(k,)) for k in range(nthreads)]
        for t in ts:
            t.start()
        for t in ts:
            t.join()
    finally:
        sys.setswitchinterval(old)
    ids = [j for g in got for j in g]
    case = {"kind": "threads", "threads": nthreads, "creates_per_thread": per_thread}
    ck.case(case)
    ck.count("schedule:thread-stress")
    ck.count("thread-creates", len(ids))
    if len(set(ids)) != len(ids):
        ck.fail("C13|unique-id|create_new_job|MemoryStorage-threads", "two threads received the same job id", case, {"distinct": len(set(ids)), "total": len(ids)})
    outs = st.load_search(sid)
    for k, g in enumerate(got):
        for i, j in enumerate(g):
            if outs[j.split(".")[1]]["out"] != (k, i):
                ck.fail("C13|lost-value|store_job_out|MemoryStorage-threads", "a value stored by a thread was lost", case, {"job": j})
                return


def forced_split(ck, drv):
    """validates the model's split `create_new_job` (theorem C13_nonatomic_witness) against the real code:
    with sys.settrace a second create_new_job is run to completion exactly between the first call's counter read
    and its increment (a schedule CPython does not produce by itself as long as the window holds no eval-breaker
    check) and the identifiers / listing / next identifier are compared with the model.  L2 only, never an alarm."""
    import inspect

    from deephyper.evaluator.storage import MemoryStorage

    fn = MemoryStorage.create_new_job
    try:
        lines, start = inspect.getsourcelines(fn)
    except OSError:
        ck.count("forced-split:no-source")
        return
    target = next((start + i for i, l in enumerate(lines) if "+= 1" in l), None)
    if target is None:
        ck.count("forced-split:increment-line-not-found")
        return
    st = MemoryStorage()
    sid = st.create_new_search()
    code = fn.__code__
    state = {"fired": False, "b": None}

    def local(frame, event, arg):
        if event == "line" and frame.f_lineno == target and not state["fired"]:
            state["fired"] = True
            sys.settrace(None)
            state["b"] = st.create_new_job(sid)
            sys.settrace(tracer)
        return local

    def tracer(frame, event, arg):
        return local if frame.f_code is code else None

    old = sys.gettrace()
    sys.settrace(tracer)
    try:
        a = st.create_new_job(sid)
    finally:
        sys.settrace(old)
    real = {"b": {"k": "id", "v": state["b"]}, "a": {"k": "id", "v": a},
            "listing": {"k": "ids", "v": st.load_all_job_ids(sid)}, "next": {"k": "id", "v": st.create_new_job(sid)}}
    rep = drv.ask({"op": "split"})
    model = {k: rep[k] for k in real}
    case = {"kind": "forced-split"}
    ck.case(case)
    ck.count("schedule:forced-split")
    ck.count("forced-split:duplicate-id" if real["a"]["v"] == real["b"]["v"] else "forced-split:distinct-ids")
    if real != model:
        ck.mismatch(case, {"impl": real, "model": model})


def atomicity_window():
    """bytecode between the first read of an id counter and its write-back in create_new_search / create_new_job:
    a thread switch needs an eval-breaker check, which CPython only performs on calls and backward jumps"""
    from deephyper.evaluator.storage import MemoryStorage

    rep = {}
    for fn, marker in ((MemoryStorage.create_new_search, "_search_id_counter"), (MemoryStorage.create_new_job, "job_id_counter")):
        ins = list(dis.get_instructions(fn))
        first = next((i for i, x in enumerate(ins) if x.argval == marker), None)
        inplace = next((i for i, x in enumerate(ins) if x.opname == "BINARY_OP" and "+=" in (x.argrepr or "")), None)
        if first is None or inplace is None:
            rep[fn.__name__] = {"found": False}
            continue
        last = next(i for i in range(inplace, len(ins)) if ins[i].opname in ("STORE_ATTR", "STORE_SUBSCR"))
        window = [x.opname for x in ins[first:last + 1]]
        risky = [o for o in window if o.startswith("CALL") or o.startswith("JUMP_BACKWARD") or o in ("FOR_ITER", "SEND", "YIELD_VALUE", "RESUME")]
        rep[fn.__name__] = {"found": True, "window": window, "risky": risky}
    return rep


# --------------------------------------------------------------------------- (g) the storage's own clients: real Evaluators
#
# The histories above are issued by the harness.  In the library the storage's clients are the Evaluator (store_job_in at
# submission, statuses, outputs and metadata at completion), the Job objects it keeps and the RunningJob handed to the
# run-function.  Here jobs are created and run through REAL evaluators (serial and thread backends, Job and HPOJob formats,
# one or two evaluators attached to one search) on a storage wrapped in a `Recorder`: every storage call the clients make is
# logged with the VALUE of each argument at the time of the call and with the answer.  The log IS a history of storage
# operations with values as arguments, and is judged like any other one: by the simple map, by the verified checker and
# against the model.  What the USER of the library does in between is no storage operation: the run-function edits the
# parameters it was given (`job["x"] = …`, `update`, `del`, nested edits, `clear` — RunningJob is a MutableMapping over ITS
# copy of the configuration), the caller edits / reuses the dicts it passed to `submit`.  Every load — by the clients, and
# by the harness between the steps and at the end — must return the last value STORED; the same user-level scenario must
# leave the same inputs / outputs / statuses on SharedMemoryStorage and on MemoryStorage.  The user keeps to what is his:
# objects the run-function RETURNED (handed to the library) and the Job objects `gather` returns are not edited.

EV_MODES = ["none", "setitem", "update", "del", "nested", "clear", "pop", "setdefault"]
EV_OUTS = ["scalar", "tuple", "dict", "wrapped"]


def _ev_body(job):
    """what the run-function does: reads its parameters, looks at its own status, computes its result, then (as run-functions
    that derive or normalise hyperparameters do) edits the parameters it was given, in place"""
    p = job.parameters
    mode, x, out = p.get("mode"), p.get("x", 0), p.get("out", "scalar")
    _ = job.status
    if out == "tuple":
        res = (float(x), 1.0)
    elif out == "dict":
        res = {"objective": float(x), "metadata": {"m": [x, {"k": x}], "note": str(mode)}}
    elif out == "wrapped":
        res = {"output": float(x), "metadata": {"w": x}}
    else:
        res = float(x)
    if mode == "setitem":
        job["x"] = [x, "edited"]
        job["derived"] = {"from": x}
    elif mode == "update":
        p.update({"lr": 0.5, "x": None})
    elif mode == "del":
        for k in [k for k in p if k not in ("mode", "out")][:1]:
            del job[k]
    elif mode == "nested":
        for v in list(p.values()):
            if isinstance(v, list):
                v.append("edited")
            elif isinstance(v, dict):
                v["edited"] = True
                for w in v.values():
                    if isinstance(w, list):
                        w.append("edited")
    elif mode == "clear":
        p.clear()
    elif mode == "pop":
        p.pop("x", None)
    elif mode == "setdefault":
        p.setdefault("layers", []).append(x)
    return res


async def ev_run_async(job):
    return _ev_body(job)


def ev_run_sync(job):
    return _ev_body(job)


class Recorder:
    """a storage client that passes every call on to the real storage UNCHANGED (the very objects it was given) and logs the
    call — identifiers / keys / the value of every argument at that moment — with the answer.  One call at a time."""

    def __init__(self, inner):
        self.inner, self.log, self.lock, self.connected = inner, [], threading.RLock(), False

    def _do(self, name, wire, *args):
        with self.lock:
            try:
                r = getattr(self.inner, name)(*args)
            except Exception as e:
                self.log.append(([name] + wire, {"k": "error", "v": type(e).__name__}))
                raise
            self.log.append(([name] + wire, out_of(name, r)))
            return r

    def is_connected(self):
        return self.connected

    def connect(self):
        self.connected = True
        return self

    def _connect(self):
        pass

    def create_new_search(self):
        return self._do("create_new_search", [])

    def create_new_job(self, search_id):
        return self._do("create_new_job", [kwire(search_id)], search_id)

    def store_search_value(self, search_id, key, value):
        return self._do("store_search_value", [kwire(search_id), kwire(key), enc_in(value)], search_id, key, value)

    def load_search_value(self, search_id, key):
        return self._do("load_search_value", [kwire(search_id), kwire(key)], search_id, key)

    def store_job(self, job_id, key, value):
        return self._do("store_job", [kwire(job_id), kwire(key), enc_in(value)], job_id, key, value)

    def store_job_in(self, job_id, args=None, kwargs=None):
        return self._do("store_job_in", [kwire(job_id), enc_in(args), enc_in(kwargs)], job_id, args, kwargs)

    def store_job_out(self, job_id, value):
        return self._do("store_job_out", [kwire(job_id), enc_in(value)], job_id, value)

    def store_job_metadata(self, job_id, key, value):
        return self._do("store_job_metadata", [kwire(job_id), kwire(key), enc_in(value)], job_id, key, value)

    def load_all_search_ids(self):
        return self._do("load_all_search_ids", [])

    def load_all_job_ids(self, search_id):
        return self._do("load_all_job_ids", [kwire(search_id)], search_id)

    def load_search(self, search_id):
        return self._do("load_search", [kwire(search_id)], search_id)

    def load_job(self, job_id):
        return self._do("load_job", [kwire(job_id)], job_id)

    def load_metadata_from_all_jobs(self, search_id, key):
        return self._do("load_metadata_from_all_jobs", [kwire(search_id), kwire(key)], search_id, key)

    def load_out_from_all_jobs(self, search_id):
        return self._do("load_out_from_all_jobs", [kwire(search_id)], search_id)

    def load_jobs(self, job_ids):
        return self._do("load_jobs", [[kwire(j) for j in job_ids]], job_ids)

    def store_job_status(self, job_id, job_status):
        return self._do("store_job_status", [kwire(job_id), enc_in(job_status)], job_id, job_status)

    def load_job_status(self, job_id):
        return self._do("load_job_status", [kwire(job_id)], job_id)


def gen_ev_config(rng, n):
    cfg = [["x", {"i": n}], ["mode", {"s": rng.choice(EV_MODES)}], ["out", {"s": rng.choice(EV_OUTS)}]]
    if rng.random() < 0.6:
        cfg.append(["layers", {"l": [{"i": rng.randint(1, 9)} for _ in range(rng.randint(0, 3))]}])
    if rng.random() < 0.5:
        cfg.append(["opt", {"d": [["name", {"s": "sgd"}], ["steps", {"l": [{"i": 1}]}]]}])
    if rng.random() < 0.2:
        cfg.append(["f", {"f": rat(rng.choice([0.5, 1e-3]))}])
    rng.shuffle(cfg)
    return {"d": cfg}


def gen_ev_scenario(rng, nsteps):
    """a user-level scenario: one or two evaluators on one search; submits, gathers, the caller reusing the dicts it passed,
    statuses stored / read through the storage methods, through the Job objects the evaluators keep and through new handles"""
    nev = rng.choice([1, 1, 2])
    hpo = rng.random() < 0.75       # one job format per search (several evaluators on one search use the same)
    evs = [{"method": rng.choice(["serial", "thread"]), "hpo": hpo, "workers": rng.choice([1, 2, 3])} for _ in range(nev)]
    steps, n, pending, done = [], 0, [0] * nev, 0
    while len(steps) < nsteps:
        e = rng.randrange(nev)
        x = rng.random()
        if x < 0.35 or n == 0:
            k = rng.randint(1, 3)
            steps.append(["submit", e, [gen_ev_config(rng, n + i) for i in range(k)]])
            n += k
            pending[e] += k
        elif x < 0.60 and pending[e]:
            steps.append(["gather", e, rng.choice(["ALL", "ALL", "BATCH"])])
            done += pending[e]
            pending[e] = 0
        elif x < 0.70:
            steps.append(["reuse", rng.randrange(n), rng.choice([0, 2, 3])])
        elif x < 0.80:
            steps.append(["call", [rng.choice(["load_job", "load_job", "load_job_status", "job_status", "running_job_status"]), f"0.{rng.randrange(n)}"]])
        elif x < 0.85:
            steps.append(["call", rng.choice([["load_search", "0"], ["load_jobs", [f"0.{rng.randrange(n)}" for _ in range(2)]], ["load_out_from_all_jobs", "0"],
                                              ["load_metadata_from_all_jobs", "0", "note"], ["load_all_job_ids", "0"]])])
        elif x < 0.92 and done:
            # the status of a finished job goes back (a job re-queued by hand), through the storage or through a Job object
            j = f"0.{rng.randrange(n)}"
            v = {"i": rng.randint(0, 4)}
            steps.append(["call", rng.choice([["store_job_status", j, v], ["job_status_set", j, v], ["job_status_set", j, v, "A"], ["store_job", j, "status", v]])])
        else:
            steps.append(["kept_job_status", e, rng.randrange(max(n, 1))])
    for e in range(nev):
        if pending[e]:
            steps.append(["gather", e, "ALL"])
    for e in range(nev):
        steps.append(["kept_job_status", e, rng.randrange(n)])
    return {"kind": "evaluator", "evaluators": evs, "steps": steps}


def run_ev_scenario(scn, label, factory):
    """-> (log of the storage calls with their answers [+ evaluator-level status reads], snapshot verdict, final digest)"""
    from deephyper.evaluator import Evaluator, HPOJob

    inner = new_memory() if label == "MemoryStorage" else factory.new()
    rec = Recorder(inner)
    sid = rec.create_new_search()
    evs, passed, views, snap = [], [], {}, Snap(limit=8)
    sink_out = io.StringIO()
    snap_bad = None
    rec.raised = []      # user-level steps that raised (none does on a correct tree; the storage call behind it is in the log)
    try:
        with contextlib.redirect_stdout(sink_out):
            for e in scn["evaluators"]:
                fn = ev_run_async if e["method"] == "serial" else ev_run_sync
                ev = Evaluator.create(fn, method=e["method"], method_kwargs={"storage": rec, "search_id": sid, "num_workers": e.get("workers", 1)})
                if e.get("hpo"):
                    ev._job_class = HPOJob
                evs.append(ev)
            for n, step in enumerate(scn["steps"]):
                kind = step[0]
                try:
                    _ev_step(scn, step, n, rec, evs, passed, views, snap)
                except common.HarnessError:
                    raise
                except Exception as ex:
                    rec.raised.append({"step": n, "what": step[:2], "raised": type(ex).__name__, "text": str(ex)[:200]})
                if snap_bad is None and snap.kept:
                    snap_bad = snap.check(len(rec.log))
            for ev in evs:
                try:
                    if ev._tasks_running:
                        ev.gather("ALL")
                except Exception as ex:
                    rec.raised.append({"step": "final gather", "raised": type(ex).__name__, "text": str(ex)[:200]})
            jids = call_real2(rec, ["load_all_job_ids", sid])[1] or []
            for j in jids:
                call_real2(rec, ["load_job", j])
                call_real2(rec, ["load_job_status", j])
            for c in (["load_search", sid], ["load_jobs", list(jids)], ["load_out_from_all_jobs", sid]):
                call_real2(rec, c)
            final = call_real(inner, ["load_search", sid])
    finally:
        with contextlib.redirect_stdout(sink_out):
            for ev in evs:
                try:
                    ev.close()
                    if hasattr(ev, "executor"):
                        ev.executor.shutdown(wait=True)
                except Exception:
                    pass
    if snap_bad is None and snap.kept:
        snap_bad = snap.check(len(rec.log))
    return rec.log, snap_bad, ev_digest(final), rec.raised


def _ev_step(scn, step, n, rec, evs, passed, views, snap):
    """one user-level step of a scenario"""
    kind = step[0]
    if kind == "submit":
        cfgs = [dec(w) for w in step[2]]
        passed.extend(cfgs)
        evs[step[1] % len(evs)].submit(cfgs)
    elif kind == "gather":
        ev = evs[step[1] % len(evs)]
        if ev._tasks_running:
            # a batch only on the serial backend (nothing runs between the steps there); on the thread backend the
            # jobs left over would finish at times of their own and the end state would depend on the machine
            if step[2] == "BATCH" and scn["evaluators"][step[1] % len(evs)]["method"] == "serial":
                ev.gather("BATCH", size=1)
            else:
                ev.gather("ALL")
    elif kind == "reuse":
        if passed:
            caller_edit(passed[step[1] % len(passed)], step[2], True, 700 + n)   # the caller's own dict, after submit
    elif kind == "call":
        c = step[1]
        k0 = len(rec.log)
        out, obj = call_real2(rec, c, views)
        if c[0] in STATUS_VIEWS:
            rec.log.append((c, out))          # what the evaluator-level access showed (its storage call is logged before it)
        elif out["k"] != "error" and c[0] in HANDLE_DEEP and isinstance(obj, dict):
            snap.keep(c, obj, k0)
    elif kind == "kept_job_status":
        ev = evs[step[1] % len(evs)]
        # (in the order of the job identifiers: `jobs_done` is in the order asyncio's set of finished tasks was walked)
        jobs = {id(j): j for j in list(ev.jobs_done) + list(ev.jobs)}.values()
        jobs = sorted(jobs, key=lambda j: [int(p) if p.isdigit() else -1 for p in str(j.id).split(".")])
        if jobs:
            job = jobs[step[2] % len(jobs)]
            try:
                out = {"k": "val", "v": enc(job.status.value)}
            except Exception as ex:
                out = {"k": "error", "v": type(ex).__name__}
            rec.log.append((["job_status", job.id, f"kept-by-evaluator-{step[1] % len(evs)}"], out))


def ev_digest(final):
    """what must not depend on the storage backend: per job the inputs, the output and the status (metadata holds timestamps)"""
    if final["k"] != "val" or not isinstance(final["v"], dict) or "d" not in final["v"]:
        return final
    dig = {}
    for pid, rec in final["v"]["d"]:
        r = dict(rec["d"]) if isinstance(rec, dict) and "d" in rec else {}
        md = r.get("metadata")
        mkeys = sorted(k for k, _ in md["d"]) if isinstance(md, dict) and "d" in md else None
        dig[pid] = {"in": cv(r.get("in")), "out": cv(r.get("out")), "status": r.get("status"), "metadata_keys": mkeys}
    return dig


def judge_ev_log(log):
    sm = SimpleMap("evaluator")
    for c, o in log:
        judge_call(sm, c, o)
    return sm.bad


def ev_backends(scn):
    return "+".join(sorted({e["method"] for e in scn["evaluators"]}))


def ev_fails(scn, label, factory, clause, method):
    if clause == "shared-equals-memory":
        return run_ev_scenario(scn, "MemoryStorage", factory)[2] != run_ev_scenario(scn, "SharedMemoryStorage", factory)[2]
    log, snap_bad, _, _ = run_ev_scenario(scn, label, factory)
    if clause == "snapshot":
        return snap_bad is not None
    return any(b[0] == clause and b[1] == method for b in judge_ev_log(log))


def shrink_ev(scn, label, factory, clause, method):
    """drop steps, configurations, evaluators and configuration entries while the same clause fails on the same method"""
    best = copy.deepcopy(scn)
    tries = 0

    def attempt(cand):
        nonlocal best, tries
        tries += 1
        try:
            if ev_fails(cand, label, factory, clause, method):
                best = cand
                return True
        except Exception:
            pass
        return False

    i = len(best["steps"]) - 1
    while i >= 0 and tries < 120:
        cand = copy.deepcopy(best)
        del cand["steps"][i]
        if cand["steps"]:
            attempt(cand)
        i = min(i, len(best["steps"])) - 1
    if len(best["evaluators"]) > 1 and tries < 150:
        cand = copy.deepcopy(best)
        cand["evaluators"] = cand["evaluators"][:1]
        attempt(cand)
    for si, st in enumerate(list(best["steps"])):
        if st[0] != "submit":
            continue
        k = len(st[2]) - 1
        while k >= 0 and len(best["steps"][si][2]) > 1 and tries < 200:
            cand = copy.deepcopy(best)
            del cand["steps"][si][2][k]
            attempt(cand)
            k -= 1
        for ci in range(len(best["steps"][si][2])):
            for key in ("layers", "opt", "f", "out"):
                cand = copy.deepcopy(best)
                cfg = cand["steps"][si][2][ci]["d"]
                if any(p[0] == key for p in cfg) and tries < 260:
                    cand["steps"][si][2][ci]["d"] = [p for p in cfg if p[0] != key]
                    attempt(cand)
            # does it take a run-function that edits its parameters?
            cand = copy.deepcopy(best)
            cfg = cand["steps"][si][2][ci]["d"]
            if any(p[0] == "mode" and p[1] != {"s": "none"} for p in cfg) and tries < 300:
                cand["steps"][si][2][ci]["d"] = [(["mode", {"s": "none"}] if p[0] == "mode" else p) for p in cfg]
                attempt(cand)
    # the plainest client that still shows it: serial backend, one worker
    for ei in range(len(best["evaluators"])):
        for k, v in (("method", "serial"), ("workers", 1)):
            if best["evaluators"][ei].get(k) != v and tries < 320:
                cand = copy.deepcopy(best)
                cand["evaluators"][ei][k] = v
                attempt(cand)
    return best


def ev_modes_of(scn):
    ms = {dict(c["d"]).get("mode", {}).get("s", "?") for st in scn["steps"] if st[0] == "submit" for c in st[2]} - {"none"}
    return "edits-its-parameters" if ms else "read-only"


def judge_ev(sink, scn, label, log, snap_bad, factory, shrink=True):
    bad = judge_ev_log(log)
    seen = set()
    for clause, method, detail in bad[:3]:
        if (clause, method) in seen:
            continue
        seen.add((clause, method))
        if shrink:
            # the fingerprint is computed from the shrunk scenario; the same complaint is shrunk (and reported) three times at most
            k = f"evaluator-violations:{label}:{clause}:{method}"
            sink.count(k)
            if sink.counts[k] > 3:
                continue
        small = shrink_ev(scn, label, factory, clause, method) if shrink else scn
        fp = f"C13|{clause}|{method}|{label}/evaluator-{ev_backends(small)}/run-function:{ev_modes_of(small)}"
        sink.fail(fp, f"{label} under a real evaluator: {clause} at {method}", dict(small, storage=label), detail)
    if snap_bad is not None:
        small = shrink_ev(scn, label, factory, "snapshot", None) if shrink else scn
        sink.fail(f"C13|snapshot|{snap_bad['loaded_by'][0]}|{label}/evaluator-{ev_backends(small)}/run-function:{ev_modes_of(small)}",
                  f"{label} under a real evaluator: a loaded object changed later", dict(small, storage=label), snap_bad)
    return bad


def ev_requests(log):
    """the recorded log for the model (`hist`) and for the verified checker (`check`)"""
    calls = [c for c, _ in log]
    outs = [o for _, o in log]
    return {"op": "hist", "s": 50_000, "calls": [model_call(c) for c in calls]}, check_request(calls, outs), calls, outs


def ev_systematic():
    """every way the run-function edits its parameters x both backends x both job formats: submit three configurations (one of
    them read-only), load, gather, load; and the same with two evaluators on the search"""
    nested = [["layers", {"l": [{"i": 1}, {"i": 2}]}], ["opt", {"d": [["name", {"s": "sgd"}], ["steps", {"l": [{"i": 1}]}]]}]]
    for mode in EV_MODES[1:]:
        for method in ("serial", "thread"):
            for hpo in (True, False):
                cfgs = [{"d": [["x", {"i": 1}], ["mode", {"s": "none"}], ["out", {"s": "dict"}]] + nested},
                        {"d": [["x", {"i": 2}], ["mode", {"s": mode}], ["out", {"s": "scalar"}]] + nested},
                        {"d": [["mode", {"s": mode}], ["x", {"i": 3}], ["out", {"s": "tuple"}]]}]
                evs = [{"method": method, "hpo": hpo, "workers": 2}]
                steps = [["submit", 0, cfgs], ["call", ["load_job", "0.1"]], ["call", ["load_search", "0"]], ["gather", 0, "ALL"], ["call", ["load_job", "0.1"]],
                         ["reuse", 1, 2], ["kept_job_status", 0, 1], ["call", ["job_status_set", "0.1", {"i": 0}, "A"]], ["kept_job_status", 0, 1],
                         ["call", ["running_job_status", "0.1", "R"]]]
                yield {"kind": "evaluator", "evaluators": evs, "steps": steps}
        other = {"method": "serial", "hpo": True, "workers": 1}
        yield {"kind": "evaluator", "evaluators": [{"method": "thread", "hpo": True, "workers": 2}, other],
               "steps": [["submit", 0, cfgs[:2]], ["submit", 1, cfgs[2:]], ["gather", 0, "ALL"], ["call", ["load_jobs", ["0.0", "0.1", "0.2"]]], ["gather", 1, "ALL"],
                         ["kept_job_status", 1, 0], ["call", ["store_job_status", "0.2", {"i": 1}]], ["kept_job_status", 1, 0], ["kept_job_status", 0, 2]]}


def ev_worker(item):
    seed, ngen, shared_mod = item
    import random

    common.use_repo_sources()
    rng = random.Random(seed)
    sink = Sink()
    factory = SharedFactory()
    reqs, metas, checks = [], [], []
    try:
        scns = [("systematic", s) for s in ev_systematic()]
        for _ in range(ngen):
            scns.append(("generated", gen_ev_scenario(rng, rng.choice([4, 6, 10, 16]))))
        for t, (how, scn) in enumerate(scns):
            sink.case(scn, nontrivial=True)
            sink.count("schedule:evaluator-driven/" + how)
            for e in scn["evaluators"]:
                sink.count(f"evaluator:{e['method']}:{'HPOJob' if e['hpo'] else 'Job'}")
            for st in scn["steps"]:
                sink.count("evaluator-step:" + st[0])
                if st[0] == "submit":
                    for c in st[2]:
                        sink.count("run-function-edits-parameters:" + dict(c["d"]).get("mode", {}).get("s", "?"))
            log, snap_bad, dig, raised = run_ev_scenario(scn, "MemoryStorage", factory)
            for c, o in log:
                sink.count("evaluator-op:" + c[0])
            for r in raised[:1]:
                sink.mismatch(dict(scn, storage="MemoryStorage"), {"what": "a step of the scenario raised under a real evaluator (it never does on a storage that behaves like the model)", **r})
            bad = judge_ev(sink, scn, "MemoryStorage", log, snap_bad, factory)
            rq, cq, calls, outs = ev_requests(log)
            reqs.append(rq)
            metas.append((scn, calls, outs))
            if cq is not None:
                checks.append((cq, dict(scn, storage="MemoryStorage"), "MemoryStorage", calls, bad))
            if how == "systematic" or t % shared_mod == 0:
                slog, ssnap, sdig, sraised = run_ev_scenario(scn, "SharedMemoryStorage", factory)
                for r in sraised[:1]:
                    sink.mismatch(dict(scn, storage="SharedMemoryStorage"), {"what": "a step of the scenario raised under a real evaluator on the shared storage", **r})
                sink.count("shared-histories")
                sbad = judge_ev(sink, scn, "SharedMemoryStorage", slog, ssnap, factory)
                _, cq, scalls, _ = ev_requests(slog)
                if cq is not None:
                    checks.append((cq, dict(scn, storage="SharedMemoryStorage"), "SharedMemoryStorage", scalls, sbad))
                if dig != sdig:
                    sink.count("evaluator-violations:shared-equals-memory")
                if dig != sdig and sink.counts["evaluator-violations:shared-equals-memory"] <= 3:
                    scn = shrink_ev(scn, "both", factory, "shared-equals-memory", None)
                    dig, sdig = run_ev_scenario(scn, "MemoryStorage", factory)[2], run_ev_scenario(scn, "SharedMemoryStorage", factory)[2]
                    diff = next((j for j in sorted(set(dig) | set(sdig)) if dig.get(j) != sdig.get(j)), None) if isinstance(dig, dict) and isinstance(sdig, dict) else None
                    sink.fail(f"C13|shared-equals-memory|load_search|SharedMemoryStorage/evaluator-{ev_backends(scn)}/run-function:{ev_modes_of(scn)}",
                              "the same scenario under real evaluators leaves different inputs / outputs / statuses on SharedMemoryStorage and on MemoryStorage",
                              dict(scn, storage="both"), {"job": diff, "memory": dig.get(diff) if diff else dig, "shared": sdig.get(diff) if diff else sdig})
        with common.LeanDriver("C13") as drv:
            reps = drv.ask_all(reqs)
            creps = drv.ask_all([c[0] for c in checks])
        for (_, case, label, calls, bad), rep in zip(checks, creps):
            cross_check(sink, case, label, calls, bad, rep)
        for (scn, calls, outs), rep in zip(metas, reps):
            for i, (x, y) in enumerate(zip(outs, rep["outs"])):
                if y["k"] == "oom":
                    break
                if cout(x) != cout(y):
                    sink.mismatch(dict(scn, storage="MemoryStorage"), {"what": "a storage call made under a real evaluator is answered differently by the model run on the recorded calls",
                                                                       "call": i, "c": calls[i], "impl": cout(x), "model": cout(y)})
                    break
    finally:
        factory.close()
    return sink


# --------------------------------------------------------------------------- the check


def _corpus(ck, drv):
    d = common.VERIF / "corpus" / "C13"
    for f in sorted(d.glob("*.json")) if d.is_dir() else []:
        data = json.loads(f.read_text())
        ck.count("corpus")
        replay(ck, data.get("case", data), drv=drv, quiet=True)


def run(ck):
    ck.rule = ("(a) every sequence of <= n method kinds (17 kinds) on top of three starting contents (empty / 1 search x 1 job / 2 searches x 3 jobs each): n <= 3 quick, "
               "<= 4 thorough (total history length <= 5 resp. 11 calls; arguments by rotation over 2 searches x 3 jobs x 2 keys and a value table, several rotations; "
               "longer kind sequences sampled), on MemoryStorage, the model, and (n <= 2 quick / <= 3 thorough, plus the sampled ones) SharedMemoryStorage; "
               "(b) generated histories of 5..200 calls incl. a malformed stream (bad ids, reserved job keys, non-dict metadata); (c) 2..8 client processes on one "
               "SharedMemoryStorage (per-client programs of creates/stores/loads; and contended rounds: all clients store own and contested keys of the same jobs/searches, "
               "targets carrying small or 60 000-float values), thread stress on MemoryStorage, NullStorage ids; (d) histories in which the caller edits in place the objects "
               "the loads returned (every load kind x every way of editing x {once, twice, a store in between}) or hands a part of a loaded job / search back to the storage "
               "(every part x every store method x {same job, other job, job of another search}, then store_job_metadata on the receiver), enumerated, plus generated ones; "
               "(e) scripts of creates / stores of new and of loaded objects / load_job / load_search / load_jobs / in-place edits whose answers are compared object by object "
               "(same object or new object) with the model of object identities, incl. configurations submitted and run through a real evaluator (the parameters object of the running job); "
               "(f) keys of every hashable type next to the strings they print as (20 look-alike pairs x both orders x every keyed store method and as keys of one stored dict; identifiers that "
               "are not str; values of different types that are equal for Python stored one over the other), enumerated + generated; several client handles per job (two Job objects, a "
               "RunningJob, objects made per access, the storage methods: every pair of writers x every pair of statuses, all readers after each write; quick: a third of them); "
               "(g) scenarios under real evaluators (serial / thread, Job / HPOJob, one or two per search) whose run-function edits its parameters in 7 ways, the caller reusing the dicts it "
               "submitted, statuses stored / read through the storage, new handles and the Job objects the evaluators keep: the recorded storage calls are the history; "
               "distinct by canonical call list; "
               "non-trivial = the history creates at least one job")
    ck.assumptions = [
        "the manager server executes each method call atomically (CPython GIL: no eval-breaker check between reading and writing an id counter; checked by disassembly on every run, not proved)",
        "keys and identifiers are str, None, bool, int, finite float or flat tuples of these (a key is taken up to the equality a dict uses: 1 == 1.0 == True); values are JSON-like trees "
        "(None/bool/int/finite float/str/list/tuple/dict)",
        "typed keys are kept out of the malformed stream: a `metadata` entry replaced by a list accepts int-like keys as indices (not modelled)",
        "under real evaluators the user edits only what is his: the parameters the run-function was given and the dicts passed to submit; objects the run-function returned and the Job objects "
        "gather returns are not edited (stored by reference by `_on_done`: observed and counted, not judged); thread backend with gather('ALL') only, so that the end state does not depend on timing",
        "store_search_value with the keys 'job_id_counter' / 'data' overwrites the storage's own bookkeeping entries: excluded from model, theorems and oracle",
        "store_job with the key 'metadata' and a non-dict value makes later metadata calls raise: modelled (TypeError/AttributeError), not judged by the oracle",
        "exhaustive = over sequences of method kinds with rotated arguments, not over all argument tuples (17^L kinds sequences, L<=5); length 6..7 and beyond are sampled",
        "caller actions: the caller edits / hands back only what is its own — the whole tree of a load_job / load_search result, the outer container of the other loads; an object handed to the "
        "storage is from then on shared with it by the caller's own doing (MemoryStorage keeps references, like a dict; the statement promises copies on the load side only): it is not edited "
        "or handed back again, and one object is never stored at two places (observed and counted, not judged: observation:store-side-reference:*)",
        "Model/StorageAlias.lean speaks about acyclic values and job tables in which no object occurs twice (deepcopy's memo is not modelled); searches, counters and free search values are not part of it",
    ]
    ck.trusted_extra = ["the dict-of-dicts 'simple map' reference and the linearization builder in harness/c13.py",
                        "the rendering of the keys of the real answers (`kenc`, compared with the model's `Key.render` on every typed history) and the parse of wire keys in the driver",
                        "the recording storage client (`Recorder`: passes every call on unchanged) and the scenario runner for real evaluators",
                        "multiprocessing.managers (proxy, pickling, one server thread per client)"]
    rng = ck.rng
    win = atomicity_window()
    ck.extra_cov["atomicity_window"] = win
    risky = any(v.get("risky") or not v.get("found") for v in win.values())
    ck.count("atomicity-window:" + ("OPEN" if risky else "closed"))
    with ck.driver() as drv:
        _corpus(ck, drv)
        forced_split(ck, drv)
        object_histories(ck, drv)
        null_histories(ck, drv)
        # (c) concurrency first (processes are forked before the pool threads exist)
        rounds = ck.pick([(2, 500), (3, 400), (5, 300), (8, 250)], [(n, k) for n in (2, 3, 4, 5, 6, 7, 8) for k in (150, 400)] + [(8, 1500), (4, 2500)])
        for r, (nc, nops) in enumerate(rounds):
            concurrent_round(ck, drv, rng, nc, nops, r)
        # (c') the same targets hammered by every client, on small and on large pre-existing values
        crounds = ck.pick([(3, 250, False), (2, 40, True), (4, 40, True), (6, 150, False)],
                          [(n, 400, False) for n in (2, 3, 5, 8)] + [(n, 60, True) for n in (2, 3, 4, 6, 8)] + [(4, 1500, False), (3, 150, True)])
        for nc, nops, big in crounds:
            contended_round(ck, rng, nc, nops, big)
        thread_stress(ck, 4, ck.pick(3000, 20000) * (5 if risky else 1))
        thread_stress(ck, 8, ck.pick(1000, 8000) * (5 if risky else 1))
    # (a) exhaustive kind sequences on top of three starting contents (nothing / 1 search x 1 job / 2 searches x 3 jobs)
    #     plan entries: (preamble, number of further calls, rotations, also on the shared storage)
    if ck.thorough:
        plan = [("empty", 1, (0,), True), ("empty", 2, (0, 1), True), ("empty", 3, (0, 1), True), ("empty", 4, (0,), False),
                ("1x1", 1, (0, 1), True), ("1x1", 2, (0, 1, 2), True), ("1x1", 3, (0, 1), True), ("1x1", 4, (0,), False), ("1x1", 5, (0,), None),
                ("2x3", 1, (0, 1, 2, 3), True), ("2x3", 2, (0, 1, 2, 3), True), ("2x3", 3, (0, 1), True), ("2x3", 4, (0,), False)]
    else:
        plan = [("empty", 1, (0,), True), ("empty", 2, (0,), True), ("empty", 3, (0,), False),
                ("1x1", 1, (0, 1), True), ("1x1", 2, (0, 1), True), ("1x1", 3, (0,), False),
                ("2x3", 1, (0, 1, 2, 3), True), ("2x3", 2, (0, 1), True), ("2x3", 3, (0,), False)]
    items = []
    for pre, n, rots, shared in plan:
        prefixes = list(itertools.product(KINDS, repeat=n - 1))
        if shared is None:  # too many: a random sample of the kind sequences
            prefixes = [tuple(rng.choice(KINDS) for _ in range(n - 1)) for _ in range(3000)]
        for rot in rots:
            chunk = max(1, min(len(prefixes), ck.pick(900, 1500)))
            for i in range(0, len(prefixes), chunk):
                items.append((prefixes[i:i + chunk], rot, bool(shared), pre))
    # sampled longer kind sequences (total length up to 7 and beyond) incl. shared
    for _ in range(ck.pick(2, 30)):
        pre = rng.choice(["empty", "1x1", "2x3"])
        prefixes = [tuple(rng.choice(KINDS) for i in range(rng.randint(3, 6))) for _ in range(ck.pick(40, 60))]
        items.append((prefixes, rng.randint(0, 5), True, pre))
    long_items = [(rng.randrange(1 << 30), ck.pick(40, 150), 200, True) for _ in range(ck.pick(6, 28))]
    # (d) what the caller does with loaded data (edits it / hands it back to the storage) must not matter
    nparts = ck.pick(3, 6)
    alias_items = [(rng.randrange(1 << 30), k, nparts, ck.pick(50, 400)) for k in range(nparts)]
    # (f) keys of every hashable type next to the strings they print as; several client handles (Job / RunningJob objects) per job
    #     (quick: one third of the 625 status histories, chosen by the seed; thorough: all of them, and everything on the shared storage too)
    bparts = ck.pick(1, 4)
    batch_items = [(rng.randrange(1 << 30), "typed-keys", k, bparts, ck.pick(60, 500), ck.pick(3, 1)) for k in range(bparts)]
    if ck.thorough:
        batch_items += [(rng.randrange(1 << 30), "status-handles", k, bparts, 0, 1) for k in range(bparts)]
    else:
        batch_items.append((rng.randrange(1 << 30), "status-handles", rng.randrange(3), 3, 0, 3))
    # (g) jobs created and run through real evaluators whose run-function edits its parameters; the recorded storage calls are the history
    ev_items = [(rng.randrange(1 << 30), ck.pick(80, 600), ck.pick(4, 2)) for _ in range(ck.pick(1, 4))]
    # a sample of the generated histories in this process too (the line-coverage probe only sees this process)
    long_worker((rng.randrange(1 << 30), ck.pick(15, 40), 200, False)).fold(ck)
    storage_factory(ck)
    store_side_observation(ck)
    nworkers = min(ck.pick(8, 14), os.cpu_count() or 2)
    with ProcessPoolExecutor(max_workers=nworkers, mp_context=mp.get_context("fork")) as pool:
        f0 = ([pool.submit(alias_worker, it) for it in alias_items] + [pool.submit(batch_worker, it) for it in batch_items]
              + [pool.submit(ev_worker, it) for it in ev_items])
        f1 = [pool.submit(fan_worker, it) for it in items]
        f2 = [pool.submit(long_worker, it) for it in long_items]
        for f in f0 + f1 + f2:
            f.result().fold(ck)


def replay(ck, case, drv=None, quiet=False):
    own = drv is None
    if own:
        drv = ck.driver()
    try:
        kind = case.get("kind")
        if kind == "history" or kind is None:
            calls = case["calls"]
            sink = Sink()
            factory = SharedFactory()
            try:
                labels = ["MemoryStorage", "SharedMemoryStorage"] if case.get("storage") in (None, "both") else [case["storage"]]
                if has_opaque(calls):
                    labels = ["MemoryStorage"]   # arbitrary Python objects cannot reach the shared storage
                res = {}
                for label in labels:
                    if label == "NullStorage":
                        continue
                    st = new_memory() if label == "MemoryStorage" else factory.public()
                    outs, bad, snap_bad, eff = run_history_eff(st, calls, label)
                    res[label] = (outs, eff)
                    if not quiet:
                        print(f"replay on {label}:")
                        for c, o, e in zip(calls, outs, eff):
                            print("   ", json.dumps(c), "->", json.dumps(cout(o)), ("   [= " + json.dumps(e) + "]") if c[0] == "store_loaded" and e else "")
                        for b in bad:
                            print("  ORACLE FAILS:", b[0], b[1], json.dumps(b[2])[:600])
                        if snap_bad:
                            print("  ORACLE FAILS: snapshot", json.dumps(snap_bad)[:600])
                    ecalls, eouts, _ = storage_level(calls, outs, eff)
                    q = check_request(tok(ecalls), eouts)
                    if q is not None:
                        crep = drv.ask(q)
                        if not quiet:
                            print(f"  verified checker on the answers of {label}: spec={crep['spec']} first bad answer={crep.get('bad')}")
                        cross_check(sink, case, label, ecalls, bad, crep)
                    for clause, method, detail in bad[:3]:
                        sink.fail(f"C13|{clause}|{method}|{variant(label, calls)}", f"{label}.{method}: {clause}", case, detail)
                    if snap_bad is not None:
                        sink.fail(f"C13|snapshot|{snap_bad['loaded_by'][0]}|{variant(label, calls)}", f"{label}: loaded object changed", case, snap_bad)
                if len(res) == 2:
                    d = compare_outs(sink, case, "memory", res["MemoryStorage"][0], "shared", res["SharedMemoryStorage"][0])
                    if d is not None:
                        sink.fail(f"C13|shared-equals-memory|{(res['MemoryStorage'][1][d['call']] or calls[d['call']])[0]}|{variant('SharedMemoryStorage', calls)}",
                                  "SharedMemoryStorage answers differently", case, d)
                outs, eff = next(iter(res.values()))
                ecalls, eouts, ks = storage_level(calls, outs, eff)
                rep = drv.ask({"op": "hist", "s": 999_999, "calls": [model_call(c) for c in tok(ecalls)]})
                for i, (x, y) in enumerate(zip(eouts, rep["outs"])):
                    if y["k"] == "oom":
                        break
                    if cout(x) != cout(y):
                        sink.mismatch(case, {"call": ks[i], "impl": cout(x), "model": cout(y)})
                        break
                sink.case(case)
            finally:
                factory.close()
            sink.fold(ck)
        elif kind == "evaluator":
            sink = Sink()
            factory = SharedFactory()
            try:
                scn = {k: v for k, v in case.items() if k != "storage"}
                labels = ["MemoryStorage", "SharedMemoryStorage"] if case.get("storage") in (None, "both") else [case["storage"]]
                digs = {}
                for label in labels:
                    log, snap_bad, digs[label], raised = run_ev_scenario(scn, label, factory)
                    for r in raised:
                        if not quiet:
                            print("  a step RAISED:", json.dumps(r))
                        sink.mismatch(case, {"what": "a step of the scenario raised under a real evaluator", **r})
                    bad = judge_ev(sink, scn, label, log, snap_bad, factory, shrink=True)   # the fingerprint comes from the shrunk scenario
                    rq, cq, calls, outs = ev_requests(log)
                    if not quiet:
                        print(f"replay on {label} under real evaluators {[(e['method'], 'HPOJob' if e.get('hpo') else 'Job') for e in scn['evaluators']]}; steps:")
                        for st in scn["steps"]:
                            print("    ", json.dumps(st)[:300])
                        print("  storage calls recorded (value of every argument at the time of the call) and their answers:")
                        for c, o in log:
                            print("   ", json.dumps(c)[:260], "->", json.dumps(cout(o))[:400])
                        for b in bad:
                            print("  ORACLE FAILS:", b[0], b[1], json.dumps(b[2])[:700])
                        if snap_bad:
                            print("  ORACLE FAILS: snapshot", json.dumps(snap_bad)[:600])
                    if cq is not None:
                        crep = drv.ask(cq)
                        if not quiet:
                            print(f"  verified checker on the recorded answers of {label}: spec={crep['spec']} first bad answer={crep.get('bad')}")
                        cross_check(sink, case, label, calls, bad, crep)
                    rep = drv.ask(rq)
                    for i, (x, y) in enumerate(zip(outs, rep["outs"])):
                        if y["k"] == "oom":
                            break
                        if cout(x) != cout(y):
                            sink.mismatch(case, {"call": i, "c": calls[i], "impl": cout(x), "model": cout(y)})
                            break
                if len(digs) == 2 and digs["MemoryStorage"] != digs["SharedMemoryStorage"]:
                    a, b = digs["MemoryStorage"], digs["SharedMemoryStorage"]
                    diff = next((j for j in sorted(set(a) | set(b)) if a.get(j) != b.get(j)), None) if isinstance(a, dict) and isinstance(b, dict) else None
                    if not quiet:
                        print("  ORACLE FAILS: shared-equals-memory", json.dumps({"job": diff, "memory": a.get(diff) if diff else a, "shared": b.get(diff) if diff else b})[:900])
                    sink.fail(f"C13|shared-equals-memory|load_search|SharedMemoryStorage/evaluator-{ev_backends(scn)}/run-function:{ev_modes_of(scn)}",
                              "SharedMemoryStorage and MemoryStorage end differently", case, {"job": diff})
                sink.case(case)
            finally:
                factory.close()
            sink.fold(ck)
        elif kind == "identity-script":
            sink = Sink()
            real = exec_identity_script(case["ops"])
            rep = drv.ask({"op": "alias", "ops": case["ops"]})
            ok = compare_identity(sink, case["ops"], real, rep)
            if not quiet:
                for op, x, y in zip(case["ops"], real, rep["outs"]):
                    print("   ", json.dumps(op), "->", json.dumps(x)[:300])
                print("  object identities as the model predicts:", ok)
            sink.case(case)
            sink.fold(ck)
        elif kind == "contended":
            import random

            # a race: the same programs are run up to 5 times, stopping at the first run that fails
            for attempt in range(5):
                before = len(ck.failures)
                contended_round(ck, random.Random(attempt), case["clients"], case["ops"], case["big"], case.get("jobs", 2), attempt_seed=case["seed"])
                if len(ck.failures) > before:
                    break
        elif kind == "concurrent":
            import random

            for attempt in range(5):
                concurrent_round(ck, drv, random.Random(case["seeds"][0] + attempt), case["clients"], case["ops"], attempt)
        elif kind == "threads":
            thread_stress(ck, case["threads"], case["creates_per_thread"])
    finally:
        if own:
            drv.close()
