"""C05 — searches maximise the objective(s).

Real code: `CBO` on a finite candidate set (1-D integer space 0..K-1), `kappa = 0`, `acq_optimizer="sampling"`,
`filter_duplicated` False or True (a spy on `Space.transform` tells which candidates reach the acquisition).  A case is a HISTORY with one or more surrogate fits: `search(max_evals=n_init)` on the
given initial points (first fit), then further `tell` rounds that add — and improve on — observations (one fit per
round, possibly with failed evaluations `"F"`), `ask(1)` after every fit; at the last fit every candidate has been
observed.  Observed environment (spies; nothing is compared on private attributes): what `Space.rvs` sampled (the
candidates), what each cloned surrogate was fitted on (`fit(X, y)`: the targets), what `_gaussian_acquisition` was
evaluated on and returned (`mu`, `std`, `kappa`, values), the weight vector and utopia point of each
`MoScalarFunction.scalarize` call.

L2 (correspondence with `Model/Direction.lean`), at EVERY fit, from the full history at that moment: the told values
    are the negated objectives; the model's targets (objective scaler and utopia point re-estimated from the current
    history, scalarisation, failure imputation `fitTargets` — `quantile-uniform` enters as the scaled history produced
    by the repo's own `cook_objective_scaler`, checked order-preserving into [0,1]) equal the fitted targets; the
    model's acquisition values and arg-min equal the implementation's; the proposal is the arg-min candidate; the name
    maps (when observable) and `'auto'` scaler resolution.
L3 (the property on the implementation's outputs): at every fit the fitted targets rank the successful observations
    by score (strictly better score => strictly smaller target) and no failed configuration is ranked first; when all
    sampled candidates are observed and the surrogate honours its contract the proposal is the best SUCCESSFUL
    candidate; its score does not change when a constant vector is added to the objectives or they are multiplied by a
    positive factor (1e-9 .. 1e9); independent objectives + Linear/Chebyshev/AugChebyshev: the proposal is not beaten in
    every objective; monotone problems with default exploration: late proposals in the upper half, and — started from
    initial points far below the maximiser — well above the best initial point; batches `ask(n>1)` (topk, boltzmann, qUCB) after the
    last fit are made of the best candidates that reached the acquisition (verdict by the Lean checker `isNSmallestB`); continuous
    monotone problems with `update_prior=True` (the observations the sampling prior is re-fitted on vs `priorMask`, L2) and with the
    acquisition optimisers lbfgs / ga / mixedga: late proposals at the maximiser.
"""
import concurrent.futures as cf
import json
import multiprocessing
import os
import shutil
import tempfile
from fractions import Fraction

import numpy as np

from .common import HarnessError, VERIF, rat, unrat

STRATS = ["Linear", "Chebyshev", "AugChebyshev", "PBI", "Quadratic"]
DISTANCE = ["Chebyshev", "AugChebyshev", "PBI", "Quadratic"]
PARAM = {"Linear": 0.0, "Chebyshev": 0.0, "AugChebyshev": 0.001, "PBI": 5.0, "Quadratic": 10.0}
MONOTONE = {"Linear", "Chebyshev", "AugChebyshev"}
SCALERS = ["auto", "identity", "minmax", "quantile-uniform"]
SURROGATES = ["ET", "RF", "GP"]
INTERP_KW = {"n_estimators": 12, "bootstrap": False, "max_samples": None, "max_features": 1.0, "min_samples_split": 2}
SCALES = [1.0, 1.0, 2.0, 0.01, 1000.0, 1e-9, 1e-7, 1e-5, 1e5, 1e9]
FACTORS = [1e-9, 1e-7, 1e-5, 0.001, 0.5, 3.0, 250.0, 1e5, 1e9]
EPS = 2.0 ** -52


# --------------------------------------------------------------------------- generator


def _consistent(objs, scores):
    """the float objectives really are strictly increasing in the score, in every column (distinct doubles)"""
    idx = sorted(range(len(scores)), key=lambda c: scores[c])
    for a, b in zip(idx, idx[1:]):
        if not scores[a] < scores[b]:
            return False
        # clearly distinct doubles: a gap of a few ulps does not survive `np.around(x, 100)` (x*1e100/1e100) in front of the
        # quantile transformer, nor the subtraction of the column minimum
        if not all(y - x > 1e-12 * max(abs(x), abs(y)) for x, y in zip(objs[a], objs[b])):
            return False
    return True


# batches asked after the last fit, stratified: multi-point strategy x filter_duplicated x shape of the history.  What `filter_duplicated=True`
# (CBO's default) removes from the drawn sample depends on the history: configurations that were ASKED are removed, so after `fit_surrogate`
# (nothing asked) only the repetitions inside the sample go, after tell rounds the initial points and the proposals go as well, and when every
# candidate was asked nothing is left and the optimizer falls back on the unfiltered sample
BATCH_COMBOS = [("topk", True, "fit_surrogate"), ("boltzmann", True, "rounds"), ("qUCB", True, "fit_surrogate"), ("topk", True, "rounds"),
                ("boltzmann", True, "fit_surrogate"), ("qUCBd", True, "rounds"), ("topk", False, "single"), ("boltzmann", False, "rounds"),
                ("topk", True, "single"), ("qUCB", False, "single"), ("boltzmann", True, "single"), ("topk", False, "fit_surrogate")]


def _gen_case(rng, t):
    forced = BATCH_COMBOS[(t // 5) % len(BATCH_COMBOS)] if t % 5 == 4 else None
    surrogate = SURROGATES[t % 3] if rng.random() < 0.8 else rng.choice(SURROGATES)
    nobj = rng.choice([0, 0, 2, 2, 3, 3])  # 0 = one objective (plain scalar), k>=2 = k-tuple
    strategy = STRATS[(t // 3) % 5] if nobj >= 1 else "Chebyshev"
    scaler = SCALERS[(t // 15) % 4] if rng.random() < 0.85 else rng.choice(SCALERS)
    K = rng.choice([4, 5, 6, 8, 10])
    kind = "aligned" if nobj <= 1 or rng.random() < 0.8 else "pareto"
    if forced:
        surrogate = ["ET", "RF"][(t // 5) % 2]
        kind = "aligned"
        K = max(K, 6)
    sign = rng.choice(["pos", "pos", "neg", "mixed"])
    m = max(nobj, 1)
    for _ in range(20):
        base = [float(v) for v in range(K)]
        if rng.random() < 0.3:
            base = [round(rng.uniform(0, 10), 3) + i * 0.37 for i in range(K)]
        rng.shuffle(base)
        # positive scales without bound in the property: tiny and huge ones, with offsets of larger magnitude
        lam = [rng.choice(SCALES) if rng.random() < 0.8 else round(rng.uniform(0.1, 10), 2) for _ in range(m)]
        span = [l * (max(base) - min(base)) for l in lam]
        lo = [l * min(base) for l in lam]
        off = []
        for i in range(m):
            gap = rng.choice([0.1, 1.0, 10.0, 100.0, 1e3, 1e5]) * max(span[i], 1e-300)
            if sign == "pos":
                off.append(-lo[i] + gap)                       # all values > 0
            elif sign == "neg":
                off.append(-lo[i] - span[i] - gap)             # all values < 0
            else:
                off.append(-lo[i] - span[i] * rng.uniform(0.2, 0.8))  # straddles 0
        if kind == "pareto":
            sc = rng.choice(SCALES)
            objs = [[sc * round(rng.uniform(-5, 5) if sign == "mixed" else (rng.uniform(1, 9) if sign == "pos" else -rng.uniform(1, 9)), 3)
                     for _ in range(m)] for _ in range(K)]
            break
        objs = [[lam[i] * base[c] + off[i] for i in range(m)] for c in range(K)]
        if _consistent(objs, base):
            break
    else:
        raise HarnessError("generator could not build distinct float objectives")
    weights = None
    if nobj >= 1 and rng.random() < 0.5:
        weights = [round(rng.uniform(0.05, 1.0), 3) for _ in range(m)]
        if m >= 2 and rng.random() < 0.2:
            weights[rng.randrange(m)] = 0.0
    elif nobj >= 1 and rng.random() < 0.2:
        weights = "uniform"
    order = list(range(K))
    rng.shuffle(order)
    case = {
        "surrogate": surrogate, "interp": surrogate != "GP" and rng.random() < 0.8, "scaler": scaler, "strategy": strategy,
        "weights": weights, "nobj": nobj, "kind": kind, "sign": sign, "K": K, "scores": base, "objs": objs,
        "order": order, "seed": rng.randrange(1 << 20), "acq": rng.choice(["UCB", "UCBd"]) if surrogate != "GP" else "UCB",
        "variants": rng.random() < 0.5, "n_init": K, "rounds": [], "fail": [], "ff": "min",
    }
    # whether the optimizer removes repetitions and already-asked configurations from the candidates it draws (CBO's default: it does)
    case["filter_dup"] = forced[1] if forced else rng.random() < 0.5
    # shape of the history: one fit / several fits with improving observations / failed evaluations
    r = rng.random()
    if forced:
        r = {"rounds": 0.2, "single": 0.9, "fit_surrogate": 0.7}[forced[2]]
    if r < 0.4 and K >= 5:
        by_score = sorted(range(K), key=lambda c: base[c]) if kind == "aligned" and rng.random() < 0.7 else order[:]
        n_init = rng.randint(2, K - 2)
        if forced:
            n_init = 2      # most candidates are told, not asked: they are what a filtered sample still contains at the last fit
        init, rest = by_score[:n_init], by_score[n_init:]
        rng.shuffle(init)
        k = rng.choice([1, 2, 2, 3])
        cuts = sorted(rng.sample(range(1, len(rest)), min(k - 1, len(rest) - 1))) if len(rest) > 1 else []
        rounds = [rest[i:j] for i, j in zip([0] + cuts, cuts + [len(rest)])]
        case.update({"order": init + rest, "n_init": n_init, "rounds": rounds})
    elif r < 0.6 and K >= 5:
        nf = rng.randint(1, max(1, K // 3))
        fail = rng.sample(range(K), nf)
        if kind == "aligned" and rng.random() < 0.5:
            best = max(range(K), key=lambda c: base[c])      # the configuration that would be best fails
            if best not in fail:
                fail[0] = best
        succ = [c for c in order if c not in fail]
        n_init = rng.randint(2, len(succ))
        rest = succ[n_init:] + fail
        rng.shuffle(rest)
        rounds = [rest] if rng.random() < 0.5 or len(rest) < 2 else [rest[: len(rest) // 2], rest[len(rest) // 2:]]
        case.update({"order": succ[:n_init] + rest, "n_init": n_init, "rounds": rounds, "fail": sorted(fail),
                     "ff": rng.choice(["min", "min", "mean"])})
    elif r < 0.75:
        # CBO.fit_surrogate(DataFrame) instead of search(): the other place that negates.  The checkpoint holds every candidate; its size
        # is below, at or above the search's n_initial_points (loading a checkpoint must fit the surrogate whatever its size), and some
        # rows may be failed evaluations
        case["route"] = "fit_surrogate"
        case["n_initial_points"] = rng.choice([K, K, 10, K + 3, 30, 1])
        if K >= 4 and rng.random() < 0.35 and not forced:
            nf = rng.randint(1, K - 1) if rng.random() < 0.3 else rng.randint(1, max(1, K // 3))
            fail = rng.sample(range(K), nf)
            succ = [c for c in order if c not in fail]
            case.update({"order": succ + sorted(fail), "fail": sorted(fail), "ff": rng.choice(["min", "min", "mean"])})
    if nobj >= 2 and not case["fail"] and rng.random() < 0.2 and not forced:
        # moo_lower_bounds: region of interest for some objectives (penalty after scaling); bound at a quantile of the values
        lb = []
        for i in range(m):
            col = sorted(o[i] for o in objs)
            lb.append(col[rng.randrange(len(col))] if rng.random() < 0.6 else None)
        if any(b is not None for b in lb):
            case["bounds"] = lb
    if nobj >= 2 and rng.random() < 0.15:
        case["strategy_obj"] = True   # a MoScalarFunction instance instead of the strategy name
    if forced:
        # (with filter_duplicated the boltzmann draws avoid repetitions while they can: only the first member is judged, a short batch will do)
        case["interp"] = True
        case["batch"] = {"strategy": forced[0], "n": 24 if forced[0] == "boltzmann" and not forced[1] else rng.choice([2, 3, 5])}
    elif not case["fail"] and surrogate != "GP" and rng.random() < 0.2:
        case["lies"] = rng.choice(["cl_max", "cl_max", "cl_min", "cl_mean"])   # constant-liar batch after the last fit
    elif not case["fail"] and surrogate != "GP" and kind == "aligned" and not case.get("bounds") and rng.random() < 0.3:
        # one-shot / q-acquisition batch after the last fit (every candidate observed, kappa = 0, interpolating forest)
        strat = rng.choice(["topk", "topk", "boltzmann", "qUCB", "qUCBd"])
        case["interp"] = True
        case["batch"] = {"strategy": strat, "n": 24 if strat == "boltzmann" and not case["filter_dup"] else rng.choice([2, 3, 5])}
    return case


def _variant(case, which, rng_seed):
    """shifted / rescaled copy of the objectives (same everything else); None when the floats would no longer be distinct"""
    r = np.random.RandomState(rng_seed)
    m = len(case["objs"][0])
    c = dict(case)
    if which == "shift":
        mag = max(abs(v) for row in case["objs"] for v in row) + min(1.0, max(abs(v) for row in case["objs"] for v in row))
        vec = [float(r.choice([-3.0, -1.0, 1.0, 3.0]) * mag) for _ in range(m)]
        c["objs"] = [[row[i] + vec[i] for i in range(m)] for row in case["objs"]]
        c["variant"] = {"shift": vec}
    else:
        f = float(r.choice(FACTORS))
        c["objs"] = [[row[i] * f for i in range(m)] for row in case["objs"]]
        c["variant"] = {"scale": f}
    if not all(np.isfinite(v) and (v == 0 or abs(v) > 1e-290) for row in c["objs"] for v in row):
        return None
    if case["kind"] == "aligned" and not _consistent(c["objs"], case["scores"]):
        return None
    return c


# --------------------------------------------------------------------------- real code + observation

_TABLE = {}


async def _run_function(job):
    return _TABLE[int(job.parameters["a"])]


class _Spies:
    def __init__(self):
        import deephyper.skopt.optimizer.optimizer as om
        import deephyper.skopt.space.space as sp
        import deephyper.skopt.moo as moo

        self.om, self.sp, self.moo = om, sp, moo
        self.rec = {"fit": [], "acq": [], "rvs": [], "scal": [], "spy_error": [], "lies": [], "lie_flag": False, "tf": [], "ntf": 0}

    def __enter__(self):
        om, sp, moo, rec = self.om, self.sp, self.moo, self.rec
        self._clone, self._acq, self._rvs = om.clone, om._gaussian_acquisition, sp.Space.rvs
        self._transform = sp.Space.transform
        self._moo = dict(moo.moo_functions)

        def transform_spy(this, X, *a, **k):
            # which points (original space) a transformed array stands for: with `filter_duplicated=True` the candidates that reach the
            # acquisition are a filtered subset of what `Space.rvs` drew
            out = self._transform(this, X, *a, **k)
            try:
                rec["ntf"] += 1
                rec["tf"].append(([list(x) for x in X], out, rec["ntf"]))
                del rec["tf"][:-6]
            except Exception as e:
                rec["spy_error"].append("transform spy: " + repr(e))
            return out

        def clone_spy(est, **kw):
            e = self._clone(est, **kw)
            f = e.fit

            def fit(X, y, *a, **k):
                try:
                    last = rec["scal"][-1] if rec["scal"] else None
                    rec["fit"].append({"y": np.array(y, dtype=float).tolist(), "w": last and last["w"], "u": last and last["u"]})
                except Exception as e:
                    rec["spy_error"].append("fit spy: " + repr(e))
                return f(X, y, *a, **k)

            e.fit = fit
            return e

        def acq_spy(*args, **kwargs):
            v = self._acq(*args, **kwargs)
            try:  # observation only: whatever the signature is today, never let the spy break the code under test
                import inspect

                b = inspect.signature(self._acq).bind(*args, **kwargs)
                b.apply_defaults()
                X, model, acq_func = b.arguments["X"], b.arguments["model"], b.arguments["acq_func"]
                kwa = b.arguments.get("acq_func_kwargs") or {}
                if acq_func.endswith("d") and acq_func != "gp_hedged":
                    mu, _, sd = model.predict(X, return_std=True, disentangled_std=True)
                else:
                    mu, sd = model.predict(X, return_std=True)
                # the candidates the acquisition is evaluated on = the input of the `Space.transform` call that produced X
                cands = None
                for pts, arr, _ in reversed(rec["tf"]):
                    if arr is X or (np.shape(arr) == np.shape(X) and np.array_equal(np.asarray(arr, dtype=float), np.asarray(X, dtype=float))):
                        cands = pts
                        break
                if cands is None:
                    cands = rec["rvs"][-1] if rec["rvs"] else []
                    if len(cands) != len(v):
                        rec["spy_error"].append("acquisition spy: the candidate points behind the acquisition values could not be observed")
                rec["acq"].append({"mu": np.array(mu, dtype=float).tolist(), "sd": np.array(sd, dtype=float).tolist(),
                                   "n_drawn": len(rec["rvs"][-1]) if rec["rvs"] else None, "ntf": rec["ntf"],
                                   "kappa": float(kwa.get("kappa", 1.96)), "acq_func": acq_func, "y_opt": None if b.arguments.get("y_opt") is None else float(b.arguments["y_opt"]),
                                   "values": np.array(v, dtype=float).tolist(), "cands": [int(x[0]) for x in cands]})
            except Exception as e:
                rec["spy_error"].append("acquisition spy: " + repr(e))
            return v

        def rvs_spy(this, *a, **k):
            r = self._rvs(this, *a, **k)
            try:
                rec["rvs"].append([list(x) for x in r])
            except Exception as e:
                rec["spy_error"].append("rvs spy: " + repr(e))
            return r

        def wrap(cls):
            class Spy(cls):
                def scalarize(this, y):
                    out = cls.scalarize(this, y)
                    try:
                        up = getattr(this, "_utopia_point", None)
                        rec["scal"].append({"w": np.array(this._weight, dtype=float).tolist(),
                                            "u": None if up is None else np.array(up, dtype=float).tolist()})
                    except Exception as e:
                        rec["spy_error"].append("scalarize spy: " + repr(e))
                    return out
            Spy.__name__ = cls.__name__
            return Spy

        self._otell = om.Optimizer._tell

        def tell_spy(this, x, y, *a, **k):
            try:
                if rec["lie_flag"] and not (len(x) > 0 and isinstance(x[0], (list, tuple))):
                    rec["lies"].append(np.asarray(y, dtype=float).tolist())
            except Exception as e:
                rec["spy_error"].append("lie spy: " + repr(e))
            return self._otell(this, x, y, *a, **k)

        om.Optimizer._tell = tell_spy
        om.clone, om._gaussian_acquisition, sp.Space.rvs = clone_spy, acq_spy, rvs_spy
        sp.Space.transform = transform_spy
        for k in list(moo.moo_functions):
            moo.moo_functions[k] = wrap(self._moo[k])
        return self

    def __exit__(self, *a):
        self.om.clone, self.om._gaussian_acquisition, self.sp.Space.rvs = self._clone, self._acq, self._rvs
        self.sp.Space.transform = self._transform
        self.om.Optimizer._tell = self._otell
        for k, v in self._moo.items():
            self.moo.moo_functions[k] = v


def _objective(case, c):
    if c in case.get("fail", []):
        return "F"
    o = case["objs"][c]
    return float(o[0]) if case["nobj"] == 0 else tuple(float(v) for v in o)


def _observe(case):
    """run the real search history of one case; returns plain data (picklable)"""
    import warnings

    warnings.filterwarnings("ignore")
    from deephyper.evaluator import Evaluator
    from deephyper.hpo import CBO, HpProblem
    from deephyper.skopt.utils import cook_objective_scaler
    from deephyper.skopt.learning import RandomForestRegressor

    K = case["K"]
    n_init = case.get("n_init", K)
    rounds = case.get("rounds", [])
    _TABLE.clear()
    for c in range(K):
        _TABLE[c] = _objective(case, c)
    problem = HpProblem()
    problem.add_hyperparameter((0, K - 1), "a")
    tmp = tempfile.mkdtemp(prefix="c05_")
    out = {"error": None}
    try:
        with _Spies() as spies:
            ev = Evaluator.create(_run_function, method="serial")
            kw = dict(INTERP_KW) if case["interp"] else ({"n_estimators": 25} if case["surrogate"] != "GP" else None)
            strategy = case["strategy"]
            if case.get("strategy_obj"):
                strategy = spies.moo.moo_functions[case["strategy"]](n_objectives=max(case["nobj"], 1), weight=case["weights"],
                                                                     random_state=case["seed"])
            search = CBO(
                problem, ev, random_state=case["seed"], log_dir=tmp, verbose=0,
                surrogate_model=case["surrogate"], surrogate_model_kwargs=kw,
                acq_func=case["acq"], kappa=0.0, xi=0.0, acq_optimizer="sampling",
                scheduler={"type": "periodic-exp-decay", "period": 10, "rate": 0.0},
                n_initial_points=int(case.get("n_initial_points", n_init)), initial_points=[{"a": int(a)} for a in case["order"][:n_init]],
                n_points=60 + 10 * K, filter_duplicated=bool(case.get("filter_dup", False)), objective_scaler=case["scaler"],
                moo_scalarization_strategy=strategy, moo_scalarization_weight=case["weights"],
                filter_failures=case.get("ff", "min"), moo_lower_bounds=case.get("bounds"),
                multi_point_strategy=case.get("lies") or (case.get("batch") or {}).get("strategy") or "cl_max",
            )
            if case.get("route") == "fit_surrogate":
                import pandas as pd

                fails = set(case.get("fail", []))
                # as read from results.csv: with failed rows the objective columns are strings
                cell = (lambda a, i: "F" if a in fails else repr(float(case["objs"][a][i]))) if fails else (lambda a, i: float(case["objs"][a][i]))
                cols = {"p:a": [int(a) for a in case["order"]]}
                if case["nobj"] == 0:
                    cols["objective"] = [cell(a, 0) for a in case["order"]]
                else:
                    for i in range(case["nobj"]):
                        cols[f"objective_{i}"] = [cell(a, i) for a in case["order"]]
                search.fit_surrogate(pd.DataFrame(cols))
                # fit_surrogate tells the valid rows first, then the failed ones
                told = [int(a) for a in case["order"] if a not in fails] + [int(a) for a in case["order"] if a in fails]
            else:
                res = search.search(max_evals=n_init)
                told = [int(v) for v in res["p:a"].tolist()]
            proposals = [int(search.ask(1)[0]["a"])]
            for rnd in rounds:
                search.tell([({"a": int(c)}, _objective(case, c)) for c in rnd])
                told += [int(c) for c in rnd]
                proposals.append(int(search.ask(1)[0]["a"]))
            rec = spies.rec
            nf, na = len(rec["fit"]), len(rec["acq"])
            if case.get("lies"):
                rec["lie_flag"] = True
                out["lie_batch"] = [int(x["a"]) for x in search.ask(3)]
                rec["lie_flag"] = False
                out["lies"] = rec["lies"]
            if case.get("batch"):
                nr = len(rec["rvs"])
                out["batch"] = [int(x["a"]) for x in search.ask(int(case["batch"]["n"]))]
                # the q-acquisition strategies draw (and filter) a fresh candidate sample and transform it AFTER the last acquisition call;
                # the optimizer's current next point is the arg-min of that last acquisition call (a refreshed copy's when asked twice)
                last_acq = rec["acq"][-1] if rec["acq"] else None
                if last_acq is not None and rec["tf"] and rec["tf"][-1][2] > last_acq.get("ntf", 0) and len(rec["rvs"]) > nr:
                    out["batch_fresh"] = [int(x[0]) for x in rec["tf"][-1][0]]
                else:
                    out["batch_fresh"] = None
                out["batch_next_acq"] = last_acq
            out["told_a"] = told
            out["proposals"] = proposals
            out["fits"] = rec["fit"][:nf]      # the constant-liar batch refits copies of the optimizer: not part of the history
            out["acqs"] = rec["acq"][:na]
            out["spy_error"] = rec["spy_error"][:3]
            # the scaled history at every fit, from the repo's own scaler factory (public function), on the
            # successful told values of that moment
            forest = case["surrogate"] in ("RF", "ET")
            out["scaled"], out["ub_scaled"] = [], []
            for f in rec["fit"][:nf]:
                rows = [[-float(v) for v in case["objs"][c]] for c in told[: len(f["y"])] if c not in case.get("fail", [])]
                if not rows:
                    out["scaled"].append([])
                    out["ub_scaled"].append([])
                    continue
                scl = cook_objective_scaler(case["scaler"], RandomForestRegressor() if forest else None)
                arr = np.asarray(rows, dtype=float)
                out["scaled"].append(np.asarray(scl.fit(arr).transform(arr), dtype=float).tolist())
                if case.get("bounds"):
                    ub = [m if b is None else -float(b) for m, b in zip(arr.max(axis=0).tolist(), case["bounds"])]
                    out["ub_scaled"].append(np.asarray(scl.transform(np.asarray([ub], dtype=float))[0], dtype=float).tolist())
                else:
                    out["ub_scaled"].append([])
            try:
                ev.close()
            except Exception:
                pass
    except HarnessError:
        raise
    except Exception as e:  # the real code raised: the oracle decides what that means
        import traceback

        out["error"] = f"{type(e).__name__}: {e}"
        out["trace"] = traceback.format_exc()[-1500:]
    finally:
        shutil.rmtree(tmp, ignore_errors=True)
    return out


class _Quiet:
    """no BLAS/OpenMP oversubscription (16 workers x 16 threads), no warning chatter from the code under test"""

    def __enter__(self):
        import warnings
        from threadpoolctl import threadpool_limits

        self._show = warnings.showwarning
        warnings.showwarning = lambda *a, **k: None
        self._lim = threadpool_limits(limits=1)
        self._lim.__enter__()
        return self

    def __exit__(self, *a):
        import warnings

        self._lim.__exit__(*a)
        warnings.showwarning = self._show


def _observe_safe(case):
    try:
        with _Quiet():
            return _observe(case)
    except HarnessError as e:
        return {"harness_error": str(e)}


def _observe_run(item):
    import time

    kind, case = item
    t0 = time.time()
    out = _observe_mono_safe(case) if kind == "mono" else _observe_cont(case)
    out["wall_s"] = round(time.time() - t0, 1)
    return out


def _observe_mono_safe(case):
    with _Quiet():
        out = _observe_mono(case)
        if case.get("pair_offset_mult") is not None and not out["error"]:
            c2 = dict(case)
            c2["offset_mult"] = case["pair_offset_mult"]
            o2 = _observe_mono(c2)
            out["a_shift"], out["error_shift"] = o2.get("a"), o2["error"]
        return out


# --------------------------------------------------------------------------- judging


def _eff_scaler(case, names):
    i = names["keys"].index(case["scaler"])
    return (names["scaler_forest"] if case["surrogate"] in ("RF", "ET") else names["scaler_other"])[i]


def _finite_fit(obs, i):
    f, a = obs["fits"][i], obs["acqs"][i]
    nums = list(f["y"]) + list(a["mu"]) + list(a["sd"]) + list(a["values"]) + [a["kappa"]] + list(f["w"] or []) + list(f["u"] or [])
    nums += [v for r in (obs["scaled"][i] if i < len(obs.get("scaled", [])) else []) for v in r]
    nums += list(obs["ub_scaled"][i]) if i < len(obs.get("ub_scaled", [])) else []
    return all(np.isfinite(v) for v in nums)


def _request(case, obs, eff, i):
    f, a = obs["fits"][i], obs["acqs"][i]
    n = len(f["y"])
    ids = obs["told_a"][:n]
    fail = set(case.get("fail", []))
    told = [None if c in fail else [rat(-float(v)) for v in case["objs"][c]] for c in ids]
    pos = {c: k for k, c in enumerate(ids)}
    w = f["w"] if f["w"] is not None else [1.0] * max(case["nobj"], 1)
    req = {"op": "case", "single": case["nobj"] == 0, "told": told,
           "scaler": {"identity": "identity", "minmax": "minmax"}.get(eff, "given"),
           "strategy": case["strategy"], "param": rat(PARAM[case["strategy"]]), "w": [rat(v) for v in w],
           "cands": [pos.get(c, n) for c in a["cands"]], "mu": [rat(v) for v in a["mu"]],
           "sd": [rat(v) for v in a["sd"]], "kappa": rat(a["kappa"]), "ff": case.get("ff", "min"), "maxf": 100}
    if req["scaler"] == "given":
        req["scaled"] = [[rat(v) for v in r] for r in obs["scaled"][i]]
    if case.get("bounds"):
        req["bounds"] = [None if b is None else rat(-float(b)) for b in case["bounds"]]
        req["ub_scaled"] = [rat(v) for v in obs["ub_scaled"][i]]
    return req


def _close(a, b, scale, rel=1e-9):
    return abs(a - b) <= rel * max(scale, 1e-300)


def _fp(clause, case, eff, entry="CBO.ask", extra=""):
    opts = f"scaler={eff}"
    if case["nobj"] >= 1:
        opts += f",strategy={case['strategy']}"
    else:
        opts += ",single-objective"
    return f"C05|{clause}|{entry}|{opts}{extra}"


def _cond(rows):
    """conditioning of "subtract the column minimum" (utopia point / MinMaxScaler's X*scale + min_) in doubles:
    an offset that is large against the column range costs eps*|y|/range of relative accuracy"""
    cond = 1.0
    for j in range(len(rows[0])):
        col = [r[j] for r in rows]
        rng_j = max(col) - min(col)
        if rng_j > 0:
            cond = max(cond, max(abs(v) for v in col) / rng_j)
    return cond


def _judge_fit(ck, case, obs, rep, eff, i, failed_before, pending):
    """one surrogate fit of the history; returns (score of the proposal, best score) when the maximality oracle applied"""
    f, a = obs["fits"][i], obs["acqs"][i]
    y_fit = f["y"]
    n = len(y_fit)
    ids = obs["told_a"][:n]
    fail = set(case.get("fail", []))
    pos = {c: k for k, c in enumerate(ids)}
    succ = [c for c in ids if c not in fail]
    later = ",later-fit" if i >= 1 else ""
    ffx = f",filter_failures={case.get('ff', 'min')}"
    ck.count(f"fit:{'first' if i == 0 else 'later'}{'+failures' if any(c in fail for c in ids) else ''}")
    if not succ:
        return None
    rows = [[-float(v) for v in case["objs"][c]] for c in succ]
    cond = _cond(rows)
    if case.get("bounds") and f["u"]:
        # the penalty of the region of interest is added to every component and removed again with the utopia point:
        # the same cancellation, now with the penalty's magnitude against the spread of the targets
        spread = max(y_fit) - min(y_fit)
        if spread > 0:
            cond = max(cond, max(abs(v) for v in f["u"]) / spread)
    rel = 1e-9 + 64 * EPS * cond
    ck.count("cond:" + ("<1e3" if cond < 1e3 else "<1e6" if cond < 1e6 else ">=1e6"))
    if rep.get("nonfinite"):
        ck.count("fit:non-finite-numbers")
        bad = {k: v for k, v in (("fitted targets", y_fit), ("surrogate mean", a["mu"]), ("surrogate std", a["sd"]), ("acquisition values", a["values"]))
               if not all(np.isfinite(x) for x in v)}
        ck.mismatch(case, {"what": "NaN / inf in " + ", ".join(bad) + ": the model (exact rationals) has no such values", "fit": i,
                           "first_non_finite_positions": {k: [j for j, x in enumerate(v) if not np.isfinite(x)][:5] for k, v in bad.items()}})
        if not all(np.isfinite(x) for x in list(y_fit) + list(a["mu"])):
            return None      # no usable targets / predictions: nothing to judge the proposal against
        rep = {"targets": None, "contract": True, "acq": [], "choice": None, "skip_l2": True}
    # ---- L2: targets of this fit, from the full history at this moment
    tg = rep["targets"]
    if tg is None and rep.get("skip_l2"):
        pass
    elif tg is None:
        ck.mismatch(case, {"what": "model has no targets (error branch: " + rep.get("targets_err", "") + ") but the implementation fitted", "fit": i})
        tg = None
    else:
        tg = [float(unrat(v)) for v in tg]
        scale = max(max(abs(v) for v in tg), max(abs(v) for v in y_fit))
        bad = len(tg) != n or not all(_close(x, y, scale, rel) for x, y in zip(tg, y_fit))
        if not rep["contract"]:
            ck.mismatch(case, {"what": "the repo's quantile-uniform scaler is not an order-preserving map into [0,1] on this history "
                                       "(assumption of the model broken)", "fit": i, "scaled": obs["scaled"][i]})
        if bad:
            pre = [float(unrat(v)) for v in rep["pre_targets"]] if rep.get("pre_targets") else None
            ck.mismatch(case, {"what": "fitted targets differ from the model's", "fit": i, "told": ids, "impl": y_fit, "model": tg,
                               "weights": f["w"], "utopia_impl": f["u"], "filter_failures": case.get("ff", "min"),
                               "ff_internal_model": rep.get("ff_internal")})
            ck.count("L2:targets-differ" + (":impl=pre-fix-model" if pre and len(pre) == n and all(_close(x, y, scale, rel) for x, y in zip(pre, y_fit)) else ""))
    scale = max(abs(v) for v in y_fit) or 1.0
    # ---- L2: acquisition and arg-min
    acq = [float(unrat(v)) for v in rep["acq"]]
    vals = a["values"]
    ascale = max(max((abs(v) for v in vals if np.isfinite(v)), default=0.0), 1e-300)
    if not rep.get("skip_l2") and (len(acq) != len(vals) or not all(_close(x, y, ascale, 1e-12) for x, y in zip(acq, vals))):
        ck.mismatch(case, {"what": "acquisition values differ from mu - kappa*std", "kappa": a["kappa"], "fit": i})
    if a.get("y_opt") is not None and not _close(a["y_opt"], min(y_fit), scale, 1e-12):
        ck.mismatch(case, {"what": "the incumbent y_opt passed to the acquisition is not the minimum of the fitted targets", "y_opt": a["y_opt"],
                           "min_target": min(y_fit), "max_target": max(y_fit), "fit": i})
    if a["kappa"] != 0.0:
        ck.mismatch(case, {"what": "kappa reaching the acquisition is not the 0 that was configured", "kappa": a["kappa"]})
    if a["acq_func"] != {"UCB": "LCB", "UCBd": "LCBd"}[case["acq"]]:
        ck.mismatch(case, {"what": "acquisition name not mapped UCB->LCB", "got": a["acq_func"]})
    choice = rep["choice"]
    cand = a["cands"]
    prop = obs["proposals"][i]
    if not rep.get("skip_l2") and (choice is None or len(cand) != len(vals) or cand[choice] != prop):
        ck.mismatch(case, {"what": "proposal is not the first arg-min candidate of the acquisition", "fit": i,
                           "proposal": prop, "model_choice": None if choice is None or len(cand) != len(vals) else cand[choice]})
    # ---- L3: the property on the implementation's own outputs
    # with a region of interest (moo_lower_bounds) the penalised rows are still ordered by the score, which is what the
    # monotone strategies need (C05_bounds_penalty_monotone); PBI / Quadratic are then only compared with the model
    score = case["scores"] if case["kind"] == "aligned" and (not case.get("bounds") or case["strategy"] in MONOTONE) else None
    tmin_s = min(y_fit[pos[c]] for c in succ)
    tmax_s = max(y_fit[pos[c]] for c in succ)
    base_detail = {"fit": i, "told": ids, "failed_configurations": sorted(fail & set(ids)), "fitted_targets_by_candidate": {c: y_fit[pos[c]] for c in ids},
                   "objectives": {c: case["objs"][c] for c in ids if c not in fail}, "weights": f["w"], "utopia": f["u"], "effective_scaler": eff}
    # (a) the fitted targets rank the successful observations by score
    if score is not None and len(succ) >= 2:
        srt = sorted(succ, key=lambda c: score[c])
        gaps = [score[b] - score[a_] for a_, b in zip(srt, srt[1:])]
        delta = min(gaps) / (score[srt[-1]] - score[srt[0]])
        if 64 * EPS * cond >= 0.01 * delta * delta:
            ck.count("antitone:skipped-ill-conditioned")
        else:
            ck.count("antitone:checked")
            for a_, b in zip(srt, srt[1:]):
                if not y_fit[pos[b]] < y_fit[pos[a_]]:
                    d = dict(base_detail)
                    d.update({"better": {"candidate": b, "score": score[b], "target": y_fit[pos[b]]},
                              "worse": {"candidate": a_, "score": score[a_], "target": y_fit[pos[a_]]}})
                    if "targets-not-antitone" not in failed_before:
                        ck.fail(_fp("targets-not-antitone", case, eff, "Optimizer.tell", later),
                                "an observation with larger objective(s) does not get a strictly smaller fitted target", case, d)
                    failed_before.add("targets-not-antitone")
                    break
    # (b) failed evaluations are never ranked first
    for c in ids:
        if c in fail:
            t = y_fit[pos[c]]
            if t < tmin_s - 1e-12 * scale or (tmax_s - tmin_s > 1e-9 * scale and t <= tmin_s + 1e-12 * scale):
                d = dict(base_detail)
                d.update({"failed_candidate": c, "its_target": t, "best_successful_target": tmin_s, "worst_successful_target": tmax_s})
                ck.fail(_fp("failed-config-ranked-first", case, eff, "Optimizer.tell", ffx),
                        "a failed configuration gets a fitted target at least as good as the best successful one", case, d)
                break
    # (c) the proposal
    present = sorted(set(cand))
    if not set(present) <= set(ids):
        ck.count("proposal:unobserved-candidates-sampled")
        return None
    tmin = min(y_fit[pos[c]] for c in present)
    # contract of the SURROGATE (not of the acquisition layer, which is code under test): the arg-min of its predicted mean is a candidate of
    # minimal fitted target; with kappa = 0 the exploitation-only acquisition must then propose such a candidate
    k_hat = int(np.argmin(np.asarray(a["mu"]))) if len(a["mu"]) == len(cand) else int(np.argmin(np.asarray(vals)))
    contract_met = _close(y_fit[pos[cand[k_hat]]], tmin, scale, 1e-12)
    ck.count("surrogate-contract:" + ("met" if contract_met else "not-met"))
    if prop not in pos:
        ck.fail(_fp("proposal-outside-candidates", case, eff), "proposal is not one of the candidates", case, {"proposal": prop})
        return None
    succ_present = [c for c in present if c not in fail]
    detail = dict(base_detail)
    detail.update({"proposal": prop})
    if not contract_met or not succ_present:
        return None
    fail_present = [c for c in present if c in fail]
    if fail_present and min(y_fit[pos[c]] for c in fail_present) <= min(y_fit[pos[c]] for c in succ_present) + 1e-9 * scale:
        # a failed candidate's imputed target ties with - or beats - the best successful candidate THAT REACHED THE ACQUISITION: the arg-min may be
        # the failure.  Without the duplicate filter that needs every success to have the same target (e.g. a single success: the imputed value is
        # that value by definition of the "min" / "mean" policies; C05_failures_choice: a failed proposal implies exactly such a tie).  With
        # filter_duplicated the best successes may have been asked before and be filtered out: what is left can be the worst success (ties with the
        # "min" imputation) or successes worse than the mean (beaten by the "mean" imputation).  That the imputed target is never better than the best
        # success OVERALL is clause (b) above.
        ck.count("proposal:a-failed-candidate-ties-with-or-beats-the-best-successful-candidate-present")
        return None
    if score is not None:
        # verdict by the verified checker `checkChoice` (theorem C05_checker) on the real proposal
        best = max(score[c] for c in succ_present)
        py_ok = prop not in fail and score[prop] == best
        detail.update({"score_of_proposal": score[prop], "best_score": best, "best_candidate": [c for c in succ_present if score[c] == best]})
        req = {"op": "choice", "score": [rat(v) for v in score], "succ": [c not in fail for c in range(case["K"])],
               "cands": [int(c) for c in present], "chosen": int(prop)}

        def verdict(rep, case=case, detail=detail, prop=prop, py_ok=py_ok):
            if bool(rep["check"]) != py_ok:
                raise HarnessError(f"checkChoice ({rep['check']}) and the harness's own evaluation ({py_ok}) disagree on {detail}")
            ck.count("checkChoice:" + ("accepted" if rep["check"] else "rejected"))
            if rep["check"]:
                return
            if prop in fail:
                ck.fail(_fp("proposed-failed-config", case, eff, "CBO.ask", ffx),
                        "a failed configuration is proposed although successful ones exist", case, detail)
            elif "chosen-not-max" not in failed_before:
                ck.fail(_fp("chosen-not-max", case, eff, "CBO.ask", later), "with every candidate observed and kappa=0 the proposal is not the "
                        "successful candidate of largest objective(s)", case, detail)
                failed_before.add("chosen-not-max")

        pending.append((req, verdict))
        return (score[prop], best, tuple(present)) if prop not in fail else None
    if prop in fail:
        ck.fail(_fp("proposed-failed-config", case, eff, "CBO.ask", ffx),
                "a failed configuration is proposed although successful ones exist", case, detail)
        return None
    if case["strategy"] in MONOTONE and (f["w"] is None or all(v >= 0 for v in f["w"])):
        po = case["objs"][prop]
        for c in succ_present:
            if all(x > y for x, y in zip(case["objs"][c], po)):
                detail.update({"dominating_candidate": c, "its_objectives": case["objs"][c], "objectives_of_proposal": po})
                ck.fail(_fp("proposal-beaten-in-every-objective", case, eff),
                        "another observed candidate is strictly better in every objective than the proposal", case, detail)
                break
    return None


def _faithful(acq, score):
    """contract of the surrogate as observed on one acquisition call: its predictions order the candidates like their scores (an
    interpolating forest does, unless the targets are so close that the trees no longer split them)"""
    val_of, mu_of = {}, {}
    mus = acq["mu"] if len(acq.get("mu", [])) == len(acq["cands"]) else acq["values"]
    for c, v, m in zip(acq["cands"], acq["values"], mus):
        val_of.setdefault(c, v)
        mu_of.setdefault(c, m)
    ids = sorted(mu_of, key=lambda c: score[c])
    # (judged on the surrogate's predicted MEAN: with kappa = 0 the acquisition layer on top of it is code under test)
    return val_of, all(mu_of[x] > mu_of[y] for x, y in zip(ids, ids[1:]))


def _positions(cands, batch):
    """distinct positions of the candidate sample that the batch members stand for (a configuration that was drawn several times
    has the same acquisition value at each of its positions); None when the batch is not a sub-multiset of the sample"""
    where = {}
    for i, c in enumerate(cands):
        where.setdefault(c, []).append(i)
    out = []
    for c in batch:
        if not where.get(c):
            return None
        out.append(where[c].pop(0))
    return out


def _batch_verdict(case, obs):
    """-> (counts, mismatches, failure | None, lean requests) for a batch asked after the last fit.  Every candidate observed, kappa = 0,
    interpolating forest, objectives aligned with a score.  One-shot strategies (topk, boltzmann) select from the candidates and acquisition
    values cached by the last tell; with `filter_duplicated=False` that sample contains every candidate many times, so "the k best" is meant
    as a multiset over the sample; with `filter_duplicated=True` the sample that reached the acquisition is what is left of the drawn points
    after removing repetitions and configurations already asked."""
    strat, k = case["batch"]["strategy"], int(case["batch"]["n"])
    batch = obs["batch"]
    a = obs["acqs"][-1]
    cands, vals = a["cands"], a["values"]
    score = case["scores"]
    told = set(obs["told_a"])
    fd = bool(case.get("filter_dup"))
    removed = a.get("n_drawn") is not None and len(cands) < a["n_drawn"]
    counts = [f"batch:{strat}", f"batch:{strat}:filter_duplicated=" + ("off" if not fd else "on,removed-some" if removed else "on,removed-nothing")]
    mism, reqs = [], []
    fp = f"C05|batch-not-the-best|CBO.ask(n>1)|multi_point_strategy={strat}" + (",filter_duplicated=True" if fd else "")
    if len(cands) != len(vals) or not cands or not set(cands) <= told or not set(batch) <= told:
        mism.append({"what": "batch ask: unobserved candidates / acquisition not observed", "batch": batch, "n": k})
        return counts, mism, None, reqs
    val_of, faithful = _faithful(a, score)
    counts.append("batch:surrogate-contract:" + ("met" if faithful else "not-met"))
    finite = all(np.isfinite(v) for v in vals)
    if not finite:
        mism.append({"what": "NaN / inf among the acquisition values a batch is selected from", "positions": [i for i, v in enumerate(vals) if not np.isfinite(v)][:5]})
    detail = {"strategy": strat, "filter_duplicated": fd, "batch": batch, "scores_of_batch": [score[c] for c in batch],
              "candidates_that_reached_the_acquisition": sorted(set(cands)) if len(set(cands)) < len(cands) else cands,
              "points_drawn": a.get("n_drawn"), "best_scores_in_the_sample": sorted((score[c] for c in cands), reverse=True)[:k],
              "last_proposal": obs["proposals"][-1]}
    fail = None
    if strat == "topk":
        kk = min(k, len(cands))     # fewer candidates than asked: all of them
        pos = _positions(cands, batch)
        if len(batch) != kk:
            mism.append({"what": "topk batch: unexpected batch size", "batch": batch, "n": k, "candidates": len(cands)})
        l2 = pos is not None and len(batch) == kk and sorted(vals[i] for i in pos) == sorted(vals)[:kk]
        l3 = pos is not None and len(batch) == kk and sorted((score[c] for c in batch), reverse=True) == sorted((score[c] for c in cands), reverse=True)[:kk]
        if not l2:
            mism.append({"what": "topk batch is not made of the k smallest acquisition values of the last candidate sample", "batch": batch,
                         "batch_values": [val_of.get(c) for c in batch], "smallest": sorted(vals)[:kk]})
        if faithful and not l3:
            fail = (fp, "with every candidate observed and kappa=0 a topk batch of k is not made of the k best candidates of the sample", detail)
        if pos is not None and finite:
            reqs.append(({"op": "nsmallest", "values": [rat(v) for v in vals], "idx": pos, "n": k}, "L2", l2))
            reqs.append(({"op": "nsmallest", "values": [rat(-score[c]) for c in cands], "idx": pos, "n": k}, "L3", l3))
    elif strat in ("qUCB", "qUCBd"):
        fresh, nxt = obs.get("batch_fresh"), obs.get("batch_next_acq")
        if fresh is None or nxt is None or not set(fresh) <= told or not set(nxt["cands"]) <= told or len(batch) != k:
            mism.append({"what": "qUCB batch: the fresh candidate sample / the acquisition behind the next point was not observed, or unexpected batch size",
                         "fresh": fresh and fresh[:20], "batch": batch})
            return counts, mism, None, reqs
        _, faithful2 = _faithful(nxt, score)
        if len(fresh) < k - 1:
            counts.append("batch:qUCB:fewer-fresh-candidates-than-asked")
            return counts, mism, None, reqs
        want = sorted((score[c] for c in fresh), reverse=True)[: k - 1]
        detail["best_scores_in_the_fresh_sample"] = want
        detail["best_score_behind_the_next_point"] = max(score[c] for c in nxt["cands"])
        # (the first member is the optimizer's current next point: the arg-min of the last acquisition call - of a refreshed copy when
        # configurations were already asked since the last tell - so it need not be the configuration the preceding ask(1) returned)
        if faithful and faithful2 and (score[batch[0]] != max(score[c] for c in nxt["cands"])
                                       or sorted((score[c] for c in batch[1:]), reverse=True) != want):
            fail = (fp, "with every candidate observed and kappa=0 a qUCB batch is not made of the best candidates", detail)
    else:  # boltzmann: the first member is the best candidate, the draws favour larger objectives
        if len(batch) != k:
            mism.append({"what": "boltzmann batch: unexpected batch size", "batch": batch, "n": k})
            return counts, mism, None, reqs
        rest = [score[c] for c in batch[1:]]
        pop = [score[c] for c in cands]
        mu_u = sum(pop) / len(pop)
        sd_u = (sum((x - mu_u) ** 2 for x in pop) / len(pop)) ** 0.5
        z = (sum(rest) / len(rest) - mu_u) / (sd_u / len(rest) ** 0.5) if sd_u > 0 and rest else 0.0
        if len(rest) >= 12:
            counts.append("batch:boltzmann:z" + (">=2" if z >= 2 else ">=0" if z >= 0 else "<0") + (",filter_duplicated" if fd else ""))
        detail["z_of_the_draws_against_uniform"] = z
        pos = _positions(cands, batch[:1])
        l2 = pos is not None and vals[pos[0]] == min(vals)
        l3 = pos is not None and score[batch[0]] == max(score[c] for c in cands)
        if not l2:
            mism.append({"what": "the first member of a boltzmann batch is not a candidate of smallest acquisition value", "batch": batch[:3],
                         "its_value": val_of.get(batch[0]), "smallest": min(vals)})
        if pos is not None and finite:
            reqs.append(({"op": "nsmallest", "values": [rat(v) for v in vals], "idx": pos, "n": 1}, "L2", l2))
            reqs.append(({"op": "nsmallest", "values": [rat(-score[c]) for c in cands], "idx": pos, "n": 1}, "L3", l3))
        if faithful:
            if not l3:
                fail = (fp, "the first member of a boltzmann batch is not the best candidate", detail)
            elif z < -1.5 and len(rest) >= 12 and not fd:
                # (with filter_duplicated the draws avoid repetitions while they can: not a sample of the Boltzmann distribution)
                fail = (f"C05|batch-favours-small-objectives|CBO.ask(n>1)|multi_point_strategy={strat}",
                        "the boltzmann draws favour candidates with SMALLER objectives than a uniform draw would", detail)
    return counts, mism, fail, (reqs if finite else [])


def _judge_batch(ck, case, obs, eff, pending):
    counts, mism, fail, reqs = _batch_verdict(case, obs)
    for c in counts:
        ck.count(c)
    for m in mism:
        ck.mismatch(case, m)
    for req, layer, expected in reqs:
        def verdict(rep, layer=layer, req=req, expected=expected):
            ck.count(f"isNSmallest:{layer}:" + ("accepted" if rep["check"] else "rejected"))
            if bool(rep["check"]) != bool(expected):
                raise HarnessError(f"isNSmallestB ({rep['check']}) and the harness's own evaluation ({expected}) disagree ({layer}): {req}")

        pending.append((req, verdict))
    if fail is not None and case.get("filter_dup"):
        # shrink the option set: does the same history fail with filter_duplicated=False as well?
        c2 = dict(case)
        c2["filter_dup"] = False
        o2 = _observe_safe(c2)
        if not o2.get("harness_error") and not o2.get("error") and o2.get("batch") is not None and o2.get("acqs"):
            try:
                fail2 = _batch_verdict(c2, o2)[2]
            except Exception:
                fail2 = None
            if fail2 is not None:
                case, fail = c2, fail2
    if fail is not None:
        ck.fail(fail[0], fail[1], case, fail[2])


def _judge_lies(ck, case, obs, eff, pending):
    """constant-liar batch after the last fit: the lies told to the optimizer copy (internal, negated scale) vs the model's
    `lieInternal (mapMultiPoint name)`, and — the direction — vs the max / mean / min of the OBJECTIVES the user-facing name promises"""
    name = case["lies"]
    lies = obs.get("lies") or []
    ck.count(f"lies:{name}:{len(lies)}")
    if len(lies) != 2:
        ck.mismatch(case, {"what": "expected 2 constant-liar lies for ask(3)", "seen": lies})
        return
    m = max(case["nobj"], 1)
    cols = [[-float(case["objs"][c][j]) for c in obs["told_a"]] for j in range(m)]
    user = {"cl_max": max, "cl_min": min, "cl_mean": lambda v: sum(v) / len(v)}[name]
    for k, lie in enumerate(lies):
        got = lie if isinstance(lie, list) else [lie]
        cur = [list(c) for c in cols]
        req = {"op": "lie", "strategy": name, "cols": [[rat(v) for v in c] for c in cur]}
        want_user = [user([-v for v in c]) for c in cur]

        def verdict(rep, got=got, want_user=want_user, k=k, case=case):
            model = [float(unrat(v)) for v in rep["lie"]]
            sc = max(max(abs(v) for v in model), 1e-300)
            if len(model) != len(got) or not all(_close(a, b, sc, 1e-12) for a, b in zip(model, got)):
                ck.mismatch(case, {"what": "constant-liar lie differs from lieInternal(mapMultiPoint name)", "k": k, "impl": got, "model": model,
                                   "internal_name": rep["internal"]})
            if not all(_close(-a, b, sc, 1e-12) for a, b in zip(got, want_user)):
                ck.fail(_fp("constant-liar-direction", case, eff, "CBO.ask(n>1)", f",multi_point_strategy={case['lies']}"),
                        f"the lie of '{case['lies']}' is not the {case['lies'][3:]} of the observed objectives", case,
                        {"lie_as_objective": [-a for a in got], "expected": want_user, "k": k})

        pending.append((req, verdict))
        cols = [c + [g] for c, g in zip(cols, got)]


def _judge(ck, case, obs, reps, eff, pending):
    K = case["K"]
    ck.count(f"surrogate:{case['surrogate']}{'+interp' if case['interp'] else ''}")
    ck.count(f"scaler:{case['scaler']}->{eff}")
    ck.count(f"strategy:{case['strategy'] if case['nobj'] >= 1 else 'single'}")
    ck.count(f"nobj:{case['nobj']}")
    ck.count(f"kind:{case['kind']}/{case['sign']}")
    ck.count("weights:" + ("none" if case["nobj"] == 0 else "random" if case["weights"] is None else "uniform" if case["weights"] == "uniform" else "fixed")
             + ("+strategy-object" if case.get("strategy_obj") else ""))
    ck.count("history:" + ("failures/" + case.get("ff", "min") if case.get("fail") else f"fits={1 + len(case.get('rounds', []))}"))
    ck.count("route:" + case.get("route", "search") + ("+bounds" if case.get("bounds") else ""))
    mags = [abs(v) for r in case["objs"] for v in r if v != 0]
    ck.count("magnitude:" + ("<=1e-4" if max(mags) <= 1e-4 else ">=1e6" if max(mags) >= 1e6 else "moderate"))
    if sorted(obs["told_a"]) != list(range(K)):
        ck.mismatch(case, {"what": "the history did not evaluate exactly the candidates", "told": obs["told_a"]})
        return None
    if obs["told_a"] != [int(a) for a in case["order"]]:
        ck.mismatch(case, {"what": "points were not evaluated in the given order", "told": obs["told_a"]})
    nfit = len(reps)
    if not (len(obs["fits"]) == len(obs["acqs"]) == len(obs["proposals"]) == 1 + len(case.get("rounds", []))):
        ck.mismatch(case, {"what": "unexpected number of surrogate fits / acquisitions", "fits": len(obs["fits"]), "acqs": len(obs["acqs"]),
                           "rounds": 1 + len(case.get("rounds", []))})
    if case.get("lies"):
        _judge_lies(ck, case, obs, eff, pending)
    if case.get("batch") and obs.get("batch") is not None and obs["acqs"]:
        _judge_batch(ck, case, obs, eff, pending)
    out = None
    failed_before = set()
    for i in range(nfit):
        out = _judge_fit(ck, case, obs, reps[i], eff, i, failed_before, pending)
    return out


# --------------------------------------------------------------------------- monotone-problem runs


def _monotone_case(rng, t):
    """(a) `climb`: 8 fixed initial points in the lower 55 % of 0..K-1 (best well below the maximiser), identity scaler
    (explicit, or `auto` with GP), every strategy — distance-based ones most often — x {ET, GP};
    (b) random initial points over the whole range, whole matrix."""
    r = t % 12
    init_q = (0.025, 0.1, 0.175, 0.25, 0.325, 0.4, 0.475, 0.55)
    if r < 8:
        K = rng.choice([101, 201])
        init = [int(round((K - 1) * q)) for q in init_q]
        if r < 6:
            sur = "ET" if r < 4 else "GP"
            # GP + Quadratic is left to ET: with quadratically growing targets the GP mean reverts to its prior beyond the data and
            # the climb rate becomes a property of the surrogate (10-70 % of the way in 20 steps on correct code), not of the direction;
            # that combination stays covered by the surrogate-independent clauses at every fit of the multi-fit histories
            strat = DISTANCE[r] if r < 4 else DISTANCE[:3][((t // 12) * 2 + (r - 4)) % 3]
            if rng.random() < 0.1:
                strat = "Linear"
            return {"mono": True, "climb": True, "surrogate": sur, "scaler": "auto" if sur == "GP" and rng.random() < 0.5 else "identity",
                    "strategy": strat, "nobj": rng.choice([2, 2, 3]), "K": K,
                    "sign": ["pos", "neg", "mixed"][(t // 2) % 3], "seed": rng.randrange(1 << 20), "init": init,
                    "offset_mult": rng.choice([0, 0, 1000, -1000]), "n_evals": 8 + (20 if sur == "GP" else 24),
                    # (CBO's default: no configuration is proposed twice - on 101 / 201 points the search can still sit next to the maximiser)
                    "filter_dup": rng.random() < 0.5}
        # the same partially observed problem with the objective f and with f + c, c = +-1000 x spread (single objective: no utopia
        # subtraction, identity scaler: the surrogate sees the raw offset); both runs must keep climbing
        sur = "GP" if r == 6 else rng.choice(["ET", "RF"])
        return {"mono": True, "climb": True, "surrogate": sur, "scaler": "auto" if sur == "GP" and rng.random() < 0.5 else "identity",
                "strategy": "Chebyshev", "nobj": 0 if rng.random() < 0.7 else 2, "K": K, "sign": "mixed", "seed": rng.randrange(1 << 20), "init": init,
                "offset_mult": 0, "pair_offset_mult": rng.choice([1000, -1000]), "n_evals": 8 + (20 if sur == "GP" else 24), "filter_dup": rng.random() < 0.5}
    # random initial points over 0..19, whole matrix; the other acquisition functions (none of them is exploitation-only:
    # EI / PI weigh the improvement by the predictive std, MES is information-based, gp_hedge mixes EI, LCB, PI) and
    # multi-worker searches with the batch strategies
    if r == 8:
        sur = SURROGATES[(t // 12) % 3]
        return {"mono": True, "surrogate": sur, "scaler": SCALERS[(t // 3) % 4], "strategy": STRATS[t % 5], "nobj": rng.choice([0, 2, 3]), "K": 20,
                "sign": ["pos", "neg", "mixed"][(t // 2) % 3], "seed": rng.randrange(1 << 20), "n_evals": 32 if sur == "GP" else 40, "acq": "UCB",
                "workers": 4, "mps": ["topk", "boltzmann", "qUCB", "topk", "cl_max", "qUCBd"][(t // 12) % 6] if sur != "GP" or (t // 12) % 6 != 5 else "topk"}
    acq = {9: "MES", 10: "gp_hedge", 11: rng.choice(["EI", "PI", "UCB"])}[r]
    sur = SURROGATES[(t // 12) % 3] if acq != "MES" or rng.random() < 0.5 else "ET"
    return {"mono": True, "surrogate": sur, "scaler": SCALERS[(t // 3) % 4], "strategy": STRATS[t % 5], "nobj": rng.choice([0, 2, 3]), "K": 20,
            "sign": ["pos", "neg", "mixed"][(t // 2) % 3], "seed": rng.randrange(1 << 20), "n_evals": 26 if sur == "GP" else 36, "acq": acq}


def _mono_objs(case):
    K, m = case["K"], max(case["nobj"], 1)
    off = {"pos": 50.0, "neg": -50.0 - K, "mixed": -K / 2.0}[case["sign"]]
    off += case.get("offset_mult", 0) * float(K - 1)   # a constant far from zero relative to the spread of the objective
    if case.get("climb"):   # (x, 2x+3, 3x+6, ...) plus the offsets
        return [[(i + 1) * float(a) + 3.0 * i + off * (i + 1) for i in range(m)] for a in range(K)]
    return [[(i + 1) * float(a) + off * (i + 1) for i in range(m)] for a in range(K)]


def _observe_mono(case):
    import warnings

    warnings.filterwarnings("ignore")
    from deephyper.evaluator import Evaluator
    from deephyper.hpo import CBO, HpProblem

    K, nobj = case["K"], case["nobj"]
    objs = _mono_objs(case)
    _TABLE.clear()
    for c in range(K):
        _TABLE[c] = float(objs[c][0]) if nobj == 0 else tuple(objs[c])
    problem = HpProblem()
    problem.add_hyperparameter((0, K - 1), "a")
    tmp = tempfile.mkdtemp(prefix="c05m_")
    out = {"error": None}
    try:
        ev = Evaluator.create(_run_function, method="serial", method_kwargs={"num_workers": int(case.get("workers", 1))})
        extra = {}
        if case.get("init"):
            extra = {"initial_points": [{"a": int(a)} for a in case["init"]]}
        if case.get("mps"):
            extra["multi_point_strategy"] = case["mps"]
        search = CBO(problem, ev, random_state=case["seed"], log_dir=tmp, verbose=0, surrogate_model=case["surrogate"],
                     surrogate_model_kwargs={"n_estimators": 25} if case["surrogate"] != "GP" else None,
                     acq_func=case.get("acq", "UCB"), acq_optimizer="sampling", n_initial_points=8, n_points=300 if case.get("climb") else 200,
                     filter_duplicated=bool(case.get("filter_dup", False)), objective_scaler=case["scaler"], moo_scalarization_strategy=case["strategy"],
                     moo_scalarization_weight=[1.0 / max(nobj, 1)] * max(nobj, 1) if nobj else None, **extra)
        res = search.search(max_evals=case["n_evals"])
        out["a"] = [int(v) for v in res.sort_values("job_id")["p:a"].tolist()] if "job_id" in res.columns else [int(v) for v in res["p:a"].tolist()]
        try:
            ev.close()
        except Exception:
            pass
    except Exception as e:
        import traceback

        out["error"] = f"{type(e).__name__}: {e}"
        out["trace"] = traceback.format_exc()[-1500:]
    finally:
        shutil.rmtree(tmp, ignore_errors=True)
    return out


def _judge_mono(ck, case, obs, eff):
    kind = "climb" if case.get("climb") else "mono"
    ck.count(f"{kind}:{case['surrogate']}/{eff}/{case['strategy'] if case['nobj'] else 'single'}/{case['sign']}" + ("/filter_duplicated" if case.get("filter_dup") else ""))
    if obs["error"]:
        ck.fail(f"C05|raises|CBO.search|{obs['error'].split(':')[0]}", "search raised on a monotone problem", case, obs)
        return
    a = obs["a"]
    top = case["K"] - 1
    if case.get("climb"):
        init = case["init"]
        if a[: len(init)] != init:
            ck.mismatch(case, {"what": "the given initial points were not evaluated first", "evaluated": a[: len(init)]})
        best_init = max(init)
        thr0 = best_init + 0.2 * (top - best_init)
        if case.get("pair_offset_mult") is not None:
            # f and f + c (same seed): both searches must keep climbing
            if obs.get("error_shift"):
                ck.fail(f"C05|raises|CBO.search|{obs['error_shift'].split(':')[0]}", "search raised on a monotone problem with a large constant offset", case, obs)
                return
            b = obs["a_shift"]
            m0, m1 = sum(a[-6:]) / 6, sum(b[-6:]) / 6
            ck.count("climb-pair:" + ("same-sequence" if a == b else "both-climb" if m0 > thr0 and m1 > thr0 else "differ"))
            if m0 > thr0 and m1 <= thr0:
                ck.fail(f"C05|shift-breaks-the-climb|CBO.search|surrogate={case['surrogate']},scaler={eff}" + (",single-objective" if case["nobj"] == 0 else f",strategy={case['strategy']}"),
                        "adding a constant to the objective(s) of a partially observed monotone problem stops the search from reaching the maximiser", case,
                        {"offset": case["pair_offset_mult"] * (case["K"] - 1), "proposals_f": a, "proposals_f_plus_c": b, "late_mean_f": m0, "late_mean_f_plus_c": m1,
                         "best_initial_point": best_init, "maximiser": top, "threshold": thr0})
                return
        late = a[-6:]
        mean_late = sum(late) / len(late)
        # a search that keeps climbing has covered, at the end, well over 20 % of the way from the best initial point to
        # the maximiser (measured on correct code: >= 30 % in the slowest combination, GP + Quadratic, >= 80 % elsewhere);
        # a search pulled back to the best point of its first surrogate fit stays below 15 %
        thr = best_init + 0.2 * (top - best_init)
        ck.count("climb:late-mean>=0.9top" if mean_late >= 0.9 * top else "climb:late-mean<0.9top")
        if mean_late <= thr:
            ck.fail(_fp("stuck-below-maximiser", case, eff, "CBO.search"),
                    "on a monotone problem started far below the maximiser the late proposals stay near the best initial point", case,
                    {"proposals": a, "late_mean": mean_late, "best_initial_point": best_init, "maximiser": top, "threshold": thr})
        return
    late = a[-12:]
    mid = top / 2.0
    mean_late = sum(late) / len(late)
    acq = case.get("acq", "UCB")
    ck.count(f"mono:acq={acq}:" + ("late-mean>=0.75K" if mean_late >= 0.75 * top else "late-mean>mid" if mean_late > mid else "late-mean<=mid"))
    if acq in ("EI", "PI"):
        # improvement-based acquisitions explore wherever the predictive std is 0 at the observed points (fully grown forests):
        # exercised (must not raise), measured, not asserted
        return
    mps = case.get("mps")
    if mps:
        ck.count(f"mono:workers={case.get('workers', 1)},multi_point_strategy={mps}")
    # boltzmann keeps sampling over the whole range by design (measured late means 0.53-0.91 of the range on correct code)
    if mean_late <= (0.3 * top if mps == "boltzmann" else mid):
        # for a non-default acquisition / batch strategy the option the failure hangs on is that option (observed with every scaler / strategy)
        fp = (f"C05|concentrates-away-from-maximiser|CBO.search|multi_point_strategy={mps},workers>1" if mps else
              _fp("concentrates-away-from-maximiser", case, eff, "CBO.search") if acq == "UCB" else f"C05|concentrates-away-from-maximiser|CBO.search|acq_func={acq}")
        ck.fail(fp,
                "on a monotone problem (objective increasing in a) the late proposals concentrate in the lower half", case,
                {"proposals": a, "late_mean": mean_late, "midpoint": mid})


# --------------------------------------------------------------------------- continuous monotone problem, improvement-based acquisitions

_CONT = {}


XLOG = (1e-4, 1e-1)     # bounds of the log-uniform variant of the hyperparameter x


def _u_of_x(x, xprior):
    """position of x on a 0..10 scale in the coordinate its prior is uniform in (x itself, or log10 x)"""
    import math

    if xprior == "log-uniform":
        return 10.0 * (math.log10(x) - math.log10(XLOG[0])) / (math.log10(XLOG[1]) - math.log10(XLOG[0]))
    return float(x)


def _u_of_level(x, levels, ranks):
    """position on a 0..10 scale of a value of an ordinal / categorical hyperparameter: by its RANK in the order the objective follows
    (the numeric order for an ordinal), wherever the value stands in the declared list"""
    for v, r in zip(levels, ranks):
        if v == x:
            return 10.0 * r / (len(levels) - 1)
    raise HarnessError(f"value {x!r} is not one of the declared levels {levels}")


async def _run_cont(job):
    if _CONT.get("levels"):
        u = _u_of_level(job.parameters["x"], _CONT["levels"], _CONT["ranks"])
    else:
        u = _u_of_x(float(job.parameters["x"]), _CONT["xprior"])
    return _CONT["scale"] * (_CONT["sign"] * u + _CONT["offset"])


# (update_prior_quantile, n_initial_points).  An aggressive quantile on a handful of observations (0.5 on 8 points) is left out: the prior then
# collapses on 4 points and the search climbs slowly out of that region (the "overfitting" the code's own TODO mentions; measured medians
# down to 8.6 on correct code) - a matter of speed, not of direction
PRIOR_SETTINGS = [(0.1, 12), (0.1, 20), (0.25, 40), (0.5, 20), (0.25, 10)]


def _cont_case(rng, t):
    """f(x) = scale * (+-u(x) + offset), u = x on [0, 10] or - hyperparameter with a log-uniform prior on [1e-4, 1e-1] - the position of log10 x
    on a 0..10 scale (maximiser at u = 10 or at u = 0), exploitation settings of every acquisition that has one
    (kappa = 0 / xi = 0, constant scheduler), forests; on a continuous domain the predictive std is > 0 between the observations, so
    EI / PI are informative.  Rows 6-9: the same with `update_prior=True` — after every fit the sampling prior of each real hyperparameter
    is re-fitted on a quantile of the observations, i.e. WHERE THE CANDIDATES COME FROM depends on the direction too — crossed with the
    quantile, the number of initial points (how many observations the selected fraction holds), extra irrelevant hyperparameters (real,
    integer) and the surrogate."""
    r = t % 16
    if r >= 14:
        # the KIND of the hyperparameter the objective depends on: a numerical ordinal whose values are declared in ascending, descending or arbitrary
        # order (legal: the list is only the declared order), or a categorical with string choices in any order; always with a real hyperparameter
        # next to it (bounds handling differs for purely categorical spaces, and the real one keeps the configurations at the best level distinct)
        # (row 14: increasing objectives, row 15: decreasing ones; over the rows every kind meets both directions, the quick tier runs a descending
        # ordinal with an increasing objective and a shuffled one with a decreasing objective)
        xkind = ["categorical", "ordinal-asc", "ordinal-desc", "ordinal-shuffled"][(t // 16 + r) % 4]
        vals = list(rng.choice([[16, 32, 64, 128, 256, 512], [0.001, 0.01, 0.1, 1.0, 10.0], [1, 2, 3, 5, 8, 13, 21]]))
        if xkind == "categorical":
            levels = [f"c{i}" for i in range(len(vals))]
            rng.shuffle(levels)
            ranks = list(range(len(levels)))
            rng.shuffle(ranks)
        else:
            levels = sorted(vals, reverse=(xkind == "ordinal-desc"))
            if xkind == "ordinal-shuffled":
                while levels in (sorted(vals), sorted(vals, reverse=True)):
                    rng.shuffle(levels)
            ranks = [sorted(vals).index(v) for v in levels]
        return {"cont": True, "surrogate": rng.choice(["ET", "RF"]), "acq": rng.choice(["UCB", "UCBd"]), "xkind": xkind, "levels": levels, "ranks": ranks,
                "sign": 1.0 if r == 14 else -1.0, "extra_dims": rng.choice([["real"], ["real", "int"]]),
                "offset": rng.choice([-100.0, 50.0, 0.0, 1000.0, -5.0]), "scale": rng.choice([1.0, 0.01, 100.0]), "seed": rng.randrange(1 << 20),
                # (an unordered categorical: pure exploitation never tries a choice it has not seen, so every choice must occur in the initial design for
                # "the best choice" to be what the search can know - asserted only then)
                "n_evals": 32 if xkind != "categorical" else 3 * len(levels) + 24, "n_initial": 8 if xkind != "categorical" else 3 * len(levels)}
    if r >= 10:
        # the optimisers of the acquisition function other than "sampling": L-BFGS from the best sampled candidates (what "auto" selects for
        # GP), genetic algorithms seeded with the best sampled candidates; `acq_optimizer_freq`: every how many fits they are used
        # (forests with L-BFGS are left out: on a piecewise constant surrogate the numerical gradient is 0 and the result is the starting
        # point - measured medians 9.90-9.96, too close to the threshold to assert)
        sur, opt = [("GP", "lbfgs"), (rng.choice(["ET", "RF"]), "ga"), (rng.choice(["ET", "RF"]), "mixedga"),
                    rng.choice([("GP", "ga"), ("GP", "lbfgs"), ("GP", "mixedga")])][r - 10]
        ga = opt != "lbfgs"
        return {"cont": True, "surrogate": sur, "acq": rng.choice(["UCB", "UCBd"]) if sur != "GP" else "UCB", "acq_optimizer": opt,
                "acq_optimizer_freq": rng.choice([1, 2]), "sign": rng.choice([1.0, -1.0]),
                "extra_dims": rng.choice([[], ["real"], ["int"]]) if opt != "ga" else rng.choice([[], ["real"]]),
                "offset": rng.choice([-100.0, 50.0, 0.0, 1000.0, -5.0]), "scale": rng.choice([1.0, 0.01, 100.0]), "seed": rng.randrange(1 << 20),
                "n_evals": 22 if ga else 32, "n_initial": 8, "late": 10 if ga else 20, "xprior": rng.choice(["uniform", "uniform", "log-uniform"]),
                # with filter_duplicated (default) a point the optimiser returns twice is replaced by the best sampled candidate: that guard would
                # hide an optimiser that keeps walking to the same wrong corner
                "filter_dup": rng.random() < 0.5}
    if r < 6:
        sur, acq = [("RF", "PI"), ("RF", "PId"), ("RF", "EI"), ("RF", "EId"), ("ET", rng.choice(["PI", "EI", "PId", "EId"])),
                    (rng.choice(["ET", "RF"]), rng.choice(["UCB", "UCBd"]))][r]
        return {"cont": True, "surrogate": sur, "acq": acq,
                "offset": rng.choice([-100.0, 50.0, 0.0, 1000.0, -5.0]), "scale": rng.choice([1.0, 0.01, 100.0]), "seed": rng.randrange(1 << 20),
                "n_evals": 40, "n_initial": 8}
    sur = ["ET", "RF", "ET", rng.choice(["GP", "RF", "ET"])][r - 6]
    pq, n_init = PRIOR_SETTINGS[(t // 16 + r) % len(PRIOR_SETTINGS)]
    return {"cont": True, "surrogate": sur, "acq": rng.choice(["UCB", "UCBd"]) if sur != "GP" else "UCB", "update_prior": True,
            "prior_quantile": pq, "sign": rng.choice([1.0, -1.0]),
            "extra_dims": [[], ["real"], ["real", "int"], ["int"]][(t // 32 + r) % 4],
            "offset": rng.choice([-100.0, 50.0, 0.0, 1000.0, -5.0]), "scale": rng.choice([1.0, 0.01, 100.0]), "seed": rng.randrange(1 << 20),
            "n_evals": n_init + (24 if sur == "GP" else 30), "n_initial": n_init, "xprior": ["uniform", "log-uniform"][(t // 16 + r) % 2]}


def _const_scheduler(i, eta_0, **kwargs):
    return eta_0


class _PriorSpy:
    """environment observation for `update_prior=True`: the fitted targets and the quantile handed to `Space.update_prior` after each
    surrogate fit, and the data set each kernel-density prior is re-fitted on (`scipy.stats.gaussian_kde` as imported by the space module)"""

    def __init__(self):
        import deephyper.skopt.space.space as sp

        self.sp = sp
        self.calls, self.errors = [], []
        self._cur = None

    def __enter__(self):
        sp = self.sp
        self._up, self._kde = getattr(sp.Space, "update_prior", None), getattr(sp, "gaussian_kde", None)
        if self._up is None or self._kde is None:
            self.errors.append("Space.update_prior / space.gaussian_kde not found: the prior update is not observable")
            return self

        def up_spy(this, X, y, *a, **k):
            rec = None
            try:
                q = k.get("q", a[0] if a else 0.9)
                cols = [[float(x[i]) for x in X] if type(dim).__name__ == "Real" else None for i, dim in enumerate(this.dimensions)]
                rec = {"y": [float(v) for v in y], "q": float(q), "cols": cols, "kde": []}
                self.calls.append(rec)
            except Exception as e:
                self.errors.append("update_prior spy: " + repr(e))
            self._cur = rec
            try:
                return self._up(this, X, y, *a, **k)
            finally:
                self._cur = None

        def kde_spy(dataset, *a, **k):
            try:
                if self._cur is not None:
                    self._cur["kde"].append([float(v) for v in np.asarray(dataset, dtype=float).reshape(-1)])
            except Exception as e:
                self.errors.append("gaussian_kde spy: " + repr(e))
            return self._kde(dataset, *a, **k)

        sp.Space.update_prior, sp.gaussian_kde = up_spy, kde_spy
        return self

    def __exit__(self, *a):
        if self._up is not None and self._kde is not None:
            self.sp.Space.update_prior, self.sp.gaussian_kde = self._up, self._kde


def _observe_cont(case):
    import warnings

    warnings.filterwarnings("ignore")
    from deephyper.evaluator import Evaluator
    from deephyper.hpo import CBO, HpProblem

    xprior = case.get("xprior", "uniform")
    levels = case.get("levels")
    _CONT.update({"scale": case["scale"], "offset": case["offset"], "sign": case.get("sign", 1.0), "xprior": xprior, "levels": levels, "ranks": case.get("ranks")})
    problem = HpProblem()
    if levels:
        problem.add_hyperparameter(list(levels), "x")
    else:
        problem.add_hyperparameter((XLOG[0], XLOG[1], "log-uniform") if xprior == "log-uniform" else (0.0, 10.0), "x")
    for n, kind in enumerate(case.get("extra_dims", [])):
        problem.add_hyperparameter((0.0, 1.0) if kind == "real" else (0, 5), f"e{n}")
    tmp = tempfile.mkdtemp(prefix="c05c_")
    out = {"error": None}
    try:
        with _Quiet(), _PriorSpy() as spy:
            ev = Evaluator.create(_run_cont, method="serial")
            extra = {}
            if case.get("update_prior"):
                extra = {"update_prior": True, "update_prior_quantile": float(case["prior_quantile"])}
            if case.get("acq_optimizer"):
                extra.update({"acq_optimizer": case["acq_optimizer"], "acq_optimizer_freq": int(case.get("acq_optimizer_freq", 1)),
                              "filter_duplicated": bool(case.get("filter_dup", True))})
            if (extra or levels) and case["surrogate"] != "GP":
                extra["surrogate_model_kwargs"] = {"n_estimators": 25}
            search = CBO(problem, ev, random_state=case["seed"], log_dir=tmp, verbose=0, surrogate_model=case["surrogate"],
                         acq_func=case["acq"], kappa=0.0, xi=0.0, scheduler=_const_scheduler, n_points=300 if extra else 500,
                         n_initial_points=case["n_initial"], **extra)
            res = search.search(max_evals=case["n_evals"])
            res = res.sort_values("job_id")
            if levels:
                out["x"] = [_u_of_level(v, levels, case["ranks"]) for v in res["p:x"].tolist()]
                out["x_values"] = [v if isinstance(v, str) else float(v) for v in res["p:x"].tolist()]
            else:
                out["x"] = [_u_of_x(float(v), xprior) for v in res["p:x"].tolist()]     # (on the 0..10 scale)
            if case.get("update_prior"):
                out["prior_calls"] = spy.calls
                out["spy_error"] = spy.errors[:3]
            try:
                ev.close()
            except Exception:
                pass
    except Exception as e:
        import traceback

        out["error"] = f"{type(e).__name__}: {e}"
        out["trace"] = traceback.format_exc()[-1500:]
    finally:
        shutil.rmtree(tmp, ignore_errors=True)
    return out


def _judge_prior(ck, case, obs, d):
    """L2 for `update_prior=True`: at every surrogate fit the points each kernel-density prior was re-fitted on vs the model's
    `priorMask (cboPriorQuantile p) targets` (positions whose target is within rounding of the quantile are not compared: numpy
    interpolates in doubles), and the direction of the OBSERVED selection by the verified checker `checkPriorSel`"""
    calls = obs.get("prior_calls") or []
    if obs.get("spy_error"):
        ck.mismatch(case, {"what": "the prior update could not be observed", "errors": obs["spy_error"]})
    p = float(case["prior_quantile"])
    if not calls:
        ck.mismatch(case, {"what": "update_prior=True but Space.update_prior was never called after a surrogate fit"})
        return None
    reqs, meta = [], []
    for n, c in enumerate(calls):
        y = c["y"]
        if not _close(c["q"], 1.0 - p, 1.0, 4 * EPS):
            ck.mismatch(case, {"what": "quantile handed to Space.update_prior is not 1 - update_prior_quantile", "q": c["q"], "update_prior_quantile": p})
        real_cols = [col for col in c["cols"] if col is not None]
        if len(c["kde"]) != len(real_cols) or not real_cols:
            ck.mismatch(case, {"what": "number of kernel-density re-fits differs from the number of real hyperparameters", "fit": n,
                               "refits": len(c["kde"]), "real_hyperparameters": len(real_cols)})
            continue
        for col, data in zip(real_cols, c["kde"]):
            left = {}
            for v in data:
                left[v] = left.get(v, 0) + 1
            sel = []
            for v in col:
                if left.get(v, 0) > 0:
                    left[v] -= 1
                    sel.append(True)
                else:
                    sel.append(False)
            if any(left.values()) or len(col) != len(y):
                ck.mismatch(case, {"what": "the data of a kernel-density re-fit are not a subset of the told points", "fit": n})
                continue
            # the exact double q the implementation used (q = 1 - p is compared above)
            reqs.append({"op": "prior", "y": [rat(v) for v in y], "p": rat(1.0 - c["q"]) if _close(c["q"], 1.0 - p, 1.0, 4 * EPS) else rat(p), "sel": sel})
            meta.append((n, y, sel))
    wrong = None
    for rep, (n, y, sel) in zip(d.ask_all(reqs), meta):
        ck.count("prior-selection:" + ("direction-ok" if rep["sel_ok"] else "direction-wrong"))
        if rep["mask"] is None or rep["quantile"] is None:
            ck.mismatch(case, {"what": "the model has no quantile for this history", "fit": n})
            continue
        t = float(unrat(rep["quantile"]))
        tol = 1e-9 * max(max(y) - min(y), 1e-300)
        diff = [j for j, (a, b) in enumerate(zip(sel, rep["mask"])) if bool(a) != bool(b) and abs(y[j] - t) > tol]
        ck.count("prior-selection:" + ("=model" if not diff else "differs-from-model"))
        ck.count("prior-selection:size=" + ("1" if sum(sel) == 1 else "all" if all(sel) else ">=2"))
        if (diff or not rep["sel_ok"]) and wrong is None:
            wrong = {"fit": n, "observations": len(y), "selected_by_the_implementation": sum(sel), "selected_by_the_model": sum(1 for b in rep["mask"] if b),
                     "quantile_of_the_targets": t, "targets_selected": sorted(v for v, b in zip(y, sel) if b)[:6],
                     "targets_left_out": sorted(v for v, b in zip(y, sel) if not b)[:6],
                     "checkPriorSel (nothing left out is as good as a selected observation)": bool(rep["sel_ok"])}
            ck.mismatch(case, dict(wrong, what="update_prior: the observations the sampling prior is re-fitted on differ from the model's "
                                                "`targets <= quantile(targets, 1 - update_prior_quantile)`"))
    return wrong


def _judge_cont(ck, case, obs, d=None):
    up = bool(case.get("update_prior"))
    opt = case.get("acq_optimizer")
    xp = ",x=log-uniform" if case.get("xprior") == "log-uniform" else ""
    xkind = case.get("xkind")
    ck.count(f"cont:{case['surrogate']}/{case['acq']}" + ("/update_prior" if up else "") + (f"/acq_optimizer={opt},freq={case.get('acq_optimizer_freq')},filter_duplicated={case.get('filter_dup', True)}" if opt else ""))
    if obs["error"]:
        # (the options a raise hangs on: the non-default ones of the case)
        ck.fail(f"C05|raises|CBO.search|{obs['error'].split(':')[0]}," + (f"update_prior=True,surrogate={case['surrogate']}" if up else
                                                                           f"acq_optimizer={opt},surrogate={case['surrogate']}" if opt else f"acq_func={case['acq']}") + xp,
                "search raised on a continuous monotone problem", case, obs)
        return
    # distance of the late proposals to the maximiser (x = 10 for an increasing objective, x = 0 for a decreasing one)
    top = 10.0 if case.get("sign", 1.0) > 0 else 0.0
    nlate = int(case.get("late", 20))
    late = sorted(10.0 - abs(v - top) for v in obs["x"][-nlate:])
    med = (late[nlate // 2 - 1] + late[nlate // 2]) / 2.0
    # the rows with update_prior / another optimiser of the acquisition run on up to 3 hyperparameters with 25 trees and 300 candidates:
    # calibrated on the repaired tree over 480 runs - median >= 9.69 (all but one >= 9.85), every late proposal above 8.8
    new_rows = bool(case.get("update_prior") or case.get("acq_optimizer") or xkind)
    if xkind:
        ck.count(f"cont:x={xkind},levels={len(case['levels'])},surrogate={case['surrogate']}")
    high, med_min = (CONT_HIGH_NEW, CONT_MEDIAN_NEW) if new_rows else (CONT_HIGH, CONT_MEDIAN)
    share = sum(1 for v in late if v > high) / len(late)
    ck.count(f"cont:{case['acq']}{'/update_prior' if up else ''}:" + ("median>9.8" if med > 9.8 else "median>8" if med > 8 else "median<=8"))
    wrong = None
    if up:
        ck.count(f"cont:update_prior:q={case['prior_quantile']},n_initial={case['n_initial']},extra={'+'.join(case.get('extra_dims', [])) or 'none'},x={case.get('xprior', 'uniform')}")
        if d is not None:
            wrong = _judge_prior(ck, case, obs, d)
    if xkind == "categorical" and set(obs.get("x_values", [])[: case["n_initial"]]) != set(case["levels"]):
        ck.count("cont:x=categorical:a-choice-never-tried-in-the-initial-design:not-asserted")
        return
    if case["surrogate"] == "ET" and case["acq"] not in ("UCB", "UCBd"):
        # calibrated on main: with the fully grown ET forest the improvement-based acquisitions end anywhere between 7.5 and 10
        # (EI 8.1-10, PI 8.9-10, EId / PId 7.5-9.8): measured, not asserted.  RF: median >= 9.96 and >= 90 % above 9 in 150 runs.
        return
    if med <= med_min or share < CONT_SHARE:
        detail = {f"median_closeness_of_last_{nlate} (10 = at the maximiser)": med, "share_above_%g" % high: share, "maximiser": top,
                  "proposals (x, or the position of log10 x, on a 0..10 scale)": [round(v, 3) for v in obs["x"]]}
        if up:
            detail["prior_update"] = wrong or "selection as in the model"
            ck.fail(f"C05|late-proposals-not-at-the-maximiser|CBO.search|update_prior=True,surrogate={case['surrogate']}" + xp,
                    "with update_prior=True the late proposals of an exploitation-only search on a continuous monotone problem do not concentrate at "
                    "the maximiser", case, detail)
        elif xkind:
            detail.update({"declared_values_of_x": case["levels"], "rank_of_each_value_in_the_objective": case["ranks"], "proposed_values_of_x": obs.get("x_values")})
            ck.fail(f"C05|late-proposals-not-at-the-maximiser|CBO.search|x={xkind},surrogate={case['surrogate']}",
                    f"the objective is monotone in an {xkind.split('-')[0]} hyperparameter (declared order: {xkind}) next to a real one: the late proposals of an "
                    "exploitation-only search do not use its best value", case, detail)
        elif opt:
            ck.fail(f"C05|late-proposals-not-at-the-maximiser|CBO.search|acq_optimizer={opt},surrogate={case['surrogate']}" + xp,
                    f"with acq_optimizer={opt} the late proposals of an exploitation-only search on a continuous monotone problem do not concentrate "
                    "at the maximiser", case, detail)
        else:
            ck.fail(f"C05|late-proposals-not-at-the-maximiser|CBO.search|acq_func={case['acq']},surrogate={case['surrogate']}",
                    "on a continuous monotone problem the late proposals of an exploitation-only setting do not concentrate at the maximiser", case, detail)


CONT_MEDIAN, CONT_HIGH, CONT_SHARE, CONT_MEDIAN_NEW, CONT_HIGH_NEW = 9.8, 9.0, 0.7, 9.3, 8.5


# --------------------------------------------------------------------------- name maps / tell stream


def _check_names(ck, d):
    import deephyper.hpo._cbo as cbo

    keys = ["UCB", "UCBd", "EI", "PI", "MES", "gp_hedge", "EId", "PId", "MESd", "gp_hedged", "cl_min", "cl_mean", "cl_max", "topk",
            "boltzmann", "qUCB", "qUCBd", "min", "mean", "max", "ignore", "auto", "identity", "minmax", "quantile-uniform", "log", "minmaxlog"]
    rep = d.ask({"op": "names", "keys": keys})
    rep["keys"] = keys
    # the tables are private module constants: when one is not there the map is simply not observable this way
    # (L2 mismatch, never a harness error); its EFFECT is still checked end to end (acquisition name reaching
    # _gaussian_acquisition, failure imputation in the fitted targets)
    want = {"acq": {"UCB": "LCB", "UCBd": "LCBd"}, "mp": {"cl_max": "cl_min", "cl_min": "cl_max", "qUCB": "qLCB", "qUCBd": "qLCBd"}, "ff": {"min": "max"}}
    attr = {"acq": "MAP_acq_func", "mp": "MAP_multi_point_strategy", "ff": "MAP_filter_failures"}
    for name in ("acq", "mp", "ff"):
        table = getattr(cbo, attr[name], None)
        if not isinstance(table, dict):
            ck.mismatch({"names": name}, {"what": f"name map _cbo.{attr[name]} is not observable (missing or not a dict)"})
            ck.count("names:not-observable")
            continue
        for k, got in zip(keys, rep[name]):
            ck.count("names")
            if table.get(k, k) != got:
                ck.mismatch({"names": name, "key": k}, {"impl": table.get(k, k), "model": got})
        if dict(table) != want[name]:
            ck.fail(f"C05|name-map|_cbo.{attr[name]}|", "a max<->min name map changed", {"names": name}, {"impl": dict(table), "want": want[name]})
    return rep


def _tell_stream(ck, d):
    """what CBO hands to Optimizer.tell for the documented objective forms (numbers, tuples, 'F...' failures)"""
    import deephyper.skopt as skopt
    from deephyper.evaluator import Evaluator
    from deephyper.hpo import CBO, HpProblem

    seen = []
    orig = skopt.Optimizer.tell

    def tell_spy(this, x, y, fit=True):
        seen.append((x, y))
        return orig(this, x, y, fit=fit)

    forms = [
        ("scalars", [1.5, -2.0, 3, 0.0, -0.0, 1e-300, 7]),
        ("scalars+F", [1.5, "F", -2.0, "F_timeout", 3.25, 4.0]),
        ("tuples", [(1.0, -2.0), (0.5, 3.0), (2, 1), (-1.5, 0.25)]),
        ("triples", [(1.0, -2.0, 3.0), (0.5, 3.0, -1.0), (2.0, 1.0, 0.0)]),
        ("lists", [[1.0, 2.0], [3.0, -4.0], [0.0, 0.5]]),
    ]
    skopt.Optimizer.tell = tell_spy
    try:
        for name, vals in forms:
            for ff in (["min", "mean", "ignore"] if "F" in str(vals) else ["min"]):
                seen.clear()
                _TABLE.clear()
                _TABLE.update({i: v for i, v in enumerate(vals)})
                problem = HpProblem()
                problem.add_hyperparameter((0, len(vals) - 1), "a")
                tmp = tempfile.mkdtemp(prefix="c05t_")
                try:
                    ev = Evaluator.create(_run_function, method="serial")
                    s = CBO(problem, ev, random_state=1, log_dir=tmp, verbose=0, surrogate_model="ET", surrogate_model_kwargs={"n_estimators": 5},
                            n_initial_points=len(vals) + 5, initial_points=[{"a": i} for i in range(len(vals))], filter_failures=ff)
                    s.search(max_evals=len(vals))
                    ev.close()
                finally:
                    shutil.rmtree(tmp, ignore_errors=True)
                told_impl = {}
                for x, y in seen:
                    for xi, yi in zip(x, y):
                        told_impl[int(xi[0])] = yi
                objs = []
                for v in vals:
                    if isinstance(v, str):
                        objs.append({"s": v})
                    elif isinstance(v, (tuple, list)):
                        objs.append({"t": [{"n": rat(float(c))} for c in v]})
                    else:
                        objs.append({"n": rat(float(v))})
                rep = d.ask({"op": "tell", "ignore": ff == "ignore", "objs": objs})["told"]
                case = {"tell": name, "filter_failures": ff, "objectives": [list(v) if isinstance(v, tuple) else v for v in vals]}
                ck.case(case, nontrivial=True)
                for i, (v, m) in enumerate(zip(vals, rep)):
                    ck.count("tell:" + m["k"])
                    got = told_impl.get(i, None)
                    if m["k"] == "skipped":
                        ok = got is None
                    elif m["k"] == "fail":
                        ok = got == "F"
                    elif m["k"] == "scal":
                        ok = isinstance(got, (int, float)) and Fraction(float(got)) == unrat(m["v"])
                    elif m["k"] == "vec":
                        ok = isinstance(got, list) and [Fraction(float(c)) for c in got] == [unrat(c) for c in m["v"]]
                    else:
                        ok = False
                    if not ok:
                        ck.mismatch(case, {"what": "value handed to Optimizer.tell differs from cboTellY", "index": i, "objective": v, "impl": got, "model": m})
                    # L3: numeric objectives reach the minimiser negated
                    if isinstance(v, (int, float)) and not (isinstance(got, (int, float)) and got == -v):
                        ck.fail("C05|objective-not-negated|CBO._tell|scalar", "a numeric objective is not told negated", case, {"objective": v, "told": got})
                    if isinstance(v, (tuple, list)) and not (isinstance(got, list) and got == [-c for c in v]):
                        ck.fail("C05|objective-not-negated|CBO._tell|tuple", "a numeric objective tuple is not told negated", case, {"objective": v, "told": got})
    finally:
        skopt.Optimizer.tell = orig


# --------------------------------------------------------------------------- driver of the whole check


def _load_corpus():
    out = []
    d = VERIF / "corpus" / "C05"
    if d.is_dir():
        for f in sorted(d.glob("*.json")):
            data = json.loads(f.read_text())
            out.append(data.get("case", data))
    return out


def _map(fn, items, workers):
    if workers <= 1 or len(items) < 4:
        return [fn(x) for x in items]
    ctx = multiprocessing.get_context("fork")
    with cf.ProcessPoolExecutor(max_workers=workers, mp_context=ctx) as ex:
        return list(ex.map(fn, items, chunksize=4 if len(items) > 8 * workers else 1))


def _observe_jobs(cases, workers):
    """run the real search histories (base cases and their shifted / rescaled variants)"""
    jobs = []
    for case in cases:
        jobs.append((case, None))
        if case.get("variants"):
            for which, seed in (("shift", case["seed"]), ("scale", case["seed"] + 1)):
                v = _variant(case, which, seed)
                if v is not None:
                    jobs.append((v, which))
    obs_all = _map(_observe_safe, [j[0] for j in jobs], workers)
    return jobs, obs_all


def _judge_jobs(ck, d, names, jobs, obs_all):
    """ask the model about every fit of every observed history and judge"""
    reqs, spans = [], []
    for n, ((case, var), obs) in enumerate(zip(jobs, obs_all)):
        if "harness_error" in obs:
            raise HarnessError(obs["harness_error"])
        eff = _eff_scaler(case, names)
        if obs["error"]:
            ck.case(case, nontrivial=True)
            ck.fail(f"C05|raises|CBO.search|{obs['error'].split(':')[0]},scaler={eff},surrogate={case['surrogate']}",
                    "search / tell / ask raised on a finite candidate set", case, {"error": obs["error"], "trace": obs.get("trace")})
            spans.append(None)
            continue
        nfit = min(len(obs["fits"]), len(obs["acqs"]), len(obs["proposals"]))
        if obs.get("spy_error"):
            ck.mismatch(case, {"what": "an environment observation (spy) failed: the model's inputs could not be observed", "errors": obs["spy_error"]})
        if nfit == 0:
            ck.case(case, nontrivial=True)
            ck.mismatch(case, {"what": "no surrogate fit was observed (spies saw nothing)", "fits": len(obs["fits"]), "acqs": len(obs["acqs"])})
            if case.get("route") == "fit_surrogate" and len(case.get("fail", [])) < case["K"]:
                # loading a checkpoint must make the next proposals model-based whatever its size; without a fit the proposal is a random point
                nvalid = case["K"] - len(case.get("fail", []))
                nip = int(case.get("n_initial_points", case["K"]))
                ck.fail("C05|checkpoint-not-fitted|CBO.fit_surrogate|" + ("valid-rows<n_initial_points" if nvalid < nip else "valid-rows>=n_initial_points"),
                        "after fit_surrogate(checkpoint) no surrogate was fitted: the next proposal is not model-based, let alone the best candidate", case,
                        {"valid_rows": nvalid, "n_initial_points": nip, "proposal": obs.get("proposals"), "objectives": case["objs"], "failed": case.get("fail")})
            spans.append(None)
            continue
        spans.append((len(reqs), nfit))
        for i in range(nfit):
            if _finite_fit(obs, i):
                reqs.append(_request(case, obs, eff, i))
            else:
                reqs.append(None)    # NaN / inf in what the implementation computed: nothing the rational model can be asked about
    answers = iter(d.ask_all([q for q in reqs if q is not None]))
    reps = [next(answers) if q is not None else {"nonfinite": True} for q in reqs]
    results = {}
    pending = []
    for n, ((case, var), obs) in enumerate(zip(jobs, obs_all)):
        if spans[n] is None:
            continue
        start, nfit = spans[n]
        eff = _eff_scaler(case, names)
        ck.case(case, nontrivial=case["nobj"] >= 1 or case["sign"] != "neg" or bool(case.get("fail")) or bool(case.get("rounds")))
        results[n] = (_judge(ck, case, obs, reps[start:start + nfit], eff, pending), eff)
    # second round trip: the verified checker on the real proposals, the constant-liar lies
    for (req, verdict), rep in zip(pending, d.ask_all([q for q, _ in pending])):
        verdict(rep)
    # shift / scale clause: the proposal's score must be the same in the base run and in its variants
    n = 0
    while n < len(jobs):
        case, var = jobs[n]
        if var is None:
            base = results.get(n)
            k = n + 1
            while k < len(jobs) and jobs[k][1] is not None:
                which = jobs[k][1]
                r = results.get(k)
                if base and r and base[0] is not None and r[0] is not None and base[0][2] != r[0][2]:
                    # (with filter_duplicated the candidates left at the last fit depend on what was proposed - on unobserved candidates - at the
                    # earlier fits; the clause compares like with like)
                    ck.count(f"variant:{which}:different-candidates-left")
                elif base and r and base[0] is not None and r[0] is not None:
                    ck.count(f"variant:{which}")
                    if base[0][0] != r[0][0]:
                        vcase = jobs[k][0]
                        ck.fail(_fp(f"{which}-changes-choice", case, base[1]),
                                f"the proposal's score changes when the objectives are {'shifted by a constant vector' if which == 'shift' else 'multiplied by a positive factor'}",
                                vcase, {"base_objectives": case["objs"], "variant": vcase["variant"], "score_base": base[0][0], "score_variant": r[0][0],
                                        "best": base[0][1]})
                k += 1
            n = k
        else:
            n += 1


def _t(ck, label, t0):
    import time

    ck.extra_cov.setdefault("phase_s", {})[label] = round(time.time() - t0, 1)
    return time.time()


def run(ck):
    import time

    t0 = time.time()
    ck.rule = ("CBO on a 1-D integer space 0..K-1 (K in 4..10), kappa=0, sampling acquisition optimiser, filter_duplicated in {False, True} (the candidates that "
               "reach the acquisition are observed after filtering); histories with one fit "
               "(every candidate an initial point), several fits (initial subset, then 1-3 tell rounds adding better observations) or failed evaluations "
               "('F' for a subset incl. the would-be best, filter_failures min/mean); at the last fit every candidate is observed; matrix surrogate {ET,RF,GP} "
               "(forests mostly configured to interpolate) x objective_scaler {auto,identity,minmax,quantile-uniform} x strategy {Linear,Chebyshev,AugChebyshev,PBI,"
               "Quadratic} x weights {random,fixed incl. a zero} x n_obj {scalar,2,3} x objectives {offsets + positive scales 1e-9..1e9 of a shuffled score with "
               "offsets up to 1e5 x the span (distinct doubles checked): all-positive, all-negative, mixed sign; independent (pareto)} x acq {UCB,UCBd} x seeds; "
               "half of the cases re-run with a constant vector added and with a positive factor 1e-9..1e9; plus monotone problems with default exploration "
               "(random initial points on 0..19; 8 fixed initial points far below the maximiser on 0..100/200 with the identity scaler x distance-based strategies x "
               "{ET,GP}; acq_func MES / gp_hedge asserted, EI / PI exercised), routes search() / fit_surrogate(DataFrame), moo_lower_bounds on 20 % of the "
               "multi-objective cases, MoScalarFunction instances and uniform weights, constant-liar batches ask(3) with cl_max/cl_mean/cl_min after the last fit, "
               "batches ask(n>1) with topk / boltzmann / qUCB / qUCBd stratified over filter_duplicated x history shape {fit_surrogate, tell rounds, single fit}, "
               "continuous monotone problems (x uniform on (0,10) or log-uniform on (1e-4,1e-1), increasing / decreasing, 0-2 extra hyperparameters, exploitation "
               "settings) x {acq_func PI/EI/UCB(d) with forests; update_prior=True x quantile {0.1,0.25,0.5} x n_initial {10..40} x {ET,RF,GP}; acq_optimizer "
               "{lbfgs,ga,mixedga} x acq_optimizer_freq}, "
               "the documented objective forms through CBO._tell, and the name maps. distinct by canonical case; non-trivial = multi-objective, or "
               "objectives not all negative, or a multi-fit / failure history")
    ck.assumptions = [
        "surrogate (scikit-learn forests / GP) is not modelled: its predictions at the candidates are observed and passed to the model; the maximality oracle "
        "is asserted when the observed surrogate honours its contract (its arg-min is a candidate of minimal fitted target), which interpolating forests always do; "
        "the ranking oracle on the fitted targets does not depend on the surrogate at all",
        "quantile-uniform (sklearn QuantileTransformer) is not computed by the model: the scaled history comes from the repo's cook_objective_scaler and is "
        "checked order-preserving into [0,1] (Lean orderPreservingB)",
        "random weights, sampled candidates and the utopia point are observed through spies on Space.rvs / Space.transform / clone / _gaussian_acquisition / MoScalarFunction.scalarize",
        "update_prior: the kernel density estimate and its samples are environment; which told points each re-fit uses is observed through spies on Space.update_prior and the "
        "space module's gaussian_kde and compared with priorMask, except within 1e-9 x range of the quantile (numpy interpolates in doubles)",
        "np.argsort's order among equal acquisition values is environment (contract ArgsortOK): a topk batch is judged as a selection of positions, found by matching the returned "
        "configurations to distinct positions of the cached candidate list",
        "floats: targets compared within 1e-9 + 64*eps*(|offset|/range) relative to the largest target; the strict ranking of targets is asserted only where that noise "
        "is below 1 % of the squared smallest relative score gap; Quadratic's SVD-based Q and the model's closed form agree within that tolerance",
    ]
    ck.trusted_extra = ["scikit-learn forests / GaussianProcessRegressor / QuantileTransformer / MinMaxScaler numerics", "numpy argmin tie-breaking = first index"]
    workers = min(16, os.cpu_count() or 1) if ck.thorough else 1
    nbase = ck.pick(110, 2400)
    nmono = ck.pick(12, 168)
    corpus = _load_corpus()
    cases = [c for c in corpus if not c.get("mono") and not c.get("cont")]
    cases += [_gen_case(ck.rng, t) for t in range(nbase)]
    monos = [c for c in corpus if c.get("mono")] + [_monotone_case(ck.rng, t) for t in range(nmono)]
    conts = [c for c in corpus if c.get("cont")] + [_cont_case(ck.rng, t) for t in range(ck.pick(16, 176))]
    # run the real searches before the Lean driver is started (fork-safety), then judge
    # (one pool for both kinds of whole-search runs; the quick tier keeps the candidate-set histories in-process - that is what the line
    # coverage probe sees - and gives these long runs a few workers)
    items = [("mono", c) for c in monos] + [("cont", c) for c in conts]

    def cost(it):      # longest first: better packing of the pool
        c = it[1]
        return (c.get("n_evals", 30) * (4 if c.get("surrogate") == "GP" else 1) * (2 if c.get("pair_offset_mult") is not None else 1)
                * (3 if c.get("acq_optimizer") in ("ga", "mixedga") else 1) * (2 if c.get("acq") in ("MES", "PI", "PId", "EI", "EId") else 1))

    order = sorted(range(len(items)), key=lambda i: -cost(items[i]))
    res = _map(_observe_run, [items[i] for i in order], workers if ck.thorough else min(6, os.cpu_count() or 1))
    both = [None] * len(items)
    for i, r in zip(order, res):
        both[i] = r
    mono_obs, cont_obs = both[: len(monos)], both[len(monos):]
    slow = sorted(((float(o.get("wall_s") or 0), "/".join(str(x) for x in (c.get("surrogate"), c.get("acq_optimizer") or c.get("acq"),
                                                                           "update_prior" if c.get("update_prior") else "", c.get("n_evals")) if x))
                   for c, o in zip(monos + conts, both)), key=lambda p: -p[0])[:5]
    ck.extra_cov["slowest_whole_search_runs"] = [[t, k] for t, k in slow]
    t0 = _t(ck, "monotone_runs", t0)
    jobs, obs_all = _observe_jobs(cases, workers)
    t0 = _t(ck, "candidate_runs", t0)
    with ck.driver() as d:
        names = _check_names(ck, d)
        _tell_stream(ck, d)
        t0 = _t(ck, "names+tell", t0)
        _judge_jobs(ck, d, names, jobs, obs_all)
        t0 = _t(ck, "model+judge", t0)
        for case, obs in zip(monos, mono_obs):
            ck.case(case, nontrivial=True)
            _judge_mono(ck, case, obs, _eff_scaler(case, names))
        for case, obs in zip(conts, cont_obs):
            ck.case(case, nontrivial=True)
            _judge_cont(ck, case, obs, d)


def replay(ck, case):
    with ck.driver() as d:
        names = _check_names(ck, d)
        if case.get("mono"):
            obs = _observe_mono_safe(case)
            ck.case(case)
            _judge_mono(ck, case, obs, _eff_scaler(case, names))
            print("replay:", {"proposals": obs.get("a"), "error": obs.get("error")})
        elif case.get("cont"):
            obs = _observe_cont(case)
            ck.case(case)
            _judge_cont(ck, case, obs, d)
            print("replay:", {"proposals": [round(v, 3) for v in obs.get("x", [])], "error": obs.get("error")})
        elif case.get("tell"):
            _tell_stream(ck, d)
        else:
            base = None
            if case.get("variant"):
                # a shifted / rescaled case: re-run its base (undo the variant) to compare the scores
                v = case["variant"]
                m = len(case["objs"][0])
                base = dict(case)
                base.pop("variant")
                if "shift" in v:
                    base["objs"] = [[row[i] - v["shift"][i] for i in range(m)] for row in case["objs"]]
                else:
                    base["objs"] = [[row[i] / v["scale"] for i in range(m)] for row in case["objs"]]
            c = dict(case)
            c["variants"] = False
            jobs, obs_all = _observe_jobs([c], 1)
            _judge_jobs(ck, d, names, jobs, obs_all)
            obs = obs_all[0]
            print("replay:", {"proposals_after_each_fit": obs.get("proposals"), "told_order": obs.get("told_a"), "failed": case.get("fail"),
                              "objectives": case["objs"], "scores": case.get("scores"),
                              "fitted_targets_per_fit": [f["y"] for f in obs.get("fits", [])], "error": obs.get("error")})
            if base is not None:
                b = dict(base)
                b["variants"] = False
                ob = _observe_safe(b)
                print("replay (base objectives):", {"proposals": ob.get("proposals"), "objectives": base["objs"]})
                if ob.get("proposals") and obs.get("proposals") and case.get("kind") == "aligned":
                    if case["scores"][ob["proposals"][-1]] != case["scores"][obs["proposals"][-1]]:
                        ck.fail(_fp(("shift" if "shift" in case["variant"] else "scale") + "-changes-choice", case, _eff_scaler(case, names)),
                                "the proposal's score changes under a shift / positive rescaling of the objectives", case,
                                {"score_base": case["scores"][ob["proposals"][-1]], "score_variant": case["scores"][obs["proposals"][-1]]})
