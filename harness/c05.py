"""C05 — searches maximise the objective(s).

Real code: `CBO` on a finite candidate set (1-D integer space 0..K-1), `kappa = 0`, `acq_optimizer="sampling"`,
`filter_duplicated=False`.  A case is a HISTORY with one or more surrogate fits: `search(max_evals=n_init)` on the
given initial points (first fit), then further `tell` rounds that add — and improve on — observations (one fit per
round, possibly with failed evaluations `"F"`), `ask(1)` after every fit; at the last fit every candidate has been
observed.  Observed environment (spies; nothing is compared on private attributes): what `Space.rvs` sampled (the
candidates), what each cloned surrogate was fitted on (`fit(X, y)`: the targets), what `_gaussian_acquisition` was
evaluated on and returned (`mu`, `std`, `kappa`, values), the weight vector and utopia point of each
`MoScalarFunction.scalarize` call.

L2 (correspondence with `Model/Direction.lean`), at EVERY fit, from the full history at that moment: the told values
    are the negated objectives; the model's targets (objective scaler and utopia point re-estimated from the current
    history, scalarisation, failure imputation `fitTargets` — `quantile-uniform` enters as the scaled history produced
    by the repo's own `cook_objective_scaler`, checked order-preserving into [0,1]) equal the fitted targets; the
    model's acquisition values and arg-min equal the implementation's; the proposal is the arg-min candidate; the name
    maps (when observable) and `'auto'` scaler resolution.
L3 (the property on the implementation's outputs): at every fit the fitted targets rank the successful observations
    by score (strictly better score => strictly smaller target) and no failed configuration is ranked first; when all
    sampled candidates are observed and the surrogate honours its contract the proposal is the best SUCCESSFUL
    candidate; its score does not change when a constant vector is added to the objectives or they are multiplied by a
    positive factor (1e-9 .. 1e9); independent objectives + Linear/Chebyshev/AugChebyshev: the proposal is not beaten in
    every objective; monotone problems with default exploration: late proposals in the upper half, and — started from
    initial points far below the maximiser — well above the best initial point.
"""
import concurrent.futures as cf
import json
import multiprocessing
import os
import shutil
import tempfile
from fractions import Fraction

import numpy as np

from .common import HarnessError, VERIF, rat, unrat

STRATS = ["Linear", "Chebyshev", "AugChebyshev", "PBI", "Quadratic"]
DISTANCE = ["Chebyshev", "AugChebyshev", "PBI", "Quadratic"]
PARAM = {"Linear": 0.0, "Chebyshev": 0.0, "AugChebyshev": 0.001, "PBI": 5.0, "Quadratic": 10.0}
MONOTONE = {"Linear", "Chebyshev", "AugChebyshev"}
SCALERS = ["auto", "identity", "minmax", "quantile-uniform"]
SURROGATES = ["ET", "RF", "GP"]
INTERP_KW = {"n_estimators": 12, "bootstrap": False, "max_samples": None, "max_features": 1.0, "min_samples_split": 2}
SCALES = [1.0, 1.0, 2.0, 0.01, 1000.0, 1e-9, 1e-7, 1e-5, 1e5, 1e9]
FACTORS = [1e-9, 1e-7, 1e-5, 0.001, 0.5, 3.0, 250.0, 1e5, 1e9]
EPS = 2.0 ** -52


# --------------------------------------------------------------------------- generator


def _consistent(objs, scores):
    """the float objectives really are strictly increasing in the score, in every column (distinct doubles)"""
    idx = sorted(range(len(scores)), key=lambda c: scores[c])
    for a, b in zip(idx, idx[1:]):
        if not scores[a] < scores[b]:
            return False
        # clearly distinct doubles: a gap of a few ulps does not survive `np.around(x, 100)` (x*1e100/1e100) in front of the
        # quantile transformer, nor the subtraction of the column minimum
        if not all(y - x > 1e-12 * max(abs(x), abs(y)) for x, y in zip(objs[a], objs[b])):
            return False
    return True


def _gen_case(rng, t):
    surrogate = SURROGATES[t % 3] if rng.random() < 0.8 else rng.choice(SURROGATES)
    nobj = rng.choice([0, 0, 2, 2, 3, 3])  # 0 = one objective (plain scalar), k>=2 = k-tuple
    strategy = STRATS[(t // 3) % 5] if nobj >= 1 else "Chebyshev"
    scaler = SCALERS[(t // 15) % 4] if rng.random() < 0.85 else rng.choice(SCALERS)
    K = rng.choice([4, 5, 6, 8, 10])
    kind = "aligned" if nobj <= 1 or rng.random() < 0.8 else "pareto"
    sign = rng.choice(["pos", "pos", "neg", "mixed"])
    m = max(nobj, 1)
    for _ in range(20):
        base = [float(v) for v in range(K)]
        if rng.random() < 0.3:
            base = [round(rng.uniform(0, 10), 3) + i * 0.37 for i in range(K)]
        rng.shuffle(base)
        # positive scales without bound in the property: tiny and huge ones, with offsets of larger magnitude
        lam = [rng.choice(SCALES) if rng.random() < 0.8 else round(rng.uniform(0.1, 10), 2) for _ in range(m)]
        span = [l * (max(base) - min(base)) for l in lam]
        lo = [l * min(base) for l in lam]
        off = []
        for i in range(m):
            gap = rng.choice([0.1, 1.0, 10.0, 100.0, 1e3, 1e5]) * max(span[i], 1e-300)
            if sign == "pos":
                off.append(-lo[i] + gap)                       # all values > 0
            elif sign == "neg":
                off.append(-lo[i] - span[i] - gap)             # all values < 0
            else:
                off.append(-lo[i] - span[i] * rng.uniform(0.2, 0.8))  # straddles 0
        if kind == "pareto":
            sc = rng.choice(SCALES)
            objs = [[sc * round(rng.uniform(-5, 5) if sign == "mixed" else (rng.uniform(1, 9) if sign == "pos" else -rng.uniform(1, 9)), 3)
                     for _ in range(m)] for _ in range(K)]
            break
        objs = [[lam[i] * base[c] + off[i] for i in range(m)] for c in range(K)]
        if _consistent(objs, base):
            break
    else:
        raise HarnessError("generator could not build distinct float objectives")
    weights = None
    if nobj >= 1 and rng.random() < 0.5:
        weights = [round(rng.uniform(0.05, 1.0), 3) for _ in range(m)]
        if m >= 2 and rng.random() < 0.2:
            weights[rng.randrange(m)] = 0.0
    elif nobj >= 1 and rng.random() < 0.2:
        weights = "uniform"
    order = list(range(K))
    rng.shuffle(order)
    case = {
        "surrogate": surrogate, "interp": surrogate != "GP" and rng.random() < 0.8, "scaler": scaler, "strategy": strategy,
        "weights": weights, "nobj": nobj, "kind": kind, "sign": sign, "K": K, "scores": base, "objs": objs,
        "order": order, "seed": rng.randrange(1 << 20), "acq": rng.choice(["UCB", "UCBd"]) if surrogate != "GP" else "UCB",
        "variants": rng.random() < 0.5, "n_init": K, "rounds": [], "fail": [], "ff": "min",
    }
    # shape of the history: one fit / several fits with improving observations / failed evaluations
    r = rng.random()
    if r < 0.4 and K >= 5:
        by_score = sorted(range(K), key=lambda c: base[c]) if kind == "aligned" and rng.random() < 0.7 else order[:]
        n_init = rng.randint(2, K - 2)
        init, rest = by_score[:n_init], by_score[n_init:]
        rng.shuffle(init)
        k = rng.choice([1, 2, 2, 3])
        cuts = sorted(rng.sample(range(1, len(rest)), min(k - 1, len(rest) - 1))) if len(rest) > 1 else []
        rounds = [rest[i:j] for i, j in zip([0] + cuts, cuts + [len(rest)])]
        case.update({"order": init + rest, "n_init": n_init, "rounds": rounds})
    elif r < 0.6 and K >= 5:
        nf = rng.randint(1, max(1, K // 3))
        fail = rng.sample(range(K), nf)
        if kind == "aligned" and rng.random() < 0.5:
            best = max(range(K), key=lambda c: base[c])      # the configuration that would be best fails
            if best not in fail:
                fail[0] = best
        succ = [c for c in order if c not in fail]
        n_init = rng.randint(2, len(succ))
        rest = succ[n_init:] + fail
        rng.shuffle(rest)
        rounds = [rest] if rng.random() < 0.5 or len(rest) < 2 else [rest[: len(rest) // 2], rest[len(rest) // 2:]]
        case.update({"order": succ[:n_init] + rest, "n_init": n_init, "rounds": rounds, "fail": sorted(fail),
                     "ff": rng.choice(["min", "min", "mean"])})
    elif r < 0.75:
        # CBO.fit_surrogate(DataFrame) instead of search(): the other place that negates.  The checkpoint holds every candidate; its size
        # is below, at or above the search's n_initial_points (loading a checkpoint must fit the surrogate whatever its size), and some
        # rows may be failed evaluations
        case["route"] = "fit_surrogate"
        case["n_initial_points"] = rng.choice([K, K, 10, K + 3, 30, 1])
        if K >= 4 and rng.random() < 0.35:
            nf = rng.randint(1, K - 1) if rng.random() < 0.3 else rng.randint(1, max(1, K // 3))
            fail = rng.sample(range(K), nf)
            succ = [c for c in order if c not in fail]
            case.update({"order": succ + sorted(fail), "fail": sorted(fail), "ff": rng.choice(["min", "min", "mean"])})
    if nobj >= 2 and not case["fail"] and rng.random() < 0.2:
        # moo_lower_bounds: region of interest for some objectives (penalty after scaling); bound at a quantile of the values
        lb = []
        for i in range(m):
            col = sorted(o[i] for o in objs)
            lb.append(col[rng.randrange(len(col))] if rng.random() < 0.6 else None)
        if any(b is not None for b in lb):
            case["bounds"] = lb
    if nobj >= 2 and rng.random() < 0.15:
        case["strategy_obj"] = True   # a MoScalarFunction instance instead of the strategy name
    if not case["fail"] and surrogate != "GP" and rng.random() < 0.2:
        case["lies"] = rng.choice(["cl_max", "cl_max", "cl_min", "cl_mean"])   # constant-liar batch after the last fit
    elif not case["fail"] and surrogate != "GP" and kind == "aligned" and not case.get("bounds") and rng.random() < 0.3:
        # one-shot / q-acquisition batch after the last fit (every candidate observed, kappa = 0, interpolating forest)
        strat = rng.choice(["topk", "topk", "boltzmann", "qUCB", "qUCBd"])
        case["interp"] = True
        case["batch"] = {"strategy": strat, "n": 24 if strat == "boltzmann" else rng.choice([2, 3, 5])}
    return case


def _variant(case, which, rng_seed):
    """shifted / rescaled copy of the objectives (same everything else); None when the floats would no longer be distinct"""
    r = np.random.RandomState(rng_seed)
    m = len(case["objs"][0])
    c = dict(case)
    if which == "shift":
        mag = max(abs(v) for row in case["objs"] for v in row) + min(1.0, max(abs(v) for row in case["objs"] for v in row))
        vec = [float(r.choice([-3.0, -1.0, 1.0, 3.0]) * mag) for _ in range(m)]
        c["objs"] = [[row[i] + vec[i] for i in range(m)] for row in case["objs"]]
        c["variant"] = {"shift": vec}
    else:
        f = float(r.choice(FACTORS))
        c["objs"] = [[row[i] * f for i in range(m)] for row in case["objs"]]
        c["variant"] = {"scale": f}
    if not all(np.isfinite(v) and (v == 0 or abs(v) > 1e-290) for row in c["objs"] for v in row):
        return None
    if case["kind"] == "aligned" and not _consistent(c["objs"], case["scores"]):
        return None
    return c


# --------------------------------------------------------------------------- real code + observation

_TABLE = {}


async def _run_function(job):
    return _TABLE[int(job.parameters["a"])]


class _Spies:
    def __init__(self):
        import deephyper.skopt.optimizer.optimizer as om
        import deephyper.skopt.space.space as sp
        import deephyper.skopt.moo as moo

        self.om, self.sp, self.moo = om, sp, moo
        self.rec = {"fit": [], "acq": [], "rvs": [], "scal": [], "spy_error": [], "lies": [], "lie_flag": False}

    def __enter__(self):
        om, sp, moo, rec = self.om, self.sp, self.moo, self.rec
        self._clone, self._acq, self._rvs = om.clone, om._gaussian_acquisition, sp.Space.rvs
        self._moo = dict(moo.moo_functions)

        def clone_spy(est, **kw):
            e = self._clone(est, **kw)
            f = e.fit

            def fit(X, y, *a, **k):
                try:
                    last = rec["scal"][-1] if rec["scal"] else None
                    rec["fit"].append({"y": np.array(y, dtype=float).tolist(), "w": last and last["w"], "u": last and last["u"]})
                except Exception as e:
                    rec["spy_error"].append("fit spy: " + repr(e))
                return f(X, y, *a, **k)

            e.fit = fit
            return e

        def acq_spy(*args, **kwargs):
            v = self._acq(*args, **kwargs)
            try:  # observation only: whatever the signature is today, never let the spy break the code under test
                import inspect

                b = inspect.signature(self._acq).bind(*args, **kwargs)
                b.apply_defaults()
                X, model, acq_func = b.arguments["X"], b.arguments["model"], b.arguments["acq_func"]
                kwa = b.arguments.get("acq_func_kwargs") or {}
                if acq_func.endswith("d") and acq_func != "gp_hedged":
                    mu, _, sd = model.predict(X, return_std=True, disentangled_std=True)
                else:
                    mu, sd = model.predict(X, return_std=True)
                cands = rec["rvs"][-1] if rec["rvs"] else []
                rec["acq"].append({"mu": np.array(mu, dtype=float).tolist(), "sd": np.array(sd, dtype=float).tolist(),
                                   "kappa": float(kwa.get("kappa", 1.96)), "acq_func": acq_func, "y_opt": None if b.arguments.get("y_opt") is None else float(b.arguments["y_opt"]),
                                   "values": np.array(v, dtype=float).tolist(), "cands": [int(x[0]) for x in cands]})
            except Exception as e:
                rec["spy_error"].append("acquisition spy: " + repr(e))
            return v

        def rvs_spy(this, *a, **k):
            r = self._rvs(this, *a, **k)
            try:
                rec["rvs"].append([list(x) for x in r])
            except Exception as e:
                rec["spy_error"].append("rvs spy: " + repr(e))
            return r

        def wrap(cls):
            class Spy(cls):
                def scalarize(this, y):
                    out = cls.scalarize(this, y)
                    try:
                        up = getattr(this, "_utopia_point", None)
                        rec["scal"].append({"w": np.array(this._weight, dtype=float).tolist(),
                                            "u": None if up is None else np.array(up, dtype=float).tolist()})
                    except Exception as e:
                        rec["spy_error"].append("scalarize spy: " + repr(e))
                    return out
            Spy.__name__ = cls.__name__
            return Spy

        self._otell = om.Optimizer._tell

        def tell_spy(this, x, y, *a, **k):
            try:
                if rec["lie_flag"] and not (len(x) > 0 and isinstance(x[0], (list, tuple))):
                    rec["lies"].append(np.asarray(y, dtype=float).tolist())
            except Exception as e:
                rec["spy_error"].append("lie spy: " + repr(e))
            return self._otell(this, x, y, *a, **k)

        om.Optimizer._tell = tell_spy
        om.clone, om._gaussian_acquisition, sp.Space.rvs = clone_spy, acq_spy, rvs_spy
        for k in list(moo.moo_functions):
            moo.moo_functions[k] = wrap(self._moo[k])
        return self

    def __exit__(self, *a):
        self.om.clone, self.om._gaussian_acquisition, self.sp.Space.rvs = self._clone, self._acq, self._rvs
        self.om.Optimizer._tell = self._otell
        for k, v in self._moo.items():
            self.moo.moo_functions[k] = v


def _objective(case, c):
    if c in case.get("fail", []):
        return "F"
    o = case["objs"][c]
    return float(o[0]) if case["nobj"] == 0 else tuple(float(v) for v in o)


def _observe(case):
    """run the real search history of one case; returns plain data (picklable)"""
    import warnings

    warnings.filterwarnings("ignore")
    from deephyper.evaluator import Evaluator
    from deephyper.hpo import CBO, HpProblem
    from deephyper.skopt.utils import cook_objective_scaler
    from deephyper.skopt.learning import RandomForestRegressor

    K = case["K"]
    n_init = case.get("n_init", K)
    rounds = case.get("rounds", [])
    _TABLE.clear()
    for c in range(K):
        _TABLE[c] = _objective(case, c)
    problem = HpProblem()
    problem.add_hyperparameter((0, K - 1), "a")
    tmp = tempfile.mkdtemp(prefix="c05_")
    out = {"error": None}
    try:
        with _Spies() as spies:
            ev = Evaluator.create(_run_function, method="serial")
            kw = dict(INTERP_KW) if case["interp"] else ({"n_estimators": 25} if case["surrogate"] != "GP" else None)
            strategy = case["strategy"]
            if case.get("strategy_obj"):
                strategy = spies.moo.moo_functions[case["strategy"]](n_objectives=max(case["nobj"], 1), weight=case["weights"],
                                                                     random_state=case["seed"])
            search = CBO(
                problem, ev, random_state=case["seed"], log_dir=tmp, verbose=0,
                surrogate_model=case["surrogate"], surrogate_model_kwargs=kw,
                acq_func=case["acq"], kappa=0.0, xi=0.0, acq_optimizer="sampling",
                scheduler={"type": "periodic-exp-decay", "period": 10, "rate": 0.0},
                n_initial_points=int(case.get("n_initial_points", n_init)), initial_points=[{"a": int(a)} for a in case["order"][:n_init]],
                n_points=60 + 10 * K, filter_duplicated=False, objective_scaler=case["scaler"],
                moo_scalarization_strategy=strategy, moo_scalarization_weight=case["weights"],
                filter_failures=case.get("ff", "min"), moo_lower_bounds=case.get("bounds"),
                multi_point_strategy=case.get("lies") or (case.get("batch") or {}).get("strategy") or "cl_max",
            )
            if case.get("route") == "fit_surrogate":
                import pandas as pd

                fails = set(case.get("fail", []))
                # as read from results.csv: with failed rows the objective columns are strings
                cell = (lambda a, i: "F" if a in fails else repr(float(case["objs"][a][i]))) if fails else (lambda a, i: float(case["objs"][a][i]))
                cols = {"p:a": [int(a) for a in case["order"]]}
                if case["nobj"] == 0:
                    cols["objective"] = [cell(a, 0) for a in case["order"]]
                else:
                    for i in range(case["nobj"]):
                        cols[f"objective_{i}"] = [cell(a, i) for a in case["order"]]
                search.fit_surrogate(pd.DataFrame(cols))
                # fit_surrogate tells the valid rows first, then the failed ones
                told = [int(a) for a in case["order"] if a not in fails] + [int(a) for a in case["order"] if a in fails]
            else:
                res = search.search(max_evals=n_init)
                told = [int(v) for v in res["p:a"].tolist()]
            proposals = [int(search.ask(1)[0]["a"])]
            for rnd in rounds:
                search.tell([({"a": int(c)}, _objective(case, c)) for c in rnd])
                told += [int(c) for c in rnd]
                proposals.append(int(search.ask(1)[0]["a"]))
            rec = spies.rec
            nf, na = len(rec["fit"]), len(rec["acq"])
            if case.get("lies"):
                rec["lie_flag"] = True
                out["lie_batch"] = [int(x["a"]) for x in search.ask(3)]
                rec["lie_flag"] = False
                out["lies"] = rec["lies"]
            if case.get("batch"):
                nr = len(rec["rvs"])
                out["batch"] = [int(x["a"]) for x in search.ask(int(case["batch"]["n"]))]
                out["batch_fresh"] = [int(x[0]) for x in rec["rvs"][-1]] if len(rec["rvs"]) > nr else None
            out["told_a"] = told
            out["proposals"] = proposals
            out["fits"] = rec["fit"][:nf]      # the constant-liar batch refits copies of the optimizer: not part of the history
            out["acqs"] = rec["acq"][:na]
            out["spy_error"] = rec["spy_error"][:3]
            # the scaled history at every fit, from the repo's own scaler factory (public function), on the
            # successful told values of that moment
            forest = case["surrogate"] in ("RF", "ET")
            out["scaled"], out["ub_scaled"] = [], []
            for f in rec["fit"][:nf]:
                rows = [[-float(v) for v in case["objs"][c]] for c in told[: len(f["y"])] if c not in case.get("fail", [])]
                if not rows:
                    out["scaled"].append([])
                    out["ub_scaled"].append([])
                    continue
                scl = cook_objective_scaler(case["scaler"], RandomForestRegressor() if forest else None)
                arr = np.asarray(rows, dtype=float)
                out["scaled"].append(np.asarray(scl.fit(arr).transform(arr), dtype=float).tolist())
                if case.get("bounds"):
                    ub = [m if b is None else -float(b) for m, b in zip(arr.max(axis=0).tolist(), case["bounds"])]
                    out["ub_scaled"].append(np.asarray(scl.transform(np.asarray([ub], dtype=float))[0], dtype=float).tolist())
                else:
                    out["ub_scaled"].append([])
            try:
                ev.close()
            except Exception:
                pass
    except HarnessError:
        raise
    except Exception as e:  # the real code raised: the oracle decides what that means
        import traceback

        out["error"] = f"{type(e).__name__}: {e}"
        out["trace"] = traceback.format_exc()[-1500:]
    finally:
        shutil.rmtree(tmp, ignore_errors=True)
    return out


class _Quiet:
    """no BLAS/OpenMP oversubscription (16 workers x 16 threads), no warning chatter from the code under test"""

    def __enter__(self):
        import warnings
        from threadpoolctl import threadpool_limits

        self._show = warnings.showwarning
        warnings.showwarning = lambda *a, **k: None
        self._lim = threadpool_limits(limits=1)
        self._lim.__enter__()
        return self

    def __exit__(self, *a):
        import warnings

        self._lim.__exit__(*a)
        warnings.showwarning = self._show


def _observe_safe(case):
    try:
        with _Quiet():
            return _observe(case)
    except HarnessError as e:
        return {"harness_error": str(e)}


def _observe_mono_safe(case):
    with _Quiet():
        out = _observe_mono(case)
        if case.get("pair_offset_mult") is not None and not out["error"]:
            c2 = dict(case)
            c2["offset_mult"] = case["pair_offset_mult"]
            o2 = _observe_mono(c2)
            out["a_shift"], out["error_shift"] = o2.get("a"), o2["error"]
        return out


# --------------------------------------------------------------------------- judging


def _eff_scaler(case, names):
    i = names["keys"].index(case["scaler"])
    return (names["scaler_forest"] if case["surrogate"] in ("RF", "ET") else names["scaler_other"])[i]


def _request(case, obs, eff, i):
    f, a = obs["fits"][i], obs["acqs"][i]
    n = len(f["y"])
    ids = obs["told_a"][:n]
    fail = set(case.get("fail", []))
    told = [None if c in fail else [rat(-float(v)) for v in case["objs"][c]] for c in ids]
    pos = {c: k for k, c in enumerate(ids)}
    w = f["w"] if f["w"] is not None else [1.0] * max(case["nobj"], 1)
    req = {"op": "case", "single": case["nobj"] == 0, "told": told,
           "scaler": {"identity": "identity", "minmax": "minmax"}.get(eff, "given"),
           "strategy": case["strategy"], "param": rat(PARAM[case["strategy"]]), "w": [rat(v) for v in w],
           "cands": [pos.get(c, n) for c in a["cands"]], "mu": [rat(v) for v in a["mu"]],
           "sd": [rat(v) for v in a["sd"]], "kappa": rat(a["kappa"]), "ff": case.get("ff", "min"), "maxf": 100}
    if req["scaler"] == "given":
        req["scaled"] = [[rat(v) for v in r] for r in obs["scaled"][i]]
    if case.get("bounds"):
        req["bounds"] = [None if b is None else rat(-float(b)) for b in case["bounds"]]
        req["ub_scaled"] = [rat(v) for v in obs["ub_scaled"][i]]
    return req


def _close(a, b, scale, rel=1e-9):
    return abs(a - b) <= rel * max(scale, 1e-300)


def _fp(clause, case, eff, entry="CBO.ask", extra=""):
    opts = f"scaler={eff}"
    if case["nobj"] >= 1:
        opts += f",strategy={case['strategy']}"
    else:
        opts += ",single-objective"
    return f"C05|{clause}|{entry}|{opts}{extra}"


def _cond(rows):
    """conditioning of "subtract the column minimum" (utopia point / MinMaxScaler's X*scale + min_) in doubles:
    an offset that is large against the column range costs eps*|y|/range of relative accuracy"""
    cond = 1.0
    for j in range(len(rows[0])):
        col = [r[j] for r in rows]
        rng_j = max(col) - min(col)
        if rng_j > 0:
            cond = max(cond, max(abs(v) for v in col) / rng_j)
    return cond


def _judge_fit(ck, case, obs, rep, eff, i, failed_before, pending):
    """one surrogate fit of the history; returns (score of the proposal, best score) when the maximality oracle applied"""
    f, a = obs["fits"][i], obs["acqs"][i]
    y_fit = f["y"]
    n = len(y_fit)
    ids = obs["told_a"][:n]
    fail = set(case.get("fail", []))
    pos = {c: k for k, c in enumerate(ids)}
    succ = [c for c in ids if c not in fail]
    later = ",later-fit" if i >= 1 else ""
    ffx = f",filter_failures={case.get('ff', 'min')}"
    ck.count(f"fit:{'first' if i == 0 else 'later'}{'+failures' if any(c in fail for c in ids) else ''}")
    if not succ:
        return None
    rows = [[-float(v) for v in case["objs"][c]] for c in succ]
    cond = _cond(rows)
    if case.get("bounds") and f["u"]:
        # the penalty of the region of interest is added to every component and removed again with the utopia point:
        # the same cancellation, now with the penalty's magnitude against the spread of the targets
        spread = max(y_fit) - min(y_fit)
        if spread > 0:
            cond = max(cond, max(abs(v) for v in f["u"]) / spread)
    rel = 1e-9 + 64 * EPS * cond
    ck.count("cond:" + ("<1e3" if cond < 1e3 else "<1e6" if cond < 1e6 else ">=1e6"))
    # ---- L2: targets of this fit, from the full history at this moment
    tg = rep["targets"]
    if tg is None:
        ck.mismatch(case, {"what": "model has no targets (error branch: " + rep.get("targets_err", "") + ") but the implementation fitted", "fit": i})
        tg = None
    else:
        tg = [float(unrat(v)) for v in tg]
        scale = max(max(abs(v) for v in tg), max(abs(v) for v in y_fit))
        bad = len(tg) != n or not all(_close(x, y, scale, rel) for x, y in zip(tg, y_fit))
        if not rep["contract"]:
            ck.mismatch(case, {"what": "the repo's quantile-uniform scaler is not an order-preserving map into [0,1] on this history "
                                       "(assumption of the model broken)", "fit": i, "scaled": obs["scaled"][i]})
        if bad:
            pre = [float(unrat(v)) for v in rep["pre_targets"]] if rep.get("pre_targets") else None
            ck.mismatch(case, {"what": "fitted targets differ from the model's", "fit": i, "told": ids, "impl": y_fit, "model": tg,
                               "weights": f["w"], "utopia_impl": f["u"], "filter_failures": case.get("ff", "min"),
                               "ff_internal_model": rep.get("ff_internal")})
            ck.count("L2:targets-differ" + (":impl=pre-fix-model" if pre and len(pre) == n and all(_close(x, y, scale, rel) for x, y in zip(pre, y_fit)) else ""))
    scale = max(abs(v) for v in y_fit) or 1.0
    # ---- L2: acquisition and arg-min
    acq = [float(unrat(v)) for v in rep["acq"]]
    vals = a["values"]
    ascale = max(max(abs(v) for v in vals), 1e-300)
    if len(acq) != len(vals) or not all(_close(x, y, ascale, 1e-12) for x, y in zip(acq, vals)):
        ck.mismatch(case, {"what": "acquisition values differ from mu - kappa*std", "kappa": a["kappa"], "fit": i})
    if a.get("y_opt") is not None and not _close(a["y_opt"], min(y_fit), scale, 1e-12):
        ck.mismatch(case, {"what": "the incumbent y_opt passed to the acquisition is not the minimum of the fitted targets", "y_opt": a["y_opt"],
                           "min_target": min(y_fit), "max_target": max(y_fit), "fit": i})
    if a["kappa"] != 0.0:
        ck.mismatch(case, {"what": "kappa reaching the acquisition is not the 0 that was configured", "kappa": a["kappa"]})
    if a["acq_func"] != {"UCB": "LCB", "UCBd": "LCBd"}[case["acq"]]:
        ck.mismatch(case, {"what": "acquisition name not mapped UCB->LCB", "got": a["acq_func"]})
    choice = rep["choice"]
    cand = a["cands"]
    prop = obs["proposals"][i]
    if choice is None or len(cand) != len(vals) or cand[choice] != prop:
        ck.mismatch(case, {"what": "proposal is not the first arg-min candidate of the acquisition", "fit": i,
                           "proposal": prop, "model_choice": None if choice is None or len(cand) != len(vals) else cand[choice]})
    # ---- L3: the property on the implementation's own outputs
    # with a region of interest (moo_lower_bounds) the penalised rows are still ordered by the score, which is what the
    # monotone strategies need (C05_bounds_penalty_monotone); PBI / Quadratic are then only compared with the model
    score = case["scores"] if case["kind"] == "aligned" and (not case.get("bounds") or case["strategy"] in MONOTONE) else None
    tmin_s = min(y_fit[pos[c]] for c in succ)
    tmax_s = max(y_fit[pos[c]] for c in succ)
    base_detail = {"fit": i, "told": ids, "failed_configurations": sorted(fail & set(ids)), "fitted_targets_by_candidate": {c: y_fit[pos[c]] for c in ids},
                   "objectives": {c: case["objs"][c] for c in ids if c not in fail}, "weights": f["w"], "utopia": f["u"], "effective_scaler": eff}
    # (a) the fitted targets rank the successful observations by score
    if score is not None and len(succ) >= 2:
        srt = sorted(succ, key=lambda c: score[c])
        gaps = [score[b] - score[a_] for a_, b in zip(srt, srt[1:])]
        delta = min(gaps) / (score[srt[-1]] - score[srt[0]])
        if 64 * EPS * cond >= 0.01 * delta * delta:
            ck.count("antitone:skipped-ill-conditioned")
        else:
            ck.count("antitone:checked")
            for a_, b in zip(srt, srt[1:]):
                if not y_fit[pos[b]] < y_fit[pos[a_]]:
                    d = dict(base_detail)
                    d.update({"better": {"candidate": b, "score": score[b], "target": y_fit[pos[b]]},
                              "worse": {"candidate": a_, "score": score[a_], "target": y_fit[pos[a_]]}})
                    if "targets-not-antitone" not in failed_before:
                        ck.fail(_fp("targets-not-antitone", case, eff, "Optimizer.tell", later),
                                "an observation with larger objective(s) does not get a strictly smaller fitted target", case, d)
                    failed_before.add("targets-not-antitone")
                    break
    # (b) failed evaluations are never ranked first
    for c in ids:
        if c in fail:
            t = y_fit[pos[c]]
            if t < tmin_s - 1e-12 * scale or (tmax_s - tmin_s > 1e-9 * scale and t <= tmin_s + 1e-12 * scale):
                d = dict(base_detail)
                d.update({"failed_candidate": c, "its_target": t, "best_successful_target": tmin_s, "worst_successful_target": tmax_s})
                ck.fail(_fp("failed-config-ranked-first", case, eff, "Optimizer.tell", ffx),
                        "a failed configuration gets a fitted target at least as good as the best successful one", case, d)
                break
    # (c) the proposal
    present = sorted(set(cand))
    if not set(present) <= set(ids):
        ck.count("proposal:unobserved-candidates-sampled")
        return None
    tmin = min(y_fit[pos[c]] for c in present)
    k_hat = int(np.argmin(np.asarray(vals)))
    contract_met = _close(y_fit[pos[cand[k_hat]]], tmin, scale, 1e-12)
    ck.count("surrogate-contract:" + ("met" if contract_met else "not-met"))
    if prop not in pos:
        ck.fail(_fp("proposal-outside-candidates", case, eff), "proposal is not one of the candidates", case, {"proposal": prop})
        return None
    succ_present = [c for c in present if c not in fail]
    detail = dict(base_detail)
    detail.update({"proposal": prop})
    if not contract_met or not succ_present:
        return None
    if (fail & set(ids)) and tmax_s - tmin_s <= 1e-9 * scale:
        # every success has the same target (e.g. a single success): the imputed value ties with it by definition of the "min" / "mean"
        # policies, the arg-min among ties is arbitrary (C05_failures_choice: a failed proposal implies such a tie)
        ck.count("proposal:all-successes-tie-with-the-failures")
        return None
    if score is not None:
        # verdict by the verified checker `checkChoice` (theorem C05_checker) on the real proposal
        best = max(score[c] for c in succ_present)
        py_ok = prop not in fail and score[prop] == best
        detail.update({"score_of_proposal": score[prop], "best_score": best, "best_candidate": [c for c in succ_present if score[c] == best]})
        req = {"op": "choice", "score": [rat(v) for v in score], "succ": [c not in fail for c in range(case["K"])],
               "cands": [int(c) for c in present], "chosen": int(prop)}

        def verdict(rep, case=case, detail=detail, prop=prop, py_ok=py_ok):
            if bool(rep["check"]) != py_ok:
                raise HarnessError(f"checkChoice ({rep['check']}) and the harness's own evaluation ({py_ok}) disagree on {detail}")
            ck.count("checkChoice:" + ("accepted" if rep["check"] else "rejected"))
            if rep["check"]:
                return
            if prop in fail:
                ck.fail(_fp("proposed-failed-config", case, eff, "CBO.ask", ffx),
                        "a failed configuration is proposed although successful ones exist", case, detail)
            elif "chosen-not-max" not in failed_before:
                ck.fail(_fp("chosen-not-max", case, eff, "CBO.ask", later), "with every candidate observed and kappa=0 the proposal is not the "
                        "successful candidate of largest objective(s)", case, detail)
                failed_before.add("chosen-not-max")

        pending.append((req, verdict))
        return (score[prop], best) if prop not in fail else None
    if prop in fail:
        ck.fail(_fp("proposed-failed-config", case, eff, "CBO.ask", ffx),
                "a failed configuration is proposed although successful ones exist", case, detail)
        return None
    if case["strategy"] in MONOTONE and (f["w"] is None or all(v >= 0 for v in f["w"])):
        po = case["objs"][prop]
        for c in succ_present:
            if all(x > y for x, y in zip(case["objs"][c], po)):
                detail.update({"dominating_candidate": c, "its_objectives": case["objs"][c], "objectives_of_proposal": po})
                ck.fail(_fp("proposal-beaten-in-every-objective", case, eff),
                        "another observed candidate is strictly better in every objective than the proposal", case, detail)
                break
    return None


def _judge_batch(ck, case, obs, eff):
    """a batch asked with a one-shot (topk, boltzmann) or q-acquisition (qUCB, qUCBd) strategy after the last fit: every candidate
    observed, kappa = 0, interpolating forest, objectives aligned with a score.  The candidate SAMPLE contains every candidate many
    times, so "the k best" is meant as a multiset over the sample."""
    strat, k = case["batch"]["strategy"], int(case["batch"]["n"])
    batch = obs["batch"]
    a = obs["acqs"][-1]
    cands, vals = a["cands"], a["values"]
    score = case["scores"]
    told = set(obs["told_a"])
    ck.count(f"batch:{strat}")
    fp = f"C05|batch-not-the-best|CBO.ask(n>1)|multi_point_strategy={strat}"
    if len(batch) != k or not set(batch) <= told or not set(cands) <= told or len(cands) != len(vals):
        ck.mismatch(case, {"what": "batch ask: unexpected batch size / unobserved candidates", "batch": batch, "n": k})
        return
    val_of = {}
    for c, v in zip(cands, vals):
        val_of.setdefault(c, v)
    # contract of the surrogate as observed: its predictions order the candidates like their scores (an interpolating forest does,
    # unless the targets are so close that the trees no longer split them)
    ids = sorted(val_of, key=lambda c: score[c])
    faithful = all(val_of[x] > val_of[y] for x, y in zip(ids, ids[1:]))
    ck.count("batch:surrogate-contract:" + ("met" if faithful else "not-met"))
    detail = {"strategy": strat, "batch": batch, "scores_of_batch": [score[c] for c in batch], "best_scores_in_the_sample": sorted((score[c] for c in cands), reverse=True)[:k],
              "last_proposal": obs["proposals"][-1]}
    if strat == "topk":
        if not all(c in val_of for c in batch) or sorted(val_of[c] for c in batch) != sorted(vals)[:k]:
            ck.mismatch(case, {"what": "topk batch is not the k smallest acquisition values of the last candidate sample", "batch": batch,
                               "batch_values": [val_of.get(c) for c in batch], "smallest": sorted(vals)[:k]})
        if faithful and sorted((score[c] for c in batch), reverse=True) != sorted((score[c] for c in cands), reverse=True)[:k]:
            ck.fail(fp, "with every candidate observed and kappa=0 a topk batch of k is not made of the k best candidates of the sample", case, detail)
    elif strat in ("qUCB", "qUCBd"):
        fresh = obs.get("batch_fresh")
        if fresh is None or not set(fresh) <= told:
            ck.mismatch(case, {"what": "qUCB batch: the fresh candidate sample was not observed", "fresh": fresh and fresh[:20]})
            return
        want = sorted((score[c] for c in fresh), reverse=True)[: k - 1]
        detail["best_scores_in_the_fresh_sample"] = want
        # (the first member is the optimizer's current next point; since "ask again before any tell returns new configurations" it need
        # not be the configuration the preceding ask(1) returned, so only its score is judged)
        if faithful and (score[batch[0]] != max(score[c] for c in cands) or sorted((score[c] for c in batch[1:]), reverse=True) != want):
            ck.fail(fp, "with every candidate observed and kappa=0 a qUCB batch is not made of the best candidates", case, detail)
    else:  # boltzmann: the first member is the best candidate, the draws favour larger objectives
        rest = [score[c] for c in batch[1:]]
        pop = [score[c] for c in cands]
        mu_u = sum(pop) / len(pop)
        sd_u = (sum((x - mu_u) ** 2 for x in pop) / len(pop)) ** 0.5
        z = (sum(rest) / len(rest) - mu_u) / (sd_u / len(rest) ** 0.5) if sd_u > 0 else 0.0
        ck.count("batch:boltzmann:z" + (">=2" if z >= 2 else ">=0" if z >= 0 else "<0"))
        detail["z_of_the_draws_against_uniform"] = z
        if not faithful:
            return
        if score[batch[0]] != max(score[c] for c in cands):
            ck.fail(fp, "the first member of a boltzmann batch is not the best candidate", case, detail)
        elif z < -1.5:
            ck.fail(f"C05|batch-favours-small-objectives|CBO.ask(n>1)|multi_point_strategy={strat}",
                    "the boltzmann draws favour candidates with SMALLER objectives than a uniform draw would", case, detail)


def _judge_lies(ck, case, obs, eff, pending):
    """constant-liar batch after the last fit: the lies told to the optimizer copy (internal, negated scale) vs the model's
    `lieInternal (mapMultiPoint name)`, and — the direction — vs the max / mean / min of the OBJECTIVES the user-facing name promises"""
    name = case["lies"]
    lies = obs.get("lies") or []
    ck.count(f"lies:{name}:{len(lies)}")
    if len(lies) != 2:
        ck.mismatch(case, {"what": "expected 2 constant-liar lies for ask(3)", "seen": lies})
        return
    m = max(case["nobj"], 1)
    cols = [[-float(case["objs"][c][j]) for c in obs["told_a"]] for j in range(m)]
    user = {"cl_max": max, "cl_min": min, "cl_mean": lambda v: sum(v) / len(v)}[name]
    for k, lie in enumerate(lies):
        got = lie if isinstance(lie, list) else [lie]
        cur = [list(c) for c in cols]
        req = {"op": "lie", "strategy": name, "cols": [[rat(v) for v in c] for c in cur]}
        want_user = [user([-v for v in c]) for c in cur]

        def verdict(rep, got=got, want_user=want_user, k=k, case=case):
            model = [float(unrat(v)) for v in rep["lie"]]
            sc = max(max(abs(v) for v in model), 1e-300)
            if len(model) != len(got) or not all(_close(a, b, sc, 1e-12) for a, b in zip(model, got)):
                ck.mismatch(case, {"what": "constant-liar lie differs from lieInternal(mapMultiPoint name)", "k": k, "impl": got, "model": model,
                                   "internal_name": rep["internal"]})
            if not all(_close(-a, b, sc, 1e-12) for a, b in zip(got, want_user)):
                ck.fail(_fp("constant-liar-direction", case, eff, "CBO.ask(n>1)", f",multi_point_strategy={case['lies']}"),
                        f"the lie of '{case['lies']}' is not the {case['lies'][3:]} of the observed objectives", case,
                        {"lie_as_objective": [-a for a in got], "expected": want_user, "k": k})

        pending.append((req, verdict))
        cols = [c + [g] for c, g in zip(cols, got)]


def _judge(ck, case, obs, reps, eff, pending):
    K = case["K"]
    ck.count(f"surrogate:{case['surrogate']}{'+interp' if case['interp'] else ''}")
    ck.count(f"scaler:{case['scaler']}->{eff}")
    ck.count(f"strategy:{case['strategy'] if case['nobj'] >= 1 else 'single'}")
    ck.count(f"nobj:{case['nobj']}")
    ck.count(f"kind:{case['kind']}/{case['sign']}")
    ck.count("weights:" + ("none" if case["nobj"] == 0 else "random" if case["weights"] is None else "uniform" if case["weights"] == "uniform" else "fixed")
             + ("+strategy-object" if case.get("strategy_obj") else ""))
    ck.count("history:" + ("failures/" + case.get("ff", "min") if case.get("fail") else f"fits={1 + len(case.get('rounds', []))}"))
    ck.count("route:" + case.get("route", "search") + ("+bounds" if case.get("bounds") else ""))
    mags = [abs(v) for r in case["objs"] for v in r if v != 0]
    ck.count("magnitude:" + ("<=1e-4" if max(mags) <= 1e-4 else ">=1e6" if max(mags) >= 1e6 else "moderate"))
    if sorted(obs["told_a"]) != list(range(K)):
        ck.mismatch(case, {"what": "the history did not evaluate exactly the candidates", "told": obs["told_a"]})
        return None
    if obs["told_a"] != [int(a) for a in case["order"]]:
        ck.mismatch(case, {"what": "points were not evaluated in the given order", "told": obs["told_a"]})
    nfit = len(reps)
    if not (len(obs["fits"]) == len(obs["acqs"]) == len(obs["proposals"]) == 1 + len(case.get("rounds", []))):
        ck.mismatch(case, {"what": "unexpected number of surrogate fits / acquisitions", "fits": len(obs["fits"]), "acqs": len(obs["acqs"]),
                           "rounds": 1 + len(case.get("rounds", []))})
    if case.get("lies"):
        _judge_lies(ck, case, obs, eff, pending)
    if case.get("batch") and obs.get("batch") is not None and obs["acqs"]:
        _judge_batch(ck, case, obs, eff)
    out = None
    failed_before = set()
    for i in range(nfit):
        out = _judge_fit(ck, case, obs, reps[i], eff, i, failed_before, pending)
    return out


# --------------------------------------------------------------------------- monotone-problem runs


def _monotone_case(rng, t):
    """(a) `climb`: 8 fixed initial points in the lower 55 % of 0..K-1 (best well below the maximiser), identity scaler
    (explicit, or `auto` with GP), every strategy — distance-based ones most often — x {ET, GP};
    (b) random initial points over the whole range, whole matrix."""
    r = t % 12
    init_q = (0.025, 0.1, 0.175, 0.25, 0.325, 0.4, 0.475, 0.55)
    if r < 8:
        K = rng.choice([101, 201])
        init = [int(round((K - 1) * q)) for q in init_q]
        if r < 6:
            sur = "ET" if r < 4 else "GP"
            # GP + Quadratic is left to ET: with quadratically growing targets the GP mean reverts to its prior beyond the data and
            # the climb rate becomes a property of the surrogate (10-70 % of the way in 20 steps on correct code), not of the direction;
            # that combination stays covered by the surrogate-independent clauses at every fit of the multi-fit histories
            strat = DISTANCE[r] if r < 4 else DISTANCE[:3][((t // 12) * 2 + (r - 4)) % 3]
            if rng.random() < 0.1:
                strat = "Linear"
            return {"mono": True, "climb": True, "surrogate": sur, "scaler": "auto" if sur == "GP" and rng.random() < 0.5 else "identity",
                    "strategy": strat, "nobj": rng.choice([2, 2, 3]), "K": K,
                    "sign": ["pos", "neg", "mixed"][(t // 2) % 3], "seed": rng.randrange(1 << 20), "init": init,
                    "offset_mult": rng.choice([0, 0, 1000, -1000]), "n_evals": 8 + (20 if sur == "GP" else 24)}
        # the same partially observed problem with the objective f and with f + c, c = +-1000 x spread (single objective: no utopia
        # subtraction, identity scaler: the surrogate sees the raw offset); both runs must keep climbing
        sur = "GP" if r == 6 else rng.choice(["ET", "RF"])
        return {"mono": True, "climb": True, "surrogate": sur, "scaler": "auto" if sur == "GP" and rng.random() < 0.5 else "identity",
                "strategy": "Chebyshev", "nobj": 0 if rng.random() < 0.7 else 2, "K": K, "sign": "mixed", "seed": rng.randrange(1 << 20), "init": init,
                "offset_mult": 0, "pair_offset_mult": rng.choice([1000, -1000]), "n_evals": 8 + (20 if sur == "GP" else 24)}
    # random initial points over 0..19, whole matrix; the other acquisition functions (none of them is exploitation-only:
    # EI / PI weigh the improvement by the predictive std, MES is information-based, gp_hedge mixes EI, LCB, PI) and
    # multi-worker searches with the batch strategies
    if r == 8:
        sur = SURROGATES[(t // 12) % 3]
        return {"mono": True, "surrogate": sur, "scaler": SCALERS[(t // 3) % 4], "strategy": STRATS[t % 5], "nobj": rng.choice([0, 2, 3]), "K": 20,
                "sign": ["pos", "neg", "mixed"][(t // 2) % 3], "seed": rng.randrange(1 << 20), "n_evals": 32 if sur == "GP" else 40, "acq": "UCB",
                "workers": 4, "mps": ["topk", "boltzmann", "qUCB", "topk", "cl_max", "qUCBd"][(t // 12) % 6] if sur != "GP" or (t // 12) % 6 != 5 else "topk"}
    acq = {9: "MES", 10: "gp_hedge", 11: rng.choice(["EI", "PI", "UCB"])}[r]
    sur = SURROGATES[(t // 12) % 3] if acq != "MES" or rng.random() < 0.5 else "ET"
    return {"mono": True, "surrogate": sur, "scaler": SCALERS[(t // 3) % 4], "strategy": STRATS[t % 5], "nobj": rng.choice([0, 2, 3]), "K": 20,
            "sign": ["pos", "neg", "mixed"][(t // 2) % 3], "seed": rng.randrange(1 << 20), "n_evals": 26 if sur == "GP" else 36, "acq": acq}


def _mono_objs(case):
    K, m = case["K"], max(case["nobj"], 1)
    off = {"pos": 50.0, "neg": -50.0 - K, "mixed": -K / 2.0}[case["sign"]]
    off += case.get("offset_mult", 0) * float(K - 1)   # a constant far from zero relative to the spread of the objective
    if case.get("climb"):   # (x, 2x+3, 3x+6, ...) plus the offsets
        return [[(i + 1) * float(a) + 3.0 * i + off * (i + 1) for i in range(m)] for a in range(K)]
    return [[(i + 1) * float(a) + off * (i + 1) for i in range(m)] for a in range(K)]


def _observe_mono(case):
    import warnings

    warnings.filterwarnings("ignore")
    from deephyper.evaluator import Evaluator
    from deephyper.hpo import CBO, HpProblem

    K, nobj = case["K"], case["nobj"]
    objs = _mono_objs(case)
    _TABLE.clear()
    for c in range(K):
        _TABLE[c] = float(objs[c][0]) if nobj == 0 else tuple(objs[c])
    problem = HpProblem()
    problem.add_hyperparameter((0, K - 1), "a")
    tmp = tempfile.mkdtemp(prefix="c05m_")
    out = {"error": None}
    try:
        ev = Evaluator.create(_run_function, method="serial", method_kwargs={"num_workers": int(case.get("workers", 1))})
        extra = {}
        if case.get("init"):
            extra = {"initial_points": [{"a": int(a)} for a in case["init"]]}
        if case.get("mps"):
            extra["multi_point_strategy"] = case["mps"]
        search = CBO(problem, ev, random_state=case["seed"], log_dir=tmp, verbose=0, surrogate_model=case["surrogate"],
                     surrogate_model_kwargs={"n_estimators": 25} if case["surrogate"] != "GP" else None,
                     acq_func=case.get("acq", "UCB"), acq_optimizer="sampling", n_initial_points=8, n_points=300 if case.get("climb") else 200,
                     filter_duplicated=False, objective_scaler=case["scaler"], moo_scalarization_strategy=case["strategy"],
                     moo_scalarization_weight=[1.0 / max(nobj, 1)] * max(nobj, 1) if nobj else None, **extra)
        res = search.search(max_evals=case["n_evals"])
        out["a"] = [int(v) for v in res.sort_values("job_id")["p:a"].tolist()] if "job_id" in res.columns else [int(v) for v in res["p:a"].tolist()]
        try:
            ev.close()
        except Exception:
            pass
    except Exception as e:
        import traceback

        out["error"] = f"{type(e).__name__}: {e}"
        out["trace"] = traceback.format_exc()[-1500:]
    finally:
        shutil.rmtree(tmp, ignore_errors=True)
    return out


def _judge_mono(ck, case, obs, eff):
    kind = "climb" if case.get("climb") else "mono"
    ck.count(f"{kind}:{case['surrogate']}/{eff}/{case['strategy'] if case['nobj'] else 'single'}/{case['sign']}")
    if obs["error"]:
        ck.fail(f"C05|raises|CBO.search|{obs['error'].split(':')[0]}", "search raised on a monotone problem", case, obs)
        return
    a = obs["a"]
    top = case["K"] - 1
    if case.get("climb"):
        init = case["init"]
        if a[: len(init)] != init:
            ck.mismatch(case, {"what": "the given initial points were not evaluated first", "evaluated": a[: len(init)]})
        best_init = max(init)
        thr0 = best_init + 0.2 * (top - best_init)
        if case.get("pair_offset_mult") is not None:
            # f and f + c (same seed): both searches must keep climbing
            if obs.get("error_shift"):
                ck.fail(f"C05|raises|CBO.search|{obs['error_shift'].split(':')[0]}", "search raised on a monotone problem with a large constant offset", case, obs)
                return
            b = obs["a_shift"]
            m0, m1 = sum(a[-6:]) / 6, sum(b[-6:]) / 6
            ck.count("climb-pair:" + ("same-sequence" if a == b else "both-climb" if m0 > thr0 and m1 > thr0 else "differ"))
            if m0 > thr0 and m1 <= thr0:
                ck.fail(f"C05|shift-breaks-the-climb|CBO.search|surrogate={case['surrogate']},scaler={eff}" + (",single-objective" if case["nobj"] == 0 else f",strategy={case['strategy']}"),
                        "adding a constant to the objective(s) of a partially observed monotone problem stops the search from reaching the maximiser", case,
                        {"offset": case["pair_offset_mult"] * (case["K"] - 1), "proposals_f": a, "proposals_f_plus_c": b, "late_mean_f": m0, "late_mean_f_plus_c": m1,
                         "best_initial_point": best_init, "maximiser": top, "threshold": thr0})
                return
        late = a[-6:]
        mean_late = sum(late) / len(late)
        # a search that keeps climbing has covered, at the end, well over 20 % of the way from the best initial point to
        # the maximiser (measured on correct code: >= 30 % in the slowest combination, GP + Quadratic, >= 80 % elsewhere);
        # a search pulled back to the best point of its first surrogate fit stays below 15 %
        thr = best_init + 0.2 * (top - best_init)
        ck.count("climb:late-mean>=0.9top" if mean_late >= 0.9 * top else "climb:late-mean<0.9top")
        if mean_late <= thr:
            ck.fail(_fp("stuck-below-maximiser", case, eff, "CBO.search"),
                    "on a monotone problem started far below the maximiser the late proposals stay near the best initial point", case,
                    {"proposals": a, "late_mean": mean_late, "best_initial_point": best_init, "maximiser": top, "threshold": thr})
        return
    late = a[-12:]
    mid = top / 2.0
    mean_late = sum(late) / len(late)
    acq = case.get("acq", "UCB")
    ck.count(f"mono:acq={acq}:" + ("late-mean>=0.75K" if mean_late >= 0.75 * top else "late-mean>mid" if mean_late > mid else "late-mean<=mid"))
    if acq in ("EI", "PI"):
        # improvement-based acquisitions explore wherever the predictive std is 0 at the observed points (fully grown forests):
        # exercised (must not raise), measured, not asserted
        return
    mps = case.get("mps")
    if mps:
        ck.count(f"mono:workers={case.get('workers', 1)},multi_point_strategy={mps}")
    # boltzmann keeps sampling over the whole range by design (measured late means 0.53-0.91 of the range on correct code)
    if mean_late <= (0.3 * top if mps == "boltzmann" else mid):
        # for a non-default acquisition / batch strategy the option the failure hangs on is that option (observed with every scaler / strategy)
        fp = (f"C05|concentrates-away-from-maximiser|CBO.search|multi_point_strategy={mps},workers>1" if mps else
              _fp("concentrates-away-from-maximiser", case, eff, "CBO.search") if acq == "UCB" else f"C05|concentrates-away-from-maximiser|CBO.search|acq_func={acq}")
        ck.fail(fp,
                "on a monotone problem (objective increasing in a) the late proposals concentrate in the lower half", case,
                {"proposals": a, "late_mean": mean_late, "midpoint": mid})


# --------------------------------------------------------------------------- continuous monotone problem, improvement-based acquisitions

_CONT = {}


async def _run_cont(job):
    return _CONT["scale"] * (float(job.parameters["x"]) + _CONT["offset"])


def _cont_case(rng, t):
    """f(x) = scale * (x + offset) on [0, 10], exploitation settings of every acquisition that has one (kappa = 0 / xi = 0, constant
    scheduler), forests; on a continuous domain the predictive std is > 0 between the observations, so EI / PI are informative"""
    r = t % 6
    sur, acq = [("RF", "PI"), ("RF", "PId"), ("RF", "EI"), ("RF", "EId"), ("ET", rng.choice(["PI", "EI", "PId", "EId"])),
                (rng.choice(["ET", "RF"]), rng.choice(["UCB", "UCBd"]))][r]
    return {"cont": True, "surrogate": sur, "acq": acq,
            "offset": rng.choice([-100.0, 50.0, 0.0, 1000.0, -5.0]), "scale": rng.choice([1.0, 0.01, 100.0]), "seed": rng.randrange(1 << 20),
            "n_evals": 40, "n_initial": 8}


def _const_scheduler(i, eta_0, **kwargs):
    return eta_0


def _observe_cont(case):
    import warnings

    warnings.filterwarnings("ignore")
    from deephyper.evaluator import Evaluator
    from deephyper.hpo import CBO, HpProblem

    _CONT.update({"scale": case["scale"], "offset": case["offset"]})
    problem = HpProblem()
    problem.add_hyperparameter((0.0, 10.0), "x")
    tmp = tempfile.mkdtemp(prefix="c05c_")
    out = {"error": None}
    try:
        with _Quiet():
            ev = Evaluator.create(_run_cont, method="serial")
            search = CBO(problem, ev, random_state=case["seed"], log_dir=tmp, verbose=0, surrogate_model=case["surrogate"],
                         acq_func=case["acq"], kappa=0.0, xi=0.0, scheduler=_const_scheduler, n_points=500, n_initial_points=case["n_initial"])
            res = search.search(max_evals=case["n_evals"])
            out["x"] = [float(v) for v in res.sort_values("job_id")["p:x"].tolist()]
            try:
                ev.close()
            except Exception:
                pass
    except Exception as e:
        import traceback

        out["error"] = f"{type(e).__name__}: {e}"
        out["trace"] = traceback.format_exc()[-1500:]
    finally:
        shutil.rmtree(tmp, ignore_errors=True)
    return out


def _judge_cont(ck, case, obs):
    ck.count(f"cont:{case['surrogate']}/{case['acq']}")
    if obs["error"]:
        ck.fail(f"C05|raises|CBO.search|{obs['error'].split(':')[0]},acq_func={case['acq']}", "search raised on a continuous monotone problem", case, obs)
        return
    late = sorted(obs["x"][-20:])
    med = (late[9] + late[10]) / 2.0
    share = sum(1 for v in late if v > CONT_HIGH) / len(late)
    ck.count(f"cont:{case['acq']}:" + ("median>9.8" if med > 9.8 else "median>8" if med > 8 else "median<=8"))
    if case["surrogate"] == "ET" and case["acq"] not in ("UCB", "UCBd"):
        # calibrated on main: with the fully grown ET forest the improvement-based acquisitions end anywhere between 7.5 and 10
        # (EI 8.1-10, PI 8.9-10, EId / PId 7.5-9.8): measured, not asserted.  RF: median >= 9.96 and >= 90 % above 9 in 150 runs.
        return
    if med <= CONT_MEDIAN or share < CONT_SHARE:
        ck.fail(f"C05|late-proposals-not-at-the-maximiser|CBO.search|acq_func={case['acq']},surrogate={case['surrogate']}",
                "on a continuous monotone problem the late proposals of an exploitation-only setting do not concentrate at the maximiser", case,
                {"median_of_last_20": med, "share_above_%g" % CONT_HIGH: share, "proposals": [round(v, 3) for v in obs["x"]]})


CONT_MEDIAN, CONT_HIGH, CONT_SHARE = 9.8, 9.0, 0.7


# --------------------------------------------------------------------------- name maps / tell stream


def _check_names(ck, d):
    import deephyper.hpo._cbo as cbo

    keys = ["UCB", "UCBd", "EI", "PI", "MES", "gp_hedge", "EId", "PId", "MESd", "gp_hedged", "cl_min", "cl_mean", "cl_max", "topk",
            "boltzmann", "qUCB", "qUCBd", "min", "mean", "max", "ignore", "auto", "identity", "minmax", "quantile-uniform", "log", "minmaxlog"]
    rep = d.ask({"op": "names", "keys": keys})
    rep["keys"] = keys
    # the tables are private module constants: when one is not there the map is simply not observable this way
    # (L2 mismatch, never a harness error); its EFFECT is still checked end to end (acquisition name reaching
    # _gaussian_acquisition, failure imputation in the fitted targets)
    want = {"acq": {"UCB": "LCB", "UCBd": "LCBd"}, "mp": {"cl_max": "cl_min", "cl_min": "cl_max", "qUCB": "qLCB", "qUCBd": "qLCBd"}, "ff": {"min": "max"}}
    attr = {"acq": "MAP_acq_func", "mp": "MAP_multi_point_strategy", "ff": "MAP_filter_failures"}
    for name in ("acq", "mp", "ff"):
        table = getattr(cbo, attr[name], None)
        if not isinstance(table, dict):
            ck.mismatch({"names": name}, {"what": f"name map _cbo.{attr[name]} is not observable (missing or not a dict)"})
            ck.count("names:not-observable")
            continue
        for k, got in zip(keys, rep[name]):
            ck.count("names")
            if table.get(k, k) != got:
                ck.mismatch({"names": name, "key": k}, {"impl": table.get(k, k), "model": got})
        if dict(table) != want[name]:
            ck.fail(f"C05|name-map|_cbo.{attr[name]}|", "a max<->min name map changed", {"names": name}, {"impl": dict(table), "want": want[name]})
    return rep


def _tell_stream(ck, d):
    """what CBO hands to Optimizer.tell for the documented objective forms (numbers, tuples, 'F...' failures)"""
    import deephyper.skopt as skopt
    from deephyper.evaluator import Evaluator
    from deephyper.hpo import CBO, HpProblem

    seen = []
    orig = skopt.Optimizer.tell

    def tell_spy(this, x, y, fit=True):
        seen.append((x, y))
        return orig(this, x, y, fit=fit)

    forms = [
        ("scalars", [1.5, -2.0, 3, 0.0, -0.0, 1e-300, 7]),
        ("scalars+F", [1.5, "F", -2.0, "F_timeout", 3.25, 4.0]),
        ("tuples", [(1.0, -2.0), (0.5, 3.0), (2, 1), (-1.5, 0.25)]),
        ("triples", [(1.0, -2.0, 3.0), (0.5, 3.0, -1.0), (2.0, 1.0, 0.0)]),
        ("lists", [[1.0, 2.0], [3.0, -4.0], [0.0, 0.5]]),
    ]
    skopt.Optimizer.tell = tell_spy
    try:
        for name, vals in forms:
            for ff in (["min", "mean", "ignore"] if "F" in str(vals) else ["min"]):
                seen.clear()
                _TABLE.clear()
                _TABLE.update({i: v for i, v in enumerate(vals)})
                problem = HpProblem()
                problem.add_hyperparameter((0, len(vals) - 1), "a")
                tmp = tempfile.mkdtemp(prefix="c05t_")
                try:
                    ev = Evaluator.create(_run_function, method="serial")
                    s = CBO(problem, ev, random_state=1, log_dir=tmp, verbose=0, surrogate_model="ET", surrogate_model_kwargs={"n_estimators": 5},
                            n_initial_points=len(vals) + 5, initial_points=[{"a": i} for i in range(len(vals))], filter_failures=ff)
                    s.search(max_evals=len(vals))
                    ev.close()
                finally:
                    shutil.rmtree(tmp, ignore_errors=True)
                told_impl = {}
                for x, y in seen:
                    for xi, yi in zip(x, y):
                        told_impl[int(xi[0])] = yi
                objs = []
                for v in vals:
                    if isinstance(v, str):
                        objs.append({"s": v})
                    elif isinstance(v, (tuple, list)):
                        objs.append({"t": [{"n": rat(float(c))} for c in v]})
                    else:
                        objs.append({"n": rat(float(v))})
                rep = d.ask({"op": "tell", "ignore": ff == "ignore", "objs": objs})["told"]
                case = {"tell": name, "filter_failures": ff, "objectives": [list(v) if isinstance(v, tuple) else v for v in vals]}
                ck.case(case, nontrivial=True)
                for i, (v, m) in enumerate(zip(vals, rep)):
                    ck.count("tell:" + m["k"])
                    got = told_impl.get(i, None)
                    if m["k"] == "skipped":
                        ok = got is None
                    elif m["k"] == "fail":
                        ok = got == "F"
                    elif m["k"] == "scal":
                        ok = isinstance(got, (int, float)) and Fraction(float(got)) == unrat(m["v"])
                    elif m["k"] == "vec":
                        ok = isinstance(got, list) and [Fraction(float(c)) for c in got] == [unrat(c) for c in m["v"]]
                    else:
                        ok = False
                    if not ok:
                        ck.mismatch(case, {"what": "value handed to Optimizer.tell differs from cboTellY", "index": i, "objective": v, "impl": got, "model": m})
                    # L3: numeric objectives reach the minimiser negated
                    if isinstance(v, (int, float)) and not (isinstance(got, (int, float)) and got == -v):
                        ck.fail("C05|objective-not-negated|CBO._tell|scalar", "a numeric objective is not told negated", case, {"objective": v, "told": got})
                    if isinstance(v, (tuple, list)) and not (isinstance(got, list) and got == [-c for c in v]):
                        ck.fail("C05|objective-not-negated|CBO._tell|tuple", "a numeric objective tuple is not told negated", case, {"objective": v, "told": got})
    finally:
        skopt.Optimizer.tell = orig


# --------------------------------------------------------------------------- driver of the whole check


def _load_corpus():
    out = []
    d = VERIF / "corpus" / "C05"
    if d.is_dir():
        for f in sorted(d.glob("*.json")):
            data = json.loads(f.read_text())
            out.append(data.get("case", data))
    return out


def _map(fn, items, workers):
    if workers <= 1 or len(items) < 4:
        return [fn(x) for x in items]
    ctx = multiprocessing.get_context("fork")
    with cf.ProcessPoolExecutor(max_workers=workers, mp_context=ctx) as ex:
        return list(ex.map(fn, items, chunksize=4))


def _observe_jobs(cases, workers):
    """run the real search histories (base cases and their shifted / rescaled variants)"""
    jobs = []
    for case in cases:
        jobs.append((case, None))
        if case.get("variants"):
            for which, seed in (("shift", case["seed"]), ("scale", case["seed"] + 1)):
                v = _variant(case, which, seed)
                if v is not None:
                    jobs.append((v, which))
    obs_all = _map(_observe_safe, [j[0] for j in jobs], workers)
    return jobs, obs_all


def _judge_jobs(ck, d, names, jobs, obs_all):
    """ask the model about every fit of every observed history and judge"""
    reqs, spans = [], []
    for n, ((case, var), obs) in enumerate(zip(jobs, obs_all)):
        if "harness_error" in obs:
            raise HarnessError(obs["harness_error"])
        eff = _eff_scaler(case, names)
        if obs["error"]:
            ck.case(case, nontrivial=True)
            ck.fail(f"C05|raises|CBO.search|{obs['error'].split(':')[0]},scaler={eff},surrogate={case['surrogate']}",
                    "search / tell / ask raised on a finite candidate set", case, {"error": obs["error"], "trace": obs.get("trace")})
            spans.append(None)
            continue
        nfit = min(len(obs["fits"]), len(obs["acqs"]), len(obs["proposals"]))
        if obs.get("spy_error"):
            ck.mismatch(case, {"what": "an environment observation (spy) failed: the model's inputs could not be observed", "errors": obs["spy_error"]})
        if nfit == 0:
            ck.case(case, nontrivial=True)
            ck.mismatch(case, {"what": "no surrogate fit was observed (spies saw nothing)", "fits": len(obs["fits"]), "acqs": len(obs["acqs"])})
            if case.get("route") == "fit_surrogate" and len(case.get("fail", [])) < case["K"]:
                # loading a checkpoint must make the next proposals model-based whatever its size; without a fit the proposal is a random point
                nvalid = case["K"] - len(case.get("fail", []))
                nip = int(case.get("n_initial_points", case["K"]))
                ck.fail("C05|checkpoint-not-fitted|CBO.fit_surrogate|" + ("valid-rows<n_initial_points" if nvalid < nip else "valid-rows>=n_initial_points"),
                        "after fit_surrogate(checkpoint) no surrogate was fitted: the next proposal is not model-based, let alone the best candidate", case,
                        {"valid_rows": nvalid, "n_initial_points": nip, "proposal": obs.get("proposals"), "objectives": case["objs"], "failed": case.get("fail")})
            spans.append(None)
            continue
        spans.append((len(reqs), nfit))
        for i in range(nfit):
            reqs.append(_request(case, obs, eff, i))
    reps = d.ask_all(reqs)
    results = {}
    pending = []
    for n, ((case, var), obs) in enumerate(zip(jobs, obs_all)):
        if spans[n] is None:
            continue
        start, nfit = spans[n]
        eff = _eff_scaler(case, names)
        ck.case(case, nontrivial=case["nobj"] >= 1 or case["sign"] != "neg" or bool(case.get("fail")) or bool(case.get("rounds")))
        results[n] = (_judge(ck, case, obs, reps[start:start + nfit], eff, pending), eff)
    # second round trip: the verified checker on the real proposals, the constant-liar lies
    for (req, verdict), rep in zip(pending, d.ask_all([q for q, _ in pending])):
        verdict(rep)
    # shift / scale clause: the proposal's score must be the same in the base run and in its variants
    n = 0
    while n < len(jobs):
        case, var = jobs[n]
        if var is None:
            base = results.get(n)
            k = n + 1
            while k < len(jobs) and jobs[k][1] is not None:
                which = jobs[k][1]
                r = results.get(k)
                if base and r and base[0] is not None and r[0] is not None:
                    ck.count(f"variant:{which}")
                    if base[0][0] != r[0][0]:
                        vcase = jobs[k][0]
                        ck.fail(_fp(f"{which}-changes-choice", case, base[1]),
                                f"the proposal's score changes when the objectives are {'shifted by a constant vector' if which == 'shift' else 'multiplied by a positive factor'}",
                                vcase, {"base_objectives": case["objs"], "variant": vcase["variant"], "score_base": base[0][0], "score_variant": r[0][0],
                                        "best": base[0][1]})
                k += 1
            n = k
        else:
            n += 1


def _t(ck, label, t0):
    import time

    ck.extra_cov.setdefault("phase_s", {})[label] = round(time.time() - t0, 1)
    return time.time()


def run(ck):
    import time

    t0 = time.time()
    ck.rule = ("CBO on a 1-D integer space 0..K-1 (K in 4..10), kappa=0, sampling acquisition optimiser, filter_duplicated=False; histories with one fit "
               "(every candidate an initial point), several fits (initial subset, then 1-3 tell rounds adding better observations) or failed evaluations "
               "('F' for a subset incl. the would-be best, filter_failures min/mean); at the last fit every candidate is observed; matrix surrogate {ET,RF,GP} "
               "(forests mostly configured to interpolate) x objective_scaler {auto,identity,minmax,quantile-uniform} x strategy {Linear,Chebyshev,AugChebyshev,PBI,"
               "Quadratic} x weights {random,fixed incl. a zero} x n_obj {scalar,2,3} x objectives {offsets + positive scales 1e-9..1e9 of a shuffled score with "
               "offsets up to 1e5 x the span (distinct doubles checked): all-positive, all-negative, mixed sign; independent (pareto)} x acq {UCB,UCBd} x seeds; "
               "half of the cases re-run with a constant vector added and with a positive factor 1e-9..1e9; plus monotone problems with default exploration "
               "(random initial points on 0..19; 8 fixed initial points far below the maximiser on 0..100/200 with the identity scaler x distance-based strategies x "
               "{ET,GP}; acq_func MES / gp_hedge asserted, EI / PI exercised), routes search() / fit_surrogate(DataFrame), moo_lower_bounds on 20 % of the "
               "multi-objective cases, MoScalarFunction instances and uniform weights, constant-liar batches ask(3) with cl_max/cl_mean/cl_min after the last fit, "
               "the documented objective forms through CBO._tell, and the name maps. distinct by canonical case; non-trivial = multi-objective, or "
               "objectives not all negative, or a multi-fit / failure history")
    ck.assumptions = [
        "surrogate (scikit-learn forests / GP) is not modelled: its predictions at the candidates are observed and passed to the model; the maximality oracle "
        "is asserted when the observed surrogate honours its contract (its arg-min is a candidate of minimal fitted target), which interpolating forests always do; "
        "the ranking oracle on the fitted targets does not depend on the surrogate at all",
        "quantile-uniform (sklearn QuantileTransformer) is not computed by the model: the scaled history comes from the repo's cook_objective_scaler and is "
        "checked order-preserving into [0,1] (Lean orderPreservingB)",
        "random weights, sampled candidates and the utopia point are observed through spies on Space.rvs / clone / _gaussian_acquisition / MoScalarFunction.scalarize",
        "floats: targets compared within 1e-9 + 64*eps*(|offset|/range) relative to the largest target; the strict ranking of targets is asserted only where that noise "
        "is below 1 % of the squared smallest relative score gap; Quadratic's SVD-based Q and the model's closed form agree within that tolerance",
    ]
    ck.trusted_extra = ["scikit-learn forests / GaussianProcessRegressor / QuantileTransformer / MinMaxScaler numerics", "numpy argmin tie-breaking = first index"]
    workers = min(16, os.cpu_count() or 1) if ck.thorough else 1
    nbase = ck.pick(110, 2400)
    nmono = ck.pick(12, 168)
    corpus = _load_corpus()
    cases = [c for c in corpus if not c.get("mono") and not c.get("cont")]
    cases += [_gen_case(ck.rng, t) for t in range(nbase)]
    monos = [c for c in corpus if c.get("mono")] + [_monotone_case(ck.rng, t) for t in range(nmono)]
    conts = [c for c in corpus if c.get("cont")] + [_cont_case(ck.rng, t) for t in range(ck.pick(6, 96))]
    # run the real searches before the Lean driver is started (fork-safety), then judge
    mono_obs = _map(_observe_mono_safe, monos, workers)
    cont_obs = _map(_observe_cont, conts, workers)
    t0 = _t(ck, "monotone_runs", t0)
    jobs, obs_all = _observe_jobs(cases, workers)
    t0 = _t(ck, "candidate_runs", t0)
    with ck.driver() as d:
        names = _check_names(ck, d)
        _tell_stream(ck, d)
        t0 = _t(ck, "names+tell", t0)
        _judge_jobs(ck, d, names, jobs, obs_all)
        t0 = _t(ck, "model+judge", t0)
        for case, obs in zip(monos, mono_obs):
            ck.case(case, nontrivial=True)
            _judge_mono(ck, case, obs, _eff_scaler(case, names))
        for case, obs in zip(conts, cont_obs):
            ck.case(case, nontrivial=True)
            _judge_cont(ck, case, obs)


def replay(ck, case):
    with ck.driver() as d:
        names = _check_names(ck, d)
        if case.get("mono"):
            obs = _observe_mono_safe(case)
            ck.case(case)
            _judge_mono(ck, case, obs, _eff_scaler(case, names))
            print("replay:", {"proposals": obs.get("a"), "error": obs.get("error")})
        elif case.get("cont"):
            obs = _observe_cont(case)
            ck.case(case)
            _judge_cont(ck, case, obs)
            print("replay:", {"proposals": [round(v, 3) for v in obs.get("x", [])], "error": obs.get("error")})
        elif case.get("tell"):
            _tell_stream(ck, d)
        else:
            base = None
            if case.get("variant"):
                # a shifted / rescaled case: re-run its base (undo the variant) to compare the scores
                v = case["variant"]
                m = len(case["objs"][0])
                base = dict(case)
                base.pop("variant")
                if "shift" in v:
                    base["objs"] = [[row[i] - v["shift"][i] for i in range(m)] for row in case["objs"]]
                else:
                    base["objs"] = [[row[i] / v["scale"] for i in range(m)] for row in case["objs"]]
            c = dict(case)
            c["variants"] = False
            jobs, obs_all = _observe_jobs([c], 1)
            _judge_jobs(ck, d, names, jobs, obs_all)
            obs = obs_all[0]
            print("replay:", {"proposals_after_each_fit": obs.get("proposals"), "told_order": obs.get("told_a"), "failed": case.get("fail"),
                              "objectives": case["objs"], "scores": case.get("scores"),
                              "fitted_targets_per_fit": [f["y"] for f in obs.get("fits", [])], "error": obs.get("error")})
            if base is not None:
                b = dict(base)
                b["variants"] = False
                ob = _observe_safe(b)
                print("replay (base objectives):", {"proposals": ob.get("proposals"), "objectives": base["objs"]})
                if ob.get("proposals") and obs.get("proposals") and case.get("kind") == "aligned":
                    if case["scores"][ob["proposals"][-1]] != case["scores"][obs["proposals"][-1]]:
                        ck.fail(_fp(("shift" if "shift" in case["variant"] else "scale") + "-changes-choice", case, _eff_scaler(case, names)),
                                "the proposal's score changes under a shift / positive rescaling of the objectives", case,
                                {"score_base": case["scores"][ob["proposals"][-1]], "score_variant": case["scores"][obs["proposals"][-1]]})
