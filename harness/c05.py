"""C05 — searches maximise the objective(s).

Real code: `CBO(...).search(max_evals=K)` on a finite candidate set in which every candidate is an
initial point (so the history has observed every candidate), `kappa = 0`, `acq_optimizer="sampling"`,
`filter_duplicated=False`; then `CBO.ask(1)` is the proposal.  Observed environment (spies, nothing is
compared on private attributes): what `Space.rvs` sampled (the candidates), what the cloned surrogate
was fitted on (`fit(X, y)`: the targets), what `_gaussian_acquisition` was evaluated on and returned
(`mu`, `std`, `kappa`, values), the weight vector and utopia point each `MoScalarFunction.scalarize`
call used.

L2 (correspondence with `Model/Direction.lean`): the told values are the negated objectives; the model's
    targets (objective scaler, utopia point, scalarisation — `quantile-uniform` enters as the scaled
    history produced by the repo's own `cook_objective_scaler`, checked order-preserving into [0,1])
    equal the fitted targets within 1e-9 relative; the model's acquisition values and arg-min equal the
    implementation's; the proposal is the arg-min candidate; the name maps and `'auto'` scaler resolution.
L3 (the property on the implementation): the proposal has maximal score whenever the observed surrogate
    honours its contract (its arg-min over the candidates is a candidate whose fitted target is minimal);
    the proposal's score does not change when a constant vector is added to the objectives or they are
    multiplied by a positive factor; for independent objectives and Linear/Chebyshev/AugChebyshev the
    proposal is not beaten in every objective by another candidate; on a monotone problem with the
    default exploration settings the later proposals concentrate in the upper half of the range.
"""
import concurrent.futures as cf
import json
import math
import multiprocessing
import os
import shutil
import tempfile
from fractions import Fraction

import numpy as np

from .common import HarnessError, VERIF, rat, unrat

STRATS = ["Linear", "Chebyshev", "AugChebyshev", "PBI", "Quadratic"]
PARAM = {"Linear": 0.0, "Chebyshev": 0.0, "AugChebyshev": 0.001, "PBI": 5.0, "Quadratic": 10.0}
MONOTONE = {"Linear", "Chebyshev", "AugChebyshev"}
SCALERS = ["auto", "identity", "minmax", "quantile-uniform"]
SURROGATES = ["ET", "RF", "GP"]
INTERP_KW = {"n_estimators": 12, "bootstrap": False, "max_samples": None, "max_features": 1.0, "min_samples_split": 2}


# --------------------------------------------------------------------------- generator


def _gen_case(rng, t):
    surrogate = SURROGATES[t % 3] if rng.random() < 0.8 else rng.choice(SURROGATES)
    nobj = rng.choice([0, 0, 2, 2, 3, 3])  # 0 = one objective (plain scalar), k>=2 = k-tuple
    strategy = STRATS[(t // 3) % 5] if nobj >= 1 else "Chebyshev"
    scaler = SCALERS[(t // 15) % 4] if rng.random() < 0.85 else rng.choice(SCALERS)
    K = rng.choice([4, 5, 6, 8, 10])
    kind = "aligned" if nobj <= 1 or rng.random() < 0.75 else "pareto"
    sign = rng.choice(["pos", "pos", "neg", "mixed"])
    m = max(nobj, 1)
    # scores: distinct, not monotone in the candidate index
    base = [float(v) for v in range(K)]
    if rng.random() < 0.3:
        base = [round(rng.uniform(0, 10), 3) + i * 0.37 for i in range(K)]
    rng.shuffle(base)
    lam = [rng.choice([1.0, 1.0, 2.0, 0.01, 1000.0, round(rng.uniform(0.1, 10), 2)]) for _ in range(m)]
    span = [l * (max(base) - min(base)) for l in lam]
    lo = [l * min(base) for l in lam]
    off = []
    for i in range(m):
        gap = rng.choice([1.0, 10.0, 100.0]) * max(span[i], 1e-9) * rng.choice([0.1, 1.0, 1.0])
        if sign == "pos":
            off.append(-lo[i] + gap)                       # all values > 0
        elif sign == "neg":
            off.append(-lo[i] - span[i] - gap)             # all values < 0
        else:
            off.append(-lo[i] - span[i] * rng.uniform(0.2, 0.8))  # straddles 0
    if kind == "pareto":
        objs = [[round(rng.uniform(-5, 5) if sign == "mixed" else (rng.uniform(1, 9) if sign == "pos" else -rng.uniform(1, 9)), 3)
                 for _ in range(m)] for _ in range(K)]
    else:
        objs = [[lam[i] * base[c] + off[i] for i in range(m)] for c in range(K)]
    weights = None
    if nobj >= 1 and rng.random() < 0.5:
        weights = [round(rng.uniform(0.05, 1.0), 3) for _ in range(m)]
        if m >= 2 and rng.random() < 0.2:
            weights[rng.randrange(m)] = 0.0
    order = list(range(K))
    rng.shuffle(order)
    return {
        "surrogate": surrogate, "interp": surrogate != "GP" and rng.random() < 0.8, "scaler": scaler, "strategy": strategy,
        "weights": weights, "nobj": nobj, "kind": kind, "sign": sign, "K": K, "scores": base, "objs": objs,
        "order": order, "seed": rng.randrange(1 << 20), "acq": rng.choice(["UCB", "UCBd"]) if surrogate != "GP" else "UCB",
        "variants": rng.random() < 0.5,
    }


def _variant(case, which, rng_seed):
    """shifted / rescaled copy of the objectives (same everything else)"""
    r = np.random.RandomState(rng_seed)
    m = len(case["objs"][0])
    c = dict(case)
    if which == "shift":
        mag = max(abs(v) for row in case["objs"] for v in row) + 1.0
        vec = [float(r.choice([-3.0, -1.0, 1.0, 3.0]) * mag) for _ in range(m)]
        c["objs"] = [[row[i] + vec[i] for i in range(m)] for row in case["objs"]]
        c["variant"] = {"shift": vec}
    else:
        f = float(r.choice([0.001, 0.5, 3.0, 250.0]))
        c["objs"] = [[row[i] * f for i in range(m)] for row in case["objs"]]
        c["variant"] = {"scale": f}
    return c


# --------------------------------------------------------------------------- real code + observation

_TABLE = {}


async def _run_function(job):
    return _TABLE[int(job.parameters["a"])]


class _Spies:
    def __init__(self):
        import deephyper.skopt.optimizer.optimizer as om
        import deephyper.skopt.space.space as sp
        import deephyper.skopt.moo as moo

        self.om, self.sp, self.moo = om, sp, moo
        self.rec = {"fit": [], "acq": [], "rvs": [], "scal": []}

    def __enter__(self):
        om, sp, moo, rec = self.om, self.sp, self.moo, self.rec
        self._clone, self._acq, self._rvs = om.clone, om._gaussian_acquisition, sp.Space.rvs
        self._moo = dict(moo.moo_functions)

        def clone_spy(est, **kw):
            e = self._clone(est, **kw)
            f = e.fit

            def fit(X, y, *a, **k):
                rec["fit"].append((np.array(X, dtype=float), np.array(y, dtype=float)))
                return f(X, y, *a, **k)

            e.fit = fit
            return e

        def acq_spy(X, model, y_opt=None, acq_func="LCB", return_grad=False, acq_func_kwargs=None, **extra):
            # **extra: pass through whatever further keywords the code's own signature has (e.g. random_state)
            v = self._acq(X, model, y_opt=y_opt, acq_func=acq_func, return_grad=return_grad, acq_func_kwargs=acq_func_kwargs, **extra)
            if acq_func.endswith("d") and acq_func != "gp_hedged":
                mu, _, sd = model.predict(X, return_std=True, disentangled_std=True)
            else:
                mu, sd = model.predict(X, return_std=True)
            rec["acq"].append({"X": np.array(X, dtype=float), "mu": np.array(mu, dtype=float), "sd": np.array(sd, dtype=float),
                               "kappa": float((acq_func_kwargs or {}).get("kappa", 1.96)), "acq_func": acq_func,
                               "values": np.array(v, dtype=float)})
            return v

        def rvs_spy(this, *a, **k):
            r = self._rvs(this, *a, **k)
            rec["rvs"].append([list(x) for x in r])
            return r

        def wrap(cls):
            class Spy(cls):
                def scalarize(this, y):
                    out = cls.scalarize(this, y)
                    up = this._utopia_point
                    rec["scal"].append({"w": np.array(this._weight, dtype=float).tolist(),
                                        "u": None if up is None else np.array(up, dtype=float).tolist(),
                                        "y": np.array(y, dtype=float).tolist(), "out": float(out)})
                    return out
            Spy.__name__ = cls.__name__
            return Spy

        om.clone, om._gaussian_acquisition, sp.Space.rvs = clone_spy, acq_spy, rvs_spy
        for k in list(moo.moo_functions):
            moo.moo_functions[k] = wrap(self._moo[k])
        return self

    def __exit__(self, *a):
        self.om.clone, self.om._gaussian_acquisition, self.sp.Space.rvs = self._clone, self._acq, self._rvs
        for k, v in self._moo.items():
            self.moo.moo_functions[k] = v


def _observe(case):
    """run the real search on one case; returns plain data (picklable)"""
    import warnings

    warnings.filterwarnings("ignore")
    from deephyper.evaluator import Evaluator
    from deephyper.hpo import CBO, HpProblem
    from deephyper.skopt.utils import cook_objective_scaler
    from deephyper.skopt.learning import RandomForestRegressor

    K, nobj = case["K"], case["nobj"]
    _TABLE.clear()
    for c in range(K):
        o = case["objs"][c]
        _TABLE[c] = float(o[0]) if nobj == 0 else tuple(float(v) for v in o)
    problem = HpProblem()
    problem.add_hyperparameter((0, K - 1), "a")
    tmp = tempfile.mkdtemp(prefix="c05_")
    out = {"error": None}
    try:
        with _Spies() as spies:
            ev = Evaluator.create(_run_function, method="serial")
            kw = dict(INTERP_KW) if case["interp"] else ({"n_estimators": 25} if case["surrogate"] != "GP" else None)
            search = CBO(
                problem, ev, random_state=case["seed"], log_dir=tmp, verbose=0,
                surrogate_model=case["surrogate"], surrogate_model_kwargs=kw,
                acq_func=case["acq"], kappa=0.0, xi=0.0, acq_optimizer="sampling",
                scheduler={"type": "periodic-exp-decay", "period": 10, "rate": 0.0},
                n_initial_points=K, initial_points=[{"a": int(a)} for a in case["order"]],
                n_points=60 + 10 * K, filter_duplicated=False, objective_scaler=case["scaler"],
                moo_scalarization_strategy=case["strategy"], moo_scalarization_weight=case["weights"],
            )
            res = search.search(max_evals=K)
            prop = search.ask(1)[0]
            rec = spies.rec
            out["proposal"] = int(prop["a"])
            out["told_a"] = [int(v) for v in res["p:a"].tolist()]
            if not rec["fit"] or not rec["acq"] or not rec["rvs"]:
                raise HarnessError(f"spies saw fit={len(rec['fit'])} acq={len(rec['acq'])} rvs={len(rec['rvs'])}")
            out["nfit"] = len(rec["fit"])
            out["y_fit"] = rec["fit"][-1][1].tolist()
            a = rec["acq"][-1]
            out["acq"] = {"mu": a["mu"].tolist(), "sd": a["sd"].tolist(), "kappa": a["kappa"], "values": a["values"].tolist(),
                          "acq_func": a["acq_func"]}
            out["cands"] = [int(x[0]) for x in rec["rvs"][-1]]
            if len(out["cands"]) != len(out["acq"]["mu"]):
                raise HarnessError("candidate list and acquisition values differ in length")
            nscal = len(out["y_fit"])
            sc = rec["scal"][-nscal:] if rec["scal"] else []
            out["w"] = sc[0]["w"] if sc else None
            out["u"] = sc[0]["u"] if sc else None
            # the scaled history, from the repo's own scaler factory (public function), on the told values
            told = [[-float(v) for v in case["objs"][c]] for c in out["told_a"]]
            forest = case["surrogate"] in ("RF", "ET")
            scl = cook_objective_scaler(case["scaler"], RandomForestRegressor() if forest else None)
            arr = np.asarray(told, dtype=float)
            out["scaled"] = np.asarray(scl.fit(arr).transform(arr), dtype=float).tolist()
            try:
                ev.close()
            except Exception:
                pass
    except HarnessError:
        raise
    except Exception as e:  # the real code raised: the oracle decides what that means
        import traceback

        out["error"] = f"{type(e).__name__}: {e}"
        out["trace"] = traceback.format_exc()[-1500:]
    finally:
        shutil.rmtree(tmp, ignore_errors=True)
    return out


class _Quiet:
    """no BLAS/OpenMP oversubscription (16 workers x 16 threads), no warning chatter from the code under test"""

    def __enter__(self):
        import warnings
        from threadpoolctl import threadpool_limits

        self._show = warnings.showwarning
        warnings.showwarning = lambda *a, **k: None
        self._lim = threadpool_limits(limits=1)
        self._lim.__enter__()
        return self

    def __exit__(self, *a):
        import warnings

        self._lim.__exit__(*a)
        warnings.showwarning = self._show


def _observe_safe(case):
    try:
        with _Quiet():
            return _observe(case)
    except HarnessError as e:
        return {"harness_error": str(e)}


def _observe_mono_safe(case):
    with _Quiet():
        return _observe_mono(case)


# --------------------------------------------------------------------------- judging


def _eff_scaler(case, names):
    i = names["keys"].index(case["scaler"])
    return (names["scaler_forest"] if case["surrogate"] in ("RF", "ET") else names["scaler_other"])[i]


def _request(case, obs, eff):
    told = [[-float(v) for v in case["objs"][c]] for c in obs["told_a"]]
    pos = {c: i for i, c in enumerate(obs["told_a"])}
    w = obs["w"] if obs["w"] is not None else [1.0] * max(case["nobj"], 1)
    req = {"op": "case", "single": case["nobj"] == 0, "told": [[rat(v) for v in r] for r in told],
           "scaler": {"identity": "identity", "minmax": "minmax"}.get(eff, "given"),
           "strategy": case["strategy"], "param": rat(PARAM[case["strategy"]]), "w": [rat(v) for v in w],
           "cands": [pos[c] for c in obs["cands"]], "mu": [rat(v) for v in obs["acq"]["mu"]],
           "sd": [rat(v) for v in obs["acq"]["sd"]], "kappa": rat(obs["acq"]["kappa"])}
    if req["scaler"] == "given":
        req["scaled"] = [[rat(v) for v in r] for r in obs["scaled"]]
    return req


def _close(a, b, scale, rel=1e-9):
    return abs(a - b) <= rel * max(scale, 1e-300)


def _fp(clause, case, eff, entry="CBO.ask"):
    opts = f"scaler={eff}"
    if case["nobj"] >= 1:
        opts += f",strategy={case['strategy']}"
    else:
        opts += ",single-objective"
    return f"C05|{clause}|{entry}|{opts}"


def _score_of(case):
    """what 'larger is better' means for this case, per candidate: the common score (aligned) or None"""
    return case["scores"] if case["kind"] == "aligned" else None


def _judge(ck, case, obs, rep, eff):
    """returns the chosen candidate's score (or None) for the variant comparison"""
    K = case["K"]
    ck.count(f"surrogate:{case['surrogate']}{'+interp' if case['interp'] else ''}")
    ck.count(f"scaler:{case['scaler']}->{eff}")
    ck.count(f"strategy:{case['strategy'] if case['nobj'] >= 1 else 'single'}")
    ck.count(f"nobj:{case['nobj']}")
    ck.count(f"kind:{case['kind']}/{case['sign']}")
    ck.count("weights:" + ("none" if case["nobj"] == 0 else "random" if case["weights"] is None else "fixed"))
    told_set = sorted(obs["told_a"])
    if told_set != list(range(K)):
        ck.mismatch(case, {"what": "the search did not evaluate exactly the initial points", "told": obs["told_a"]})
        return None
    if obs["told_a"] != [int(a) for a in case["order"]]:
        ck.mismatch(case, {"what": "initial points were not evaluated in the given order", "told": obs["told_a"]})
    # ---- L2: targets
    y_fit = obs["y_fit"]
    tg = rep["targets"]
    if tg is None:
        ck.mismatch(case, {"what": "model has no targets (error branch) but the implementation fitted", "reply": rep})
        return None
    tg = [float(unrat(v)) for v in tg]
    scale = max(max(abs(v) for v in tg), max(abs(v) for v in y_fit))
    # conditioning of "subtract the column minimum" (utopia point / MinMaxScaler's X*scale + min_) in doubles:
    # an offset that is large against the column range costs eps*|y|/range of relative accuracy
    told_rows = [[-float(v) for v in case["objs"][c]] for c in obs["told_a"]]
    cond = 1.0
    for j in range(len(told_rows[0])):
        col = [r[j] for r in told_rows]
        rng_j = max(col) - min(col)
        if rng_j > 0:
            cond = max(cond, max(abs(v) for v in col) / rng_j)
    rel = 1e-9 + 64 * 2.0 ** -52 * cond
    ck.count("cond:" + ("<1e3" if cond < 1e3 else "<1e6" if cond < 1e6 else ">=1e6"))
    bad_targets = len(tg) != len(y_fit) or not all(_close(a, b, scale, rel) for a, b in zip(tg, y_fit))
    if not rep["contract"]:
        ck.mismatch(case, {"what": "the repo's quantile-uniform scaler is not an order-preserving map into [0,1] on this history "
                                   "(assumption of the model broken)", "scaled": obs["scaled"]})
    if bad_targets:
        pre = [float(unrat(v)) for v in rep["pre_targets"]] if rep["pre_targets"] else None
        ck.mismatch(case, {"what": "fitted targets differ from the model's", "impl": y_fit, "model": tg, "model_pre_fix": pre,
                           "weights": obs["w"], "utopia_impl": obs["u"]})
        ck.count("L2:targets-differ" + (":impl=pre-fix-model" if pre and len(pre) == len(y_fit) and all(_close(a, b, scale, rel) for a, b in zip(pre, y_fit)) else ""))
    # ---- L2: acquisition and arg-min
    acq = [float(unrat(v)) for v in rep["acq"]]
    vals = obs["acq"]["values"]
    ascale = max(max(abs(v) for v in vals), 1e-300)
    if len(acq) != len(vals) or not all(_close(a, b, ascale, 1e-12) for a, b in zip(acq, vals)):
        ck.mismatch(case, {"what": "acquisition values differ from mu - kappa*std", "kappa": obs["acq"]["kappa"]})
    if obs["acq"]["kappa"] != 0.0:
        ck.mismatch(case, {"what": "kappa reaching the acquisition is not the 0 that was configured", "kappa": obs["acq"]["kappa"]})
    if obs["acq"]["acq_func"] != {"UCB": "LCB", "UCBd": "LCBd"}[case["acq"]]:
        ck.mismatch(case, {"what": "acquisition name not mapped UCB->LCB", "got": obs["acq"]["acq_func"]})
    choice = rep["choice"]
    cand = obs["cands"]
    if choice is None or cand[choice] != obs["proposal"]:
        ck.mismatch(case, {"what": "proposal is not the first arg-min candidate of the acquisition",
                           "proposal": obs["proposal"], "model_choice": None if choice is None else cand[choice]})
    # ---- L3: the property on the implementation's own outputs
    pos = {c: i for i, c in enumerate(obs["told_a"])}
    present = sorted(set(cand))
    tmin = min(y_fit[pos[c]] for c in present)
    mu = obs["acq"]["mu"]
    k_hat = int(np.argmin(np.asarray(vals)))
    # contract of the surrogate as observed: its arg-min is a candidate whose fitted target is minimal
    contract_met = _close(y_fit[pos[cand[k_hat]]], tmin, scale, 1e-12)
    ck.count("surrogate-contract:" + ("met" if contract_met else "not-met"))
    ck.count("all-candidates-sampled:" + str(present == list(range(K))))
    prop = obs["proposal"]
    if prop not in pos:
        ck.fail(_fp("proposal-outside-candidates", case, eff), "proposal is not one of the candidates", case, {"proposal": prop})
        return None
    score = _score_of(case)
    detail = {"proposal": prop, "objectives_of_proposal": case["objs"][prop], "fitted_targets_by_candidate": {c: y_fit[pos[c]] for c in present},
              "weights": obs["w"], "utopia": obs["u"], "effective_scaler": eff}
    if score is not None and contract_met:
        best = max(score[c] for c in present)
        if score[prop] != best:
            detail["score_of_proposal"] = score[prop]
            detail["best_score"] = best
            detail["best_candidate"] = [c for c in present if score[c] == best]
            ck.fail(_fp("chosen-not-max", case, eff), "with every candidate observed and kappa=0 the proposal is not the candidate of largest objective(s)",
                    case, detail)
        return score[prop], best
    if score is None and contract_met and case["strategy"] in MONOTONE and (obs["w"] is None or all(v >= 0 for v in obs["w"])):
        po = case["objs"][prop]
        for c in present:
            if all(a > b for a, b in zip(case["objs"][c], po)):
                detail["dominating_candidate"] = c
                detail["its_objectives"] = case["objs"][c]
                ck.fail(_fp("proposal-beaten-in-every-objective", case, eff),
                        "another observed candidate is strictly better in every objective than the proposal", case, detail)
                break
    return None


# --------------------------------------------------------------------------- monotone-problem run


def _monotone_case(rng, t):
    K = 20
    nobj = rng.choice([0, 2, 3])
    return {"mono": True, "surrogate": SURROGATES[t % 3], "scaler": SCALERS[(t // 3) % 4], "strategy": STRATS[t % 5], "nobj": nobj, "K": K,
            "sign": ["pos", "neg", "mixed"][(t // 2) % 3], "seed": rng.randrange(1 << 20), "n_evals": 26 if SURROGATES[t % 3] == "GP" else 36}


def _mono_objs(case):
    K, m = case["K"], max(case["nobj"], 1)
    off = {"pos": 50.0, "neg": -50.0 - K, "mixed": -K / 2.0}[case["sign"]]
    return [[(i + 1) * float(a) + off * (i + 1) for i in range(m)] for a in range(K)]


def _observe_mono(case):
    import warnings

    warnings.filterwarnings("ignore")
    from deephyper.evaluator import Evaluator
    from deephyper.hpo import CBO, HpProblem

    K, nobj = case["K"], case["nobj"]
    objs = _mono_objs(case)
    _TABLE.clear()
    for c in range(K):
        _TABLE[c] = float(objs[c][0]) if nobj == 0 else tuple(objs[c])
    problem = HpProblem()
    problem.add_hyperparameter((0, K - 1), "a")
    tmp = tempfile.mkdtemp(prefix="c05m_")
    out = {"error": None}
    try:
        ev = Evaluator.create(_run_function, method="serial")
        search = CBO(problem, ev, random_state=case["seed"], log_dir=tmp, verbose=0, surrogate_model=case["surrogate"],
                     surrogate_model_kwargs={"n_estimators": 25} if case["surrogate"] != "GP" else None,
                     acq_func="UCB", acq_optimizer="sampling", n_initial_points=8, n_points=200, filter_duplicated=False,
                     objective_scaler=case["scaler"], moo_scalarization_strategy=case["strategy"],
                     moo_scalarization_weight=[1.0 / max(nobj, 1)] * max(nobj, 1) if nobj else None)
        res = search.search(max_evals=case["n_evals"])
        out["a"] = [int(v) for v in res.sort_values("job_id")["p:a"].tolist()] if "job_id" in res.columns else [int(v) for v in res["p:a"].tolist()]
        try:
            ev.close()
        except Exception:
            pass
    except Exception as e:
        import traceback

        out["error"] = f"{type(e).__name__}: {e}"
        out["trace"] = traceback.format_exc()[-1500:]
    finally:
        shutil.rmtree(tmp, ignore_errors=True)
    return out


def _judge_mono(ck, case, obs, eff):
    ck.count(f"mono:{case['surrogate']}/{eff}/{case['strategy'] if case['nobj'] else 'single'}/{case['sign']}")
    if obs["error"]:
        ck.fail(f"C05|raises|CBO.search|{obs['error'].split(':')[0]}", "search raised on a monotone problem", case, obs)
        return
    a = obs["a"]
    late = a[-12:]
    mid = (case["K"] - 1) / 2.0
    mean_late = sum(late) / len(late)
    ck.count("mono:late-mean>=0.75K" if mean_late >= 0.75 * (case["K"] - 1) else "mono:late-mean<0.75K")
    if mean_late <= mid:
        ck.fail(_fp("concentrates-away-from-maximiser", case, eff, "CBO.search"),
                "on a monotone problem (objective increasing in a) the late proposals concentrate in the lower half", case,
                {"proposals": a, "late_mean": mean_late, "midpoint": mid})


# --------------------------------------------------------------------------- name maps / tell stream


def _check_names(ck, d):
    import deephyper.hpo._cbo as cbo

    keys = ["UCB", "UCBd", "EI", "PI", "MES", "gp_hedge", "EId", "PId", "MESd", "gp_hedged", "cl_min", "cl_mean", "cl_max", "topk",
            "boltzmann", "qUCB", "qUCBd", "min", "mean", "max", "ignore", "auto", "identity", "minmax", "quantile-uniform", "log", "minmaxlog"]
    rep = d.ask({"op": "names", "keys": keys})
    rep["keys"] = keys
    for name, table in (("acq", cbo.MAP_acq_func), ("mp", cbo.MAP_multi_point_strategy), ("ff", cbo.MAP_filter_failures)):
        for k, got in zip(keys, rep[name]):
            ck.count("names")
            if table.get(k, k) != got:
                ck.mismatch({"names": name, "key": k}, {"impl": table.get(k, k), "model": got})
    # direction of the maps (the property): the user-facing max-names go to the internal min-names
    want = {"acq": {"UCB": "LCB", "UCBd": "LCBd"}, "mp": {"cl_max": "cl_min", "cl_min": "cl_max", "qUCB": "qLCB", "qUCBd": "qLCBd"}, "ff": {"min": "max"}}
    for name, table in (("acq", cbo.MAP_acq_func), ("mp", cbo.MAP_multi_point_strategy), ("ff", cbo.MAP_filter_failures)):
        if dict(table) != want[name]:
            ck.fail(f"C05|name-map|_cbo.MAP_{name}|", "a max<->min name map changed", {"names": name}, {"impl": dict(table), "want": want[name]})
    return rep


def _tell_stream(ck, d):
    """what CBO hands to Optimizer.tell for the documented objective forms (numbers, tuples, 'F...' failures)"""
    import deephyper.skopt as skopt
    from deephyper.evaluator import Evaluator
    from deephyper.hpo import CBO, HpProblem

    seen = []
    orig = skopt.Optimizer.tell

    def tell_spy(this, x, y, fit=True):
        seen.append((x, y))
        return orig(this, x, y, fit=fit)

    forms = [
        ("scalars", [1.5, -2.0, 3, 0.0, -0.0, 1e-300, 7]),
        ("scalars+F", [1.5, "F", -2.0, "F_timeout", 3.25, 4.0]),
        ("tuples", [(1.0, -2.0), (0.5, 3.0), (2, 1), (-1.5, 0.25)]),
        ("triples", [(1.0, -2.0, 3.0), (0.5, 3.0, -1.0), (2.0, 1.0, 0.0)]),
        ("lists", [[1.0, 2.0], [3.0, -4.0], [0.0, 0.5]]),
    ]
    skopt.Optimizer.tell = tell_spy
    try:
        for name, vals in forms:
            for ff in (["min", "mean", "ignore"] if "F" in str(vals) else ["min"]):
                seen.clear()
                _TABLE.clear()
                _TABLE.update({i: v for i, v in enumerate(vals)})
                problem = HpProblem()
                problem.add_hyperparameter((0, len(vals) - 1), "a")
                tmp = tempfile.mkdtemp(prefix="c05t_")
                try:
                    ev = Evaluator.create(_run_function, method="serial")
                    s = CBO(problem, ev, random_state=1, log_dir=tmp, verbose=0, surrogate_model="ET", surrogate_model_kwargs={"n_estimators": 5},
                            n_initial_points=len(vals) + 5, initial_points=[{"a": i} for i in range(len(vals))], filter_failures=ff)
                    s.search(max_evals=len(vals))
                    ev.close()
                finally:
                    shutil.rmtree(tmp, ignore_errors=True)
                told_impl = {}
                for x, y in seen:
                    for xi, yi in zip(x, y):
                        told_impl[int(xi[0])] = yi
                objs = []
                for v in vals:
                    if isinstance(v, str):
                        objs.append({"s": v})
                    elif isinstance(v, (tuple, list)):
                        objs.append({"t": [{"n": rat(float(c))} for c in v]})
                    else:
                        objs.append({"n": rat(float(v))})
                rep = d.ask({"op": "tell", "ignore": ff == "ignore", "objs": objs})["told"]
                case = {"tell": name, "filter_failures": ff, "objectives": [list(v) if isinstance(v, tuple) else v for v in vals]}
                ck.case(case, nontrivial=True)
                for i, (v, m) in enumerate(zip(vals, rep)):
                    ck.count("tell:" + m["k"])
                    got = told_impl.get(i, None)
                    if m["k"] == "skipped":
                        ok = got is None
                    elif m["k"] == "fail":
                        ok = got == "F"
                    elif m["k"] == "scal":
                        ok = isinstance(got, (int, float)) and Fraction(float(got)) == unrat(m["v"])
                    elif m["k"] == "vec":
                        ok = isinstance(got, list) and [Fraction(float(c)) for c in got] == [unrat(c) for c in m["v"]]
                    else:
                        ok = False
                    if not ok:
                        ck.mismatch(case, {"what": "value handed to Optimizer.tell differs from cboTellY", "index": i, "objective": v, "impl": got, "model": m})
                    # L3: numeric objectives reach the minimiser negated
                    if isinstance(v, (int, float)) and not (isinstance(got, (int, float)) and got == -v):
                        ck.fail("C05|objective-not-negated|CBO._tell|scalar", "a numeric objective is not told negated", case, {"objective": v, "told": got})
                    if isinstance(v, (tuple, list)) and not (isinstance(got, list) and got == [-c for c in v]):
                        ck.fail("C05|objective-not-negated|CBO._tell|tuple", "a numeric objective tuple is not told negated", case, {"objective": v, "told": got})
    finally:
        skopt.Optimizer.tell = orig


# --------------------------------------------------------------------------- driver of the whole check


def _load_corpus():
    out = []
    d = VERIF / "corpus" / "C05"
    if d.is_dir():
        for f in sorted(d.glob("*.json")):
            data = json.loads(f.read_text())
            out.append(data.get("case", data))
    return out


def _map(fn, items, workers):
    if workers <= 1 or len(items) < 4:
        return [fn(x) for x in items]
    ctx = multiprocessing.get_context("fork")
    with cf.ProcessPoolExecutor(max_workers=workers, mp_context=ctx) as ex:
        return list(ex.map(fn, items, chunksize=4))


def _observe_jobs(cases, workers):
    """run the real searches (base cases and their shifted / rescaled variants)"""
    jobs = []
    for case in cases:
        jobs.append((case, None))
        if case.get("variants"):
            jobs.append((_variant(case, "shift", case["seed"]), "shift"))
            jobs.append((_variant(case, "scale", case["seed"] + 1), "scale"))
    obs_all = _map(_observe_safe, [j[0] for j in jobs], workers)
    return jobs, obs_all


def _judge_jobs(ck, d, names, jobs, obs_all):
    """ask the model about every observed run and judge"""
    reqs, idx = [], []
    for n, ((case, var), obs) in enumerate(zip(jobs, obs_all)):
        if "harness_error" in obs:
            raise HarnessError(obs["harness_error"])
        eff = _eff_scaler(case, names)
        if obs["error"]:
            ck.case(case, nontrivial=True)
            ck.fail(f"C05|raises|CBO.search|{obs['error'].split(':')[0]},scaler={eff},surrogate={case['surrogate']}",
                    "search / ask raised on a finite all-observed candidate set", case, {"error": obs["error"], "trace": obs.get("trace")})
            continue
        reqs.append(_request(case, obs, eff))
        idx.append(n)
    reps = d.ask_all(reqs)
    results = {}
    for n, rep in zip(idx, reps):
        case, var = jobs[n]
        obs = obs_all[n]
        eff = _eff_scaler(case, names)
        ck.case(case, nontrivial=case["nobj"] >= 1 or case["sign"] != "neg")
        results[n] = (_judge(ck, case, obs, rep, eff), eff)
    # shift / scale clause: the proposal's score must be the same in the base run and in its variants
    n = 0
    while n < len(jobs):
        case, var = jobs[n]
        if var is None and case.get("variants"):
            base = results.get(n)
            for k, which in ((n + 1, "shift"), (n + 2, "scale")):
                r = results.get(k)
                if base and r and base[0] is not None and r[0] is not None:
                    ck.count(f"variant:{which}")
                    if base[0][0] != r[0][0]:
                        vcase = jobs[k][0]
                        ck.fail(_fp(f"{which}-changes-choice", case, base[1]),
                                f"the proposal's score changes when the objectives are {'shifted by a constant vector' if which == 'shift' else 'multiplied by a positive factor'}",
                                vcase, {"base_objectives": case["objs"], "variant": vcase["variant"], "score_base": base[0][0], "score_variant": r[0][0],
                                        "best": base[0][1]})
            n += 3
        else:
            n += 1


def _t(ck, label, t0):
    import time

    ck.extra_cov.setdefault("phase_s", {})[label] = round(time.time() - t0, 1)
    return time.time()


def run(ck):
    import time

    t0 = time.time()
    ck.rule = ("CBO on a 1-D integer space 0..K-1 (K in 4..10), every candidate an initial point, kappa=0, sampling acquisition optimiser, "
               "filter_duplicated=False; matrix surrogate {ET,RF,GP} (forests mostly configured to interpolate: bootstrap=False, max_features=1.0) x "
               "objective_scaler {auto,identity,minmax,quantile-uniform} x strategy {Linear,Chebyshev,AugChebyshev,PBI,Quadratic} x weights {random,fixed incl. a zero} x "
               "n_obj {scalar,1,2,3} x objectives {offsets+positive scales of a shuffled score: all-positive, all-negative, mixed sign; independent (pareto)} x "
               "acq {UCB,UCBd} x seeds; half of the cases re-run with a constant vector added and with a positive factor; plus monotone 20-point problems "
               "with default exploration, the documented objective forms through CBO._tell, and the name maps. distinct by canonical case; "
               "non-trivial = multi-objective or objectives not all negative")
    ck.assumptions = [
        "surrogate (scikit-learn forests / GP) is not modelled: its predictions at the candidates are observed and passed to the model; the maximality oracle "
        "is asserted when the observed surrogate honours its contract (its arg-min is a candidate of minimal fitted target), which interpolating forests always do",
        "quantile-uniform (sklearn QuantileTransformer) is not computed by the model: the scaled history comes from the repo's cook_objective_scaler and is "
        "checked order-preserving into [0,1] (Lean orderPreservingB)",
        "random weights, sampled candidates and the utopia point are observed through spies on Space.rvs / clone / _gaussian_acquisition / MoScalarFunction.scalarize",
        "floats: targets compared within 1e-9 relative to the largest target; Quadratic's SVD-based Q and the model's closed form agree within that tolerance",
    ]
    ck.trusted_extra = ["scikit-learn forests / GaussianProcessRegressor / QuantileTransformer / MinMaxScaler numerics", "numpy argmin tie-breaking = first index"]
    workers = min(16, os.cpu_count() or 1) if ck.thorough else 1
    nbase = ck.pick(120, 2400)
    nmono = ck.pick(9, 150)
    corpus = _load_corpus()
    cases = [c for c in corpus if not c.get("mono")]
    cases += [_gen_case(ck.rng, t) for t in range(nbase)]
    monos = [c for c in corpus if c.get("mono")] + [_monotone_case(ck.rng, t) for t in range(nmono)]
    # run the real searches before the Lean driver is started (fork-safety), then judge
    mono_obs = _map(_observe_mono_safe, monos, workers)
    t0 = _t(ck, "monotone_runs", t0)
    jobs, obs_all = _observe_jobs(cases, workers)
    t0 = _t(ck, "candidate_runs", t0)
    with ck.driver() as d:
        names = _check_names(ck, d)
        _tell_stream(ck, d)
        t0 = _t(ck, "names+tell", t0)
        _judge_jobs(ck, d, names, jobs, obs_all)
        t0 = _t(ck, "model+judge", t0)
        for case, obs in zip(monos, mono_obs):
            ck.case(case, nontrivial=True)
            _judge_mono(ck, case, obs, _eff_scaler(case, names))


def replay(ck, case):
    with ck.driver() as d:
        names = _check_names(ck, d)
        if case.get("mono"):
            obs = _observe_mono_safe(case)
            ck.case(case)
            _judge_mono(ck, case, obs, _eff_scaler(case, names))
            print("replay:", {"proposals": obs.get("a"), "error": obs.get("error")})
        elif case.get("tell"):
            _tell_stream(ck, d)
        else:
            base = None
            if case.get("variant"):
                # a shifted / rescaled case: re-run its base (undo the variant) to compare the scores
                v = case["variant"]
                m = len(case["objs"][0])
                base = dict(case)
                base.pop("variant")
                if "shift" in v:
                    base["objs"] = [[row[i] - v["shift"][i] for i in range(m)] for row in case["objs"]]
                else:
                    base["objs"] = [[row[i] / v["scale"] for i in range(m)] for row in case["objs"]]
            c = dict(case)
            c["variants"] = False
            jobs, obs_all = _observe_jobs([c], 1)
            _judge_jobs(ck, d, names, jobs, obs_all)
            obs = obs_all[0]
            print("replay:", {"proposal": obs.get("proposal"), "objectives": case["objs"], "scores": case.get("scores"),
                              "fitted_targets": obs.get("y_fit"), "told_order": obs.get("told_a"), "error": obs.get("error")})
            if base is not None:
                b = dict(base)
                b["variants"] = False
                ob = _observe_safe(b)
                print("replay (base objectives):", {"proposal": ob.get("proposal"), "objectives": base["objs"]})
                if ob.get("proposal") is not None and obs.get("proposal") is not None and case.get("kind") == "aligned":
                    if case["scores"][ob["proposal"]] != case["scores"][obs["proposal"]]:
                        ck.fail(_fp(("shift" if "shift" in case["variant"] else "scale") + "-changes-choice", case, _eff_scaler(case, names)),
                                "the proposal's score changes under a shift / positive rescaling of the objectives", case,
                                {"score_base": case["scores"][ob["proposal"]], "score_variant": case["scores"][obs["proposal"]]})
